import sys
pid=sys.argv[1]
prop=open('/tmp/wt/prompt_%s.txt'%pid).read()
print(f"""You are helping to evaluate a verification framework by producing realistic *seeded defects* (mutants) for a Go library.

The library is emcfarlane/larking (Go): it transcodes HTTP/JSON, gRPC, gRPC-web and twirp requests onto gRPC services via protoreflect, with google.api.http path-template routing. You have your own scratch git worktree of it at /tmp/wt/{pid} (source under /tmp/wt/{pid}/larking). Work ONLY inside /tmp/wt/{pid}. Never read or write /repo or /verif (they are off limits), and do not use the network (there is none).

Shell environment for every Go command: export GOFLAGS=-mod=mod GOPROXY=off GOSUMDB=off GOTOOLCHAIN=local
Run the existing tests with: cd /tmp/wt/{pid} && go test -vet=off -count=1 ./larking/   (about 10 s; they pass on the unchanged tree).

Here is a semantic property the library is supposed to satisfy:

{prop}

YOUR TASK: produce TWO different, independent source changes (mutant A and mutant B) to the non-test Go sources of the library, each of which
  (1) BREAKS the property above (for some input / configuration / schedule / history in its quantifier),
  (2) still compiles and still passes the whole existing test suite unchanged, and
  (3) is realistic: the kind of slip or well-meant refactoring/optimisation a maintainer could plausibly commit (an off-by-one, a dropped condition, a reordered step, a wrong variable, a too-eager cache, a lost edge case), a few lines, not an obvious sabotage and not dead code.
Prefer changes that need something SPECIFIC to manifest - a particular input shape, an unusual value, a multi-step sequence of operations, a particular interleaving or fault point, or two sites that each look fine alone - rather than changes that ordinary use would expose at once. The two mutants should break the property in different ways (different code sites / mechanisms).
Do NOT modify larking/verif_hooks.go, and do not modify or delete existing test files.

For each mutant also write a DEMONSTRATION: a small Go test file (new file, e.g. larking/zz_demo_a_test.go, package larking, may use the existing test helpers and the generated api/testpb package) that FAILS with the mutant applied and PASSES on the unchanged tree. The demonstration should show the property violation through the library's observable behaviour (public API / HTTP responses / handler-visible messages), not by calling a changed internal helper with a magic value when that can be avoided.

Deliverables (leave them in the worktree root):
  /tmp/wt/{pid}/mutant_a.diff  - `git diff` of the source change for mutant A only (no test files), applicable with `git apply` to the unchanged tree
  /tmp/wt/{pid}/demo_a_test.go - the demonstration test for mutant A (copy of the file you placed under larking/)
  /tmp/wt/{pid}/mutant_b.diff, /tmp/wt/{pid}/demo_b_test.go - same for mutant B
  /tmp/wt/{pid}/NOTES.md - for each mutant: what was changed, which part of the property it breaks, exactly what is needed for it to manifest, and the commands you ran with their results.
Before finishing, verify for EACH mutant from a clean tree (git stash / git checkout -- . between them): (a) with the diff applied the existing suite passes, (b) with the diff applied the demo test fails, (c) without the diff the demo test passes. Finish with `git checkout -- . ` so the worktree sources are unmodified (untracked deliverable files stay). Your final message should summarise both mutants in a few lines each.""")
