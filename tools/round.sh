#!/bin/bash
# usage: round.sh <dir-of-worktrees> <cNN> : confirm and try both mutants of a property worktree
base=$1; p=$2; P=${p^^}
for v in a b; do
  [ -f $base/$p/mutant_$v.diff ] || { echo "$p-$v: no diff"; continue; }
  c=$(/verif/tools/confirm_mutant.sh $base/$p $base/$p/mutant_$v.diff $base/$p/demo_${v}_test.go 2>&1 | tail -1)
  t=$(/verif/tools/try_mutant.sh $base/$p $base/$p/mutant_$v.diff $P)
  echo "$p-$v | $c | $t"
done
