#!/usr/bin/env python3
"""mkmutantprompts.py <dir> : creates one scratch worktree of /repo per property under <dir> and writes the prompt each
mutant-writing sub-agent gets (<dir>/agent_cNN.txt).  The prompt holds the property's text and, from the second round on,
the sites and mechanisms of the changes earlier rounds produced for that property (so that new ones differ) - nothing
about the checks."""
import json, os, re, glob, subprocess, sys
base = sys.argv[1]
os.makedirs(base, exist_ok=True)
props = {json.loads(l)['id']: json.loads(l) for l in open('/verif/properties.jsonl')}
tmpl = open('/verif/tools/mutant_prompt_template.py').read()
body = tmpl[tmpl.index('print(f"""') + len('print(f"""'):tmpl.rindex('""")')]
for pid, p in props.items():
    low = pid.lower()
    wt = '%s/%s' % (base, low)
    subprocess.run(['git', '-C', '/repo', 'worktree', 'add', '--detach', wt, 'main'], capture_output=True)
    prop = "Title: %s\n\nStatement: %s\n\nQuantified over: %s" % (p['title'], p['statement'], p['quantifier']['text'])
    prev = []
    for m in sorted(glob.glob('/verif/seeded/%s-*/meta.json' % pid)):
        j = json.load(open(m))
        diff = open(os.path.dirname(m) + '/patch.diff').read()
        files = sorted(set(re.findall(r'^\+\+\+ b/(\S+)', diff, re.M)))
        funcs = sorted(set(x.strip() for x in re.findall(r'^@@.*@@ (.*)$', diff, re.M)))
        prev.append("- %s; site: %s (%s)" % (j['needs_to_manifest'], ", ".join(files), "; ".join(funcs)[:160]))
    text = body.replace('{pid}', low).replace('{prop}', prop).replace('/tmp/wt/', base.rstrip('/') + '/')
    text = text.replace('(git stash / git checkout -- . between them)', '(use `git diff > file`, `git checkout -- .`, `git apply file` between them; do NOT use `git stash`: the stash is shared between worktrees)')
    text = text.replace("Do NOT modify larking/verif_hooks.go", "Changes of this kind that were ALREADY produced for this property in earlier rounds - choose DIFFERENT code sites and different mechanisms, do not repeat or vary these. Read the property's statement and quantifier clause by clause and look for a clause, a protocol, an option combination, an input shape, an order of operations or a failure mode that NONE of them touches:\n" + "\n".join(prev) + "\n\nNote: git commands inside the worktree are fine (it is a linked worktree; `git diff`, `git checkout -- .`, `git apply` only touch your worktree), except `git stash`, which is shared. Do NOT modify larking/verif_hooks.go")
    open('%s/agent_%s.txt' % (base, low), 'w').write(text)
print(len(glob.glob(base + '/agent_*.txt')), 'prompts')
