#!/bin/bash
# usage: selftest_mutants.sh [lane N of M]  — re-applies every kept mutant to a scratch worktree of /repo's HEAD and runs the
# property's quick check against it; prints one line per mutant: detected / MISSED / does-not-apply
lane=${1:-0}; lanes=${2:-1}
wt=/tmp/selftest_wt_$lane
git -C /repo worktree remove --force $wt 2>/dev/null; git -C /repo worktree add --detach $wt HEAD >/dev/null 2>&1 || exit 3
i=0
for d in /verif/seeded/*/; do
  id=$(basename $d); prop=${id%%-*}
  i=$((i+1)); [ $((i % lanes)) -ne $lane ] && continue
  (cd $wt && git checkout -q -- . && git clean -qfd larking)
  if ! (cd $wt && git apply --check $d/patch.diff 2>/dev/null); then echo "$id does-not-apply (the code it patched has since been changed by a fix)"; continue; fi
  (cd $wt && git apply $d/patch.diff)
  out=$(cd /verif && VERIF_REPO=$wt VERIF_EVIDENCE_DIR=/tmp/selftest_ev_$lane ./check $prop --tier quick 2>&1); rc=$?
  n=$(echo "$out" | grep -c '^VIOLATION')
  if [ $rc -eq 1 ] && [ $n -gt 0 ]; then echo "$id detected ($n VIOLATION lines)"; elif [ $rc -eq 0 ]; then echo "$id MISSED"; else echo "$id infrastructure rc=$rc: $(echo "$out" | tail -1 | cut -c1-160)"; fi
done
(cd $wt && git checkout -q -- .); git -C /repo worktree remove --force $wt
