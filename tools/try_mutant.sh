#!/bin/bash
# usage: try_mutant.sh <worktree> <diff> <property> [tier]  -- runs a check against a scratch worktree with a patch applied
wt=$1; diff=$2; prop=$3; tier=${4:-quick}
cd "$wt" || exit 3
git checkout -q -- . && rm -f larking/zz_demo*_test.go
git apply "$diff" || { echo "patch does not apply"; exit 3; }
cd /verif && VERIF_REPO="$wt" ./check "$prop" --tier "$tier" > "$(dirname $wt)/result_$(basename $wt)_$(basename $diff .diff)_$prop.txt" 2>&1
rc=$?
cd "$wt" && git checkout -q -- .
echo "$(basename $wt) $(basename $diff) $prop rc=$rc $(grep -c '^VIOLATION' $(dirname $wt)/result_$(basename $wt)_$(basename $diff .diff)_$prop.txt) violations"
