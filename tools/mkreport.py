#!/usr/bin/env python3
"""Regenerates the generated tables of DESIGN.md (between <!-- gen:X --> and <!-- /gen:X --> markers)
from known_findings.json and seeded/*/meta.json."""
import json, os, re, glob
V = os.path.dirname(os.path.dirname(os.path.abspath(__file__)))

def findings():
    d = json.load(open(os.path.join(V, "known_findings.json")))
    rows = ["| id | property | status | commit | what failed |", "|----|----------|--------|--------|-------------|"]
    for f in d["findings"]:
        rows.append("| %s | %s | %s | %s | %s |" % (f["id"], f["property"], f["status"], f.get("commit", "-"), f["what"].replace("|", "\\|")))
    return "\n".join(rows)

def seeded():
    rows = ["| mutant | property | needs to manifest | result of the property's check |", "|--------|----------|-------------------|----------------------------------|"]
    for m in sorted(glob.glob(os.path.join(V, "seeded", "*", "meta.json"))):
        j = json.load(open(m))
        rows.append("| %s | %s | %s | %s |" % (j["id"], j["breaks_property"], j["needs_to_manifest"].replace("|", "\\|"), j["result"].replace("|", "\\|")))
    return "\n".join(rows)

def main():
    p = os.path.join(V, "DESIGN.md")
    s = open(p).read()
    for name, fn in (("findings", findings), ("seeded", seeded)):
        pat = re.compile(r"(<!-- gen:%s -->\n).*?(<!-- /gen:%s -->)" % (name, name), re.S)
        if not pat.search(s):
            raise SystemExit("marker gen:%s missing" % name)
        s = pat.sub(lambda m: m.group(1) + fn() + "\n" + m.group(2), s)
    open(p, "w").write(s)
    print("DESIGN.md tables regenerated")

if __name__ == "__main__":
    main()
