#!/usr/bin/env python3
"""Regenerates the generated tables of DESIGN.md (between <!-- gen:X --> and <!-- /gen:X --> markers)
from known_findings.json and seeded/*/meta.json."""
import json, os, re, glob
V = os.path.dirname(os.path.dirname(os.path.abspath(__file__)))

def findings():
    d = json.load(open(os.path.join(V, "known_findings.json")))
    rows = ["| id | property | status | commit | what failed |", "|----|----------|--------|--------|-------------|"]
    for f in d["findings"]:
        rows.append("| %s | %s | %s | %s | %s |" % (f["id"], f["property"], f["status"], f.get("commit", "-"), f["what"].replace("|", "\\|")))
    return "\n".join(rows)

def seeded():
    rows = ["| mutant | property | needs to manifest | result of the property's check |", "|--------|----------|-------------------|----------------------------------|"]
    for m in sorted(glob.glob(os.path.join(V, "seeded", "*", "meta.json"))):
        j = json.load(open(m))
        rows.append("| %s | %s | %s | %s |" % (j["id"], j["breaks_property"], j["needs_to_manifest"].replace("|", "\\|"), j["result"].replace("|", "\\|")))
    return "\n".join(rows)

def seeded_summary():
    ms = [json.load(open(m)) for m in sorted(glob.glob(os.path.join(V, "seeded", "*", "meta.json")))]
    missed = [j["id"] for j in ms if "missed first" in j["result"] or "missed at first" in j["result"] or "missed by" in j["result"] or "after adding" in j["result"]
              or "not detected by" in j["result"] or "NOT detected" in j["result"]]
    undetected = [j["id"] for j in ms if "NOT detected" in j["result"]]
    cross = [j["id"] for j in ms if "not detected by" in j["result"]]
    r1 = [j for j in ms if j["id"][-1] in "ab"]
    r2 = [j for j in ms if j["id"][-1] in "cd"]
    r3 = [j for j in ms if j["id"][-1] in "ef"]
    r4 = [j for j in ms if j["id"][-1] in "gh"]
    r5 = [j for j in ms if j["id"][-1] in "ij"]
    r6 = [j for j in ms if j["id"][-1] in "klmn"]
    def nm(r):
        return len([j for j in r if j["id"] in missed])
    return ("%d kept mutants: %d from the first round (ids -a/-b, %d missed at first), %d from the second (ids -c/-d, %d missed at first; "
            "their authors were told which sites the first round had used), %d from the third (ids -e/-f, %d missed at first; told the sites "
            "of both earlier rounds), %d from the fourth (ids -g/-h, %d missed at first), %d from the fifth (ids -i/-j, %d missed at first), %d from the sixth (ids -k/-l for ten properties, -m/-n for the other ten; %d missed at first). "
            "Not detected by any current check: %s. Detected only by the check of another property than the one the change was written against: %s. "
            "All others are detected by the current check of their property. Missed by the check as it stood when the mutant arrived: %s."
            % (len(ms), len(r1), nm(r1), len(r2), nm(r2), len(r3), nm(r3), len(r4), nm(r4), len(r5), nm(r5), len(r6), nm(r6), ", ".join(undetected) or "none", ", ".join(cross) or "none", ", ".join(missed)))

def main():
    p = os.path.join(V, "DESIGN.md")
    s = open(p).read()
    for name, fn in (("findings", findings), ("seeded", seeded), ("seededsummary", seeded_summary)):
        pat = re.compile(r"(<!-- gen:%s -->\n).*?(<!-- /gen:%s -->)" % (name, name), re.S)
        if not pat.search(s):
            raise SystemExit("marker gen:%s missing" % name)
        s = pat.sub(lambda m: m.group(1) + fn() + "\n" + m.group(2), s)
    open(p, "w").write(s)
    print("DESIGN.md tables regenerated")

if __name__ == "__main__":
    main()
