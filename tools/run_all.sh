#!/bin/bash
# usage: run_all.sh [tier] — runs every claimed check on /repo, prints exit codes (VERIF_SEED honoured)
tier=${1:-quick}
cd /verif
for p in $(python3 -c "import json; print(' '.join(c['property_id'] for c in json.load(open('MANIFEST.json'))['checks']))"); do
  s=$(date +%s)
  out=$(./check $p --tier $tier 2>&1); rc=$?
  echo "$p rc=$rc $(( $(date +%s) - s ))s $(echo "$out" | grep -c '^VIOLATION') violations $(echo "$out" | grep -c '^KNOWN-FINDING') known | $(echo "$out" | tail -1 | cut -c1-200)"
  if [ $rc -ne 0 ]; then echo "$out" | grep -E '^VIOLATION|Infra|Error' | head -5 | cut -c1-400; fi
done
