#!/bin/bash
# usage: confirm_mutant.sh <worktree> <diff> <demo_test.go>
# confirms: (a) suite passes with diff, (b) demo fails with diff, (c) demo passes without diff
export GOFLAGS=-mod=mod GOPROXY=off GOSUMDB=off GOTOOLCHAIN=local
wt=$1; diff=$2; demo=$3
cd "$wt" || exit 3
git checkout -q -- . ; rm -f larking/zz_demo*_test.go larking/zz_*_test.go
name=$(grep -o 'func Test[A-Za-z0-9_]*' "$demo" | head -1 | sed 's/func //')
cp "$demo" larking/zz_demo_confirm_test.go
go test -vet=off -count=1 -run "^${name}\$" ./larking/ > $wt/confirm_c.txt 2>&1; c=$?
rm larking/zz_demo_confirm_test.go
git apply "$diff" || { echo "patch does not apply"; exit 3; }
go build -tags verif ./larking/ || { echo "does not build with hooks"; }
go test -vet=off -count=1 ./larking/ > $wt/confirm_a.txt 2>&1; a=$?
cp "$demo" larking/zz_demo_confirm_test.go
go test -vet=off -count=1 -run "^${name}\$" ./larking/ > $wt/confirm_b.txt 2>&1; b=$?
rm larking/zz_demo_confirm_test.go
git checkout -q -- .
echo "suite_with_diff=$a (want 0) demo_with_diff=$b (want !=0) demo_without_diff=$c (want 0) test=$name"
[ $a -eq 0 ] && [ $b -ne 0 ] && [ $c -eq 0 ]
