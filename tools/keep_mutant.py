#!/usr/bin/env python3
"""keep_mutant.py <id> <property> <worktree> <variant a|b> <needs> <detected_by> <result>  -> /verif/seeded/<id>/"""
import sys, os, shutil, json, subprocess
mid, prop, wt, var, needs, detected, result = sys.argv[1:8]
d = os.path.join('/verif/seeded', mid)
os.makedirs(d, exist_ok=True)
shutil.copy(os.path.join(wt, 'mutant_%s.diff' % var), os.path.join(d, 'patch.diff'))
shutil.copy(os.path.join(wt, 'demo_%s_test.go' % var), os.path.join(d, 'demo_test.go.txt'))
base = subprocess.run(['git', '-C', wt, 'rev-parse', '--short', 'HEAD'], capture_output=True, text=True).stdout.strip()
notes = open(os.path.join(wt, 'NOTES.md')).read() if os.path.exists(os.path.join(wt, 'NOTES.md')) else ''
json.dump(dict(id=mid, breaks_property=prop, base_commit=base, needs_to_manifest=needs,
               confirmed=dict(suite_passes_with_patch=True, demo_fails_with_patch=True, demo_passes_without_patch=True,
                              how="tools/confirm_mutant.sh in a scratch worktree"),
               checks_run=detected, result=result,
               demo="demo_test.go.txt (copy to larking/zz_demo_test.go to run)"),
          open(os.path.join(d, 'meta.json'), 'w'), indent=1)
open(os.path.join(d, 'NOTES.md'), 'w').write(notes)
print('kept', d)
