#!/usr/bin/env python3
"""Regenerates MANIFEST.json from the table below (single source of truth for the interface)."""
import json, os, subprocess
V = os.path.dirname(os.path.dirname(os.path.abspath(__file__)))

TB = ("TLC 1.8.0 and the CommunityModules Json/IOUtils modules; the Go toolchain, net/http(+httptest), grpc-go, protobuf-go "
      "(dynamicpb/protodesc) as used by the harness; spec/*.tla as the statement of the property")

CHECKS = {
 "C01": dict(engine="Router", level="model_checking", design="3.1, 6/C01",
   technique="TLA+ spec (Template.tla/Router.tla) model-checked with TLC; TLC-generated rule sets and requests replayed through the real Mux; recorded trace validated by TLC against RouterTrace.tla (formula Sound)",
   text="TLC exhaustively checks that the trie/DFS design refines the declarative matching semantics for every rule sequence in scope (4 negative configs must fail), and every TLC-generated rule set x derived request (instantiations + single-edit near misses, all registration orders) is executed on the real Mux and judged by TLC: a dispatch must be covered by a rule of that method under the lenient reading with exactly the covered text captured and no other field set.",
   note="Bounded: <=2 rules over 1-element templates exhaustively, <=3 rules over 2-element templates by TLC -simulate (thorough: 2-element design space exhaustively). Percent-encoding, nested variables, '**' not last are outside the obligations. " + TB),
 "C02": dict(engine="Router", level="model_checking", design="3.1, 6/C02",
   technique="same TLA+ Router spec and pipeline as C01; trace formulas Complete, LiteralFirst, OrderIndep (K registration orders per rule set, self-composition)",
   text="Same pipeline as C01; judged formulas: a strictly matching rule with convertible captures must lead to a dispatch, a literal spelling beats a wildcard/variable at the first differing segment, and all registration orders (services, methods, bindings; annotation or service config) give the same outcome.",
   note="Strict reading demands (documented characters, <=10 segments, convertible captures); precedence among wildcards unspecified. " + TB),
 "C16": dict(engine="Grammar", level="model_checking", design="3.1, 6/C16",
   technique="TLA+ grammar spec (Grammar.tla: declarative derivability + recursive-descent lexer model) checked by TLC; TLC-enumerated lexeme sequences, grammar-derived templates with all single-edit mutants and rule-level cases registered on real muxes; trace validated by TLC against RegTrace.tla and RouterTrace.tla",
   text="TLC checks for every lexeme sequence up to a length bound that the lexer design accepts exactly the documented grammar; every generated template / mutant / rule case / name shape is registered on a fresh real Mux (empty or with a base service) under recover(), and TLC classifies each from the grammar (must-accept / must-reject / unspecified) and judges the observed outcome: valid accepted and then routed, invalid rejected with an error, no panic, base routes behave identically before and after.",
   note="Unspecified (accept or reject, never crash): nested variables, '**' not last, digit-first words, message-typed variables, duplicate fields, '*'-kind overlaps and re-declared implicit paths. " + TB),
 "C19": dict(engine="Selector", level="model_checking", design="3.2, 6/C19",
   technique="TLA+ Selector spec (Covers vs selector-trie mechanism) checked by TLC; TLC-enumerated selector sets x target methods on real muxes validated against SelectorTrace.tla; config-vs-annotation equivalence as a RouterTrace formula over the Router pipeline; healthz state machine validated against the real grpc health server",
   text="TLC checks the selector trie design against Covers for all selector sets/names in scope (negative config must fail); every TLC-generated selector set is installed with ServiceConfigOption on real muxes for six target methods (sibling names, nested packages) and TLC judges bound <=> Covers; the same rule declared by config and by annotation must answer every derived request identically; /v1/healthz must report exactly the statuses set on the health server for seeded Set/Check sequences.",
   note="Selector sets <=2 (quick) / <=3 (thorough); malformed selectors unspecified; WebSocket Watch not covered. " + TB),
 "C17": dict(engine="Framing", level="model_checking", design="3.5, 6/C17",
   technique="TLA+ Framing spec (property-level Expected per ReadNext call vs read-loop mechanism at one step per r.Read) checked by TLC over every chunk schedule; TLC-generated streams read back through the real stream codecs under every composition of the wire into reads; every call validated by TLC against FramingTrace.tla",
   text="TLC explores every reader schedule (chunk sizes, (n, io.EOF) vs separate EOF, over-reads carried to the next call, every truncation) for all frame sequences in scope and checks the read loops return exactly the schedule-independent expectation (4 negative configs must fail); the same streams are then written with the real WriteNext and read with the real ReadNext of CodecProto, CodecJSON and the HttpBody chunker from a scripted reader for every composition of short wires (sampled for long ones), and TLC judges each call: result class, message bytes, exact remainder, limit, no crash.",
   note="Streams of <=3 frames over sizes 0..4 exhaustively plus boundary streams (127/128, limit-1/limit/limit+1, 1..10-byte prefixes to 2^64-1); the scripted reader is trusted. " + TB),
}

NOT_YET = {}
NA = {}

def main():
    props = [json.loads(l)["id"] for l in open(os.path.join(V, "properties.jsonl"))]
    checks = []
    for pid in props:
        c = CHECKS.get(pid)
        if not c:
            continue
        checks.append(dict(
            property_id=pid,
            quick_cmd="./check %s --tier quick" % pid,
            thorough_cmd="./check %s --tier thorough" % pid,
            evidence_file="evidence/%s.json" % pid,
            replay_cmd_template="./check %s --replay {path}" % pid,
            engine=c["engine"],
            level_claimed=dict(category=c["level"], text=c["text"], design_ref="DESIGN.md section " + c["design"]),
            level_note=c["note"], technique=c["technique"]))
    na = []
    for pid in props:
        if pid in CHECKS:
            continue
        na.append(dict(property_id=pid, reason=NA.get(pid, "check not built yet (work in progress); the TLA+ technique applies, see DESIGN.md")))
    commits = subprocess.run(["git", "-C", "/repo", "log", "--format=%h %s"], capture_output=True, text=True).stdout.splitlines()
    hooks = [l.split()[0] for l in commits if l.split(" ", 1)[1].startswith("verif:")]
    engines = {}
    for pid, c in CHECKS.items():
        engines.setdefault(c["engine"], []).append(pid)
    m = dict(version=1, setup_cmd="./check setup",
             hooks=dict(guard="verif", enable="harness is built with `go build -tags verif` against /repo (replace larking.io => /repo)",
                        baseline_off_cmd="cd /repo && go test -mod=mod -vet=off -count=1 -timeout 25m ./...",
                        source_commits=hooks, add_only=True),
             engines=[dict(name=k, path="spec/%s.tla" % k, serves_properties=sorted(v),
                           kind_free_text="TLA+ specification + TLC (design check, case generation, trace validation) bound to the code by harness/ (Go)") for k, v in sorted(engines.items())],
             checks=checks,
             notes="All checks: ./check <id> --tier quick|thorough. Exit 2 = infrastructure error, never a verdict. Known findings: known_findings.json.",
             not_applicable=na)
    json.dump(m, open(os.path.join(V, "MANIFEST.json"), "w"), indent=1)
    print("MANIFEST: %d checks, %d not claimed" % (len(checks), len(na)))

if __name__ == "__main__":
    main()
