#!/usr/bin/env python3
"""Regenerates MANIFEST.json from the table below (single source of truth for the interface)."""
import json, os, subprocess
V = os.path.dirname(os.path.dirname(os.path.abspath(__file__)))

TB = ("TLC 1.8.0 and the CommunityModules Json/IOUtils modules; the Go toolchain, net/http(+httptest), grpc-go, protobuf-go "
      "(dynamicpb/protodesc) as used by the harness; spec/*.tla as the statement of the property")

RPCNOTE = "Direct drive through Mux.ServeHTTP (httptest); HTTP/2 framing for gRPC emulated with ProtoMajor=2 and recorder trailers; the WebSocket transport (C05, C06, C08) runs on a real loopback server with a raw RFC 6455 client; every gRPC case a real client can send is mirrored through larking.NewServer with a grpc-go client (proto grpcsock) and judged by the same formulas; real grpc-go clients are also used by the socket drivers (C10, C11, C12, C15, C20). A third of the non-gRPC requests are marked HTTP/2. " + TB

CHECKS = {
 "C01": dict(engine="Router", level="model_checking", design="3.1, 6/C01",
   technique="TLA+ spec (Template.tla/Router.tla) model-checked with TLC; TLC-generated rule sets and requests replayed through the real Mux; recorded trace validated by TLC against RouterTrace.tla (formula Sound)",
   text="TLC exhaustively checks that the trie/DFS design refines the declarative matching semantics for every rule sequence in scope (4 negative configs must fail), and every TLC-generated rule set x derived request (instantiations + single-edit near misses, all registration orders) is executed on the real Mux and judged by TLC: a dispatch must be covered by a rule of that method under the lenient reading with exactly the covered text captured and no other field set.",
   note="Bounded: <=2 rules over 1-element templates exhaustively, <=3 rules over 2-element templates by TLC -simulate (thorough: 2-element design space exhaustively). Percent-encoding, nested variables, '**' not last are outside the obligations. " + TB),
 "C02": dict(engine="Router", level="model_checking", design="3.1, 6/C02",
   technique="same TLA+ Router spec and pipeline as C01; trace formulas Complete, LiteralFirst, OrderIndep (K registration orders per rule set, self-composition)",
   text="Same pipeline as C01; judged formulas: a strictly matching rule with convertible captures must lead to a dispatch, a literal spelling beats a wildcard/variable at the first differing segment, and all registration orders (services, methods, bindings; annotation or service config) give the same outcome.",
   note="Strict reading demands (documented characters, <=10 segments, convertible captures); precedence among wildcards unspecified. " + TB),
 "C16": dict(engine="Grammar", level="model_checking", design="3.1, 6/C16",
   technique="TLA+ grammar spec (Grammar.tla: declarative derivability + recursive-descent lexer model) checked by TLC; TLC-enumerated lexeme sequences, grammar-derived templates with all single-edit mutants and rule-level cases registered on real muxes; trace validated by TLC against RegTrace.tla and RouterTrace.tla",
   text="TLC checks for every lexeme sequence up to a length bound that the lexer design accepts exactly the documented grammar; every generated template / mutant / rule case / name shape is registered on a fresh real Mux (empty or with a base service) under recover(), and TLC classifies each from the grammar (must-accept / must-reject / unspecified) and judges the observed outcome: valid accepted and then routed, invalid rejected with an error, no panic, base routes behave identically before and after. Field paths through map and repeated fields (mp.value, mp.key, rn.s, r.x) are tried as template variable, body and response_body.",
   note="Unspecified (accept or reject, never crash): nested variables, '**' not last, digit-first words, message-typed variables, duplicate fields, '*'-kind overlaps and re-declared implicit paths. " + TB),
 "C19": dict(engine="Selector", level="model_checking", design="3.2, 6/C19",
   technique="TLA+ Selector spec (Covers vs selector-trie mechanism) checked by TLC; TLC-enumerated selector sets x target methods on real muxes validated against SelectorTrace.tla; config-vs-annotation equivalence as a RouterTrace formula over the Router pipeline; healthz state machine validated against the real grpc health server",
   text="TLC checks the selector trie design against Covers for all selector sets/names in scope (negative config must fail); every TLC-generated selector set is installed with ServiceConfigOption on real muxes for six target methods (sibling names, nested packages) and TLC judges bound <=> Covers; the same rule declared by config and by annotation must answer every derived request identically; /v1/healthz must report exactly the statuses set on the health server for seeded Set/Check sequences. Every other selector is configured twice with different patterns (each rule judged on its own); healthz is also watched over WebSocket sessions (first frame = current status of the service named in the query).",
   note="Selector sets <=2 (quick) / <=3 (thorough); malformed selectors unspecified; every other selector is configured twice with different patterns; healthz is checked by GET and by Watch over WebSocket sessions. " + TB),
 "C17": dict(engine="Framing", level="model_checking", design="3.5, 6/C17",
   technique="TLA+ Framing spec (property-level Expected per ReadNext call vs read-loop mechanism at one step per r.Read) checked by TLC over every chunk schedule; TLC-generated streams read back through the real stream codecs under every composition of the wire into reads; every call validated by TLC against FramingTrace.tla",
   text="TLC explores every reader schedule (chunk sizes, (n, io.EOF) vs separate EOF, over-reads carried to the next call, every truncation) for all frame sequences in scope and checks the read loops return exactly the schedule-independent expectation (4 negative configs must fail); the same streams are then written with the real WriteNext and read with the real ReadNext of CodecProto, CodecJSON and the HttpBody chunker from a scripted reader for every composition of short wires (sampled for long ones), and TLC judges each call: result class, message bytes, exact remainder, limit, no crash.",
   note="Streams of <=3 frames over sizes 0..4 exhaustively plus boundary streams (127/128, limit-1/limit/limit+1, 1..10-byte prefixes to 2^64-1); the scripted reader is trusted. " + TB),

 "C05": dict(engine="Rpc", level="model_checking", design="3.6, 6/C05",
   technique="TLA+ Rpc spec (per-RPC state machine, Apply/View) model-checked by TLC; status x message-shape x details x error-point product and TLC-generated handler scripts executed on every protocol through the real Mux; every recorded RPC validated by TLC against RpcTrace.tla (formula StatusFidelity, AlwaysResponds)",
   text="TLC checks the per-RPC state machine over all handler scripts in scope; each case (codes 0..18,100,2^31-1; messages over {plain,%,control,2-/3-byte rune,long}; 0-2 details; before/after replies; HTTP JSON/protobuf, Twirp, gRPC, gRPC-web binary and text, WebSocket close frames incl. reasons around the 123-byte capacity with the cut inside multi-byte characters) runs against the real Mux and TLC compares the client-visible status with Rpc!View: grpc-status / exactly decodable grpc-message / details, HTTP status table and google.rpc.Status body, Twirp names, WebSocket close code table and reason; a crash or missing response is a violation.",
   note=RPCNOTE),
 "C06": dict(engine="Rpc", level="model_checking", design="3.5-3.6, 6/C06",
   technique="TLA+ Rpc spec + Framing spec; message sequences x fragmenting read schedules x truncation points x transport x codec x compression executed through the real Mux; each RPC validated by TLC against RpcTrace.tla (RecvSeq, ReplySeq, SendResult)",
   text="For client-, server- and bidi-streaming calls on HTTP (JSON, varint-protobuf), gRPC, gRPC-web binary/text, with and without gzip: the handler must receive exactly the client's sequence (each message proto.Equal to what was sent) followed by a clean end, a body cut inside a message yields the complete messages then an error, and the client must receive exactly the handler's sequence; WebSocket sessions (server-ended and client-ended, where the handler must see a clean, latched end of stream) run on real sockets; HttpBody uploads of every length around multiples of the chunk size go through Recv() from readers ending with (0,EOF), (n,EOF), one byte at a time and gzip (PoolTrace: UploadComplete, ChunkLimit); request bodies are fed through a scripted reader with seeded chunk schedules incl. (n, io.EOF). The codec-level exhaustive schedule exploration is C17's.",
   note=RPCNOTE),
 "C08": dict(engine="Rpc", level="model_checking", design="3.6, 6/C08",
   technique="TLA+ Rpc spec with receive/send limits in Apply; limit x {L-1,L,L+1,50L} x codec x compression x protocol cases with exact wire sizes (and WebSocket JSON messages) executed on the real Mux, plus record-boundary payloads whose limit falls exactly between records; validated by TLC against RpcTrace.tla (NeverOverLimit, Invoked, RecvSeq/ReplySeq under limits)",
   text="Messages are built to exact wire sizes around each configured limit; TLC requires that no handler observes a message larger than maxReceiveMessageSize (after decompression), that over-limit requests fail with an error, and that nothing within the receive and send limits is refused, with maxSend != maxRecv in both directions. Varint prefixes up to 2^64-1 are C17's.",
   note="A gzip frame of a tiny message is larger than the message, so gzip cases use limits >= 200. Over-limit replies may be refused or delivered (the property only forbids refusing replies within the limit). " + RPCNOTE),
 "C14": dict(engine="Rpc", level="model_checking", design="3.6, 6/C14",
   technique="TLA+ Rpc spec (header phase, pending/flushed metadata, reserved-key filter); request/response metadata cases incl. -bin values, reserved names and header-phase orders executed on the real Mux; validated by TLC against RpcTrace.tla (MetadataIn, MetadataOutHeader/Trailer, HeaderPhase, ReservedUnforgeable)",
   text="Request headers (mixed case, multi-valued, -bin in padded and unpadded base64 over byte strings of every length mod 3) must reach the handler lower-cased, in order, byte-exact, with protocol keys absent; SetHeader/SendHeader/SetTrailer in every order relative to the first Send must reach the client on the protocols that carry them (headers: HTTP, gRPC, gRPC-web; trailers: gRPC, gRPC-web), late SetHeader must be refused, and reserved keys set by the handler must not change content-type, status, message or details. Every protocol-reserved key is set by the handler as header, trailer and both on every protocol, for successful and failing calls; the client-visible metadata is searched for the handler's value in every encoding (NotForged).",
   note=RPCNOTE),
 "C18": dict(engine="Rpc", level="model_checking", design="3.6, 6/C18",
   technique="TLA+ Rpc spec (stats event sequence in Apply); the same RPC executed under every subset of {unary interceptor, stream interceptor, stats handler} on the real Mux; recording interceptors / stats.Handler are the trace source; validated by TLC against RpcTrace.tla (InterceptOnce, StatsWellFormed) plus 2-safety comparison OptionsTransparent",
   text="Each RPC (every shape, HTTP/gRPC/gRPC-web, message sizes from zero bytes up, ok / error before / error after replies) is run under all 8 option subsets: the matching interceptor must be called exactly once with the full method name, streaming flags and the handler's error; stats events must match tag,in-header,begin,(payloads|out-header)*,out-trailer,end with one payload event per message and End carrying the handler's status; and the client-visible outcome must be identical across the subsets. Stats events, the interceptor and the handler are checked for the context TagRPC returned; stream interceptors pass a wrapping stream on and must see every message; the scripts of Proxy.tla are also run through a RegisterConn front with interceptors installed (InterceptProxied).",
   note="InPayload for a message without wire payload on HTTP is unspecified. " + RPCNOTE),

 "C03": dict(engine="Transcode", level="model_checking", design="3.4, 6/C03",
   technique="TLA+ Transcode spec (client split over path/query/body, server body-then-parameters application) model-checked by TLC; all 1,024 request shapes TLC enumerates are concretised with seeded fields/values of every kind and executed through the real Mux; validated by TLC against TranscodeTrace.tla (Reassembly, OthersIntact, RejectInvalid)",
   text="TLC checks for every admissible (rule body selector, path variables, presence pattern) that decoding the body and applying the parameters reproduces the message the client means; each shape is then sent for real with fields of every scalar kind, enum, bytes in all base64 alphabets/paddings, repeated, nested, oneof, wrappers, Timestamp/Duration/FieldMask, boundary and random values, JSON and protobuf bodies, gzip, both query-key spellings, unary and first-stream-message, and the handler-received message must equal the generated one; one invalid text per shape must be rejected. Also varied: empty texts (empty elements of repeated fields, oneof members, wrappers), how the body is delimited (Content-Length, HTTP/2 without length, chunked).",
   note="Structure is decided by the spec; value-level text conversion is judged by identity on the driver's generated message (DESIGN 8). Non-canonical texts are unspecified. " + TB),
 "C04": dict(engine="Transcode", level="model_checking", design="3.4, 6/C04",
   technique="TLA+ negotiation operators (Admitted, AllowedResponseTypes in Transcode.tla); Accept / Accept-Encoding / content-type / reply-kind / response_body cases executed through the real Mux with an independent decode by the response headers; validated by TLC against TranscodeTrace.tla (AcceptAdmits, ResponseDecodable, HttpBodyRaw, ResponseBodySelects, EncodingTruthful)",
   text="For Accept headers of up to three ranges over registered, wildcard and unregistered types with q in {1,0.5,0}, split over one or two header lines with junk, each request content type, message / empty / 100 kB / HttpBody replies and response_body selectors: the response Content-Type must be admitted by the Accept header when some registered type is (else the request's own), the body decoded with the codec named by that Content-Type must equal the (selected part of the) reply, HttpBody data must arrive raw under its own type, and Content-Encoding must describe the bytes. Every response case runs on a mux with a user-registered codec (application/x-verif) next to the built-in ones, and with the handler header phase varied (none / SetHeader / SendHeader).",
   note="Permissive Accept reading; response compression is never negotiated by this tree, so EncodingTruthful holds with identity only. " + TB),
 "C07": dict(engine="Transcode", level="model_checking", design="3.4, 6/C07",
   technique="same TLA+ Transcode spec; every shape with a competing value for a path-bound field in the query and/or the body (negative config ParamOrder=query-last must fail); validated by TLC against TranscodeTrace.tla (PathAuthoritative)",
   text="TLC proves on the model that path captures applied last make path-bound fields authoritative (the query-last variant violates it) and every competing shape is executed for real with fields of every kind, in every query order: the handler must see the path value. Competitors also name a sub-field of the path-bound field (wrapper .value, Timestamp/Duration .seconds), and the same competition runs over WebSocket sessions where the body is the first text frame.",
   note=TB),

 "C11": dict(engine="Registry", level="model_checking", design="3.3, 6/C11",
   technique="TLA+ Registry spec: fine-grained writer/reader model checked by TLC (3 negative configs), coarse operation model as history generator; every TLC-enumerated history replayed on a real Mux with tagged bufconn gRPC backends discovered by server reflection; validated by TLC against RegistryTrace.tla (DispatchLive, NoFalseUnimplemented, NoneIsUnimplemented, SafeOps, OpResult)",
   text="All histories of RegisterService / RegisterConn / re-register unchanged / DropConn / drop unknown / failing registration up to length 3 (and sampled length 4-5) over a local service and two connections serving the same and different services are executed; after every step each method is requested 24-40 times over its HTTP rule, its implicit path and gRPC framing, and TLC requires that only currently registered backends answer, that a method with a live backend is always served, that a method with none is Unimplemented/NotFound, and that every operation returns what the model says without crashing.",
   note="The random handler pick is sampled (24-40 requests per probe). " + TB),
 "C12": dict(engine="Registry", level="model_checking", design="3.3, 6/C12",
   technique="TLA+ Registry fine-grained model (lock, clone, per-method modify, fail, publish, unlock vs load, match, pick) exhaustively checked by TLC with negative configs (shallow clone, two loads, publish per method); deterministic snapshot-fingerprint monitor over all C11 histories (hook VerifSnapshot/VerifFingerprint); two-writer seeded stress under the race detector with interval trace validation by TLC against RegStressTrace.tla",
   text="TLC explores every interleaving of two writers and two readers (about 2M states) for PublishedImmutable, AtomicVisibility, NoTornAnswer, FailedRegNoChange; on the code, every history step re-fingerprints the snapshot captured before it (in-place mutation of a published trie or handler map shows on the first history that touches it) and failing registrations must leave the published fingerprint unchanged; two writer goroutines and eight readers then run concurrently with all start/end events numbered by one atomic counter and TLC requires each request's outcome to be allowed by one state published within its interval and already-registered methods to keep being served; the same executions run under -race and any report is a violation. The refusal kind per protocol (NotFound vs Unimplemented) is calibrated from the sequential histories of the same run, and half of the HTTP probes of the stress carry a 20,000-value query that widens the window between route match and handler pick: an answer no single state gives is a violation.",
   note="Data-race freedom is only monitored on the executed schedules (DESIGN 8). " + TB),
 "C20": dict(engine="Mount", level="model_checking", design="3.8, 6/C20",
   technique="TLA+ Mount spec (ServeMux longest-pattern selection, prefix strip) checked by TLC; every mount-pattern set TLC enumerates installed through NewServer and probed on transcoding, Twirp, gRPC and gRPC-web against the bare Mux; validated by TLC against MountTrace.tla (PrefixTransparent, OutsideNotServed, ExtraHandlersKept)",
   text="For all 72 configurations (pattern sets of size <=3 from {/, /x, /x/, /x/y, /twirp, /api/}, with and without extra handlers) and requests under every prefix, no prefix, look-alike and foreign prefixes: TLC decides which registered pattern owns the path and requires the response digest (status, headers, trailers, body) to equal the bare mux's response to the stripped path, ServeMux's own 404 outside every prefix, and the extra handlers' tags on their patterns.",
   note="Direct drive of NewServer(...).Handler (h2c wrapper included) with httptest; unclean paths are unspecified. " + TB),

 "C15": dict(engine="Deadline", level="model_checking", design="3.6, 6/C15",
   technique="TLA+ Deadline spec: timeout-string shape classes (WellFormed / Unspecified) and a cancellation state machine whose liveness property CancelReleases TLC checks under weak fairness; TLC-enumerated shapes concretised and sent through the real Mux; cancel / disconnect schedules against gated handlers over loopback sockets (grpc-go client, raw HTTP/1.1); validated by TLC against DeadlineTrace.tla (DeadlineSet, MalformedRefused, CancelReachesContext, CancelReleases)",
   text="Every timeout shape (0..10 value characters, digits or not, legal / missing / unknown / wrong-case unit, signed) is concretised with seeded and boundary values: a well-formed string must reach the handler with a deadline within 250 ms of receipt + value x unit (64-bit, clamped; computed by the driver in arbitrary precision), anything else must be refused without invoking the handler. For each streaming shape the handler is gated into a known position (busy, blocked in Recv, blocked in Send on a full flow-control window, returned) and the client cancels (grpc-go) or disconnects (plain HTTP, gRPC-web): the handler context must end and the blocked call return an error within 5 s. Cancel positions include a handler idling on its context after a reply (idleAfterSend); raw HTTP/1.1 clients also send complete bodies chunked with the terminating chunk arriving late (lateend), with the observability rule (what net/http can notice) stated in DeadlineTrace.tla.",
   note="Timing-dependent: a rejected schedule is a violation only if it reproduces twice; HTTP/1.1 disconnects with an unread request body are unobservable by net/http and excluded; signed values unspecified. " + TB),

 "C10": dict(engine="Proxy", level="model_checking", design="3.7, 6/C10",
   technique="TLA+ Proxy spec (client, front with in-pump goroutine and out-loop, scripted backend, FIFO channels with half-close) model-checked by TLC for every script incl. liveness/deadlock-freedom, negative configs (no half-close forwarding, first-message wait); every script executed by a real grpc-go client directly and through larking (RegisterConn); validated by TLC against ProxyTrace.tla (TranscriptEquivalence, BackendSaw, RequestMetadata)",
   text="TLC checks for all 108 scripts that the proxied composition terminates with the transcripts of the direct one; each script is then run for real on every method shape that carries it: the direct transcript must match the model's oracle (else infrastructure error) and the proxied client must see the same replies, status code, message and details, the backend the same messages, one invocation and the client's request metadata (incl. -bin), with hangs detected by a 4 s bound. Every script is also run from an HTTP/JSON client on the front (JudgeHTTP), lock-step bidi scripts model a client that waits for each answer with its send side open (mechanism switch JoinBeforeError as negative config), request metadata includes application keys with a grpc- prefix, failing scripts always include Canceled and DeadlineExceeded.",
   note="Two open known findings (F31, F32: first-message wait) are reported as KNOWN-FINDING lines. Response metadata is outside C10's statement. " + TB),
 "C09": dict(engine="Entry", level="model_checking", design="3.6, 6/C09",
   technique="TLA+ Entry spec (every guard of ServeHTTP / serveGRPCWeb / serveGRPC / serveHTTP as one action; every request answered exactly once, liveness under fairness, response shape a function of the request class) model-checked by TLC with a negative config (gRPC prefix tested before gRPC-web); all 8,160 abstract requests concretised and sent through the real Mux under option subsets and compared with Entry!Resp by TLC (RobustTrace.tla: EntryShape); generated adversarial neighbourhood and WebSocket sessions on real sockets judged by RobustTrace (NoCrash, NoHang, StatusLine, FramesWhole, WsFrames); crash formulas of RouterTrace/RpcTrace on Router_Gen rule sets and out-of-range codes",
   text="No panic, hang or malformed answer: for every abstract request class the recorded response (status, content-type class, grpc-status presence, whole frames, google.rpc.Status error body, whether the service ran) must be what the entry model gives; every generated hostile request (path prefixes/extensions x verbs, query keys through repeated/map fields, junk headers, truncated/huge/garbage bodies and frames, byte-level mutants) under each of 4 option subsets must return control under recover() within 10 s with an HTTP status; every WebSocket session (frame atoms incl. unmasked, fragmented, reserved opcodes, oversized lengths, cut frames) must end with the handler returned and only well-formed server frames.",
   note="Exploration of a model-derived neighbourhood, not arbitrary bytes (coverage-guided fuzzing is outside the fixed technique). " + TB),

 "C13": dict(engine="Pool", level="model_checking", design="3.9, 6/C13",
   technique="TLA+ Pool spec (pooled buffers: get/put/retain, NoAliasAfterPut, with negative configs no-copy-on-retain and double put) model-checked by TLC; a race-detector build of the harness runs a seeded concurrent mix of all protocols/shapes/codecs/compression with corrupt and over-limit traffic interleaved plus HttpBody uploads whose chunks handlers retain; every RPC validated by TLC against RpcTrace.tla (per-request view must equal the sequential model) and every retained buffer against PoolTrace.tla (RetainedStable, UploadComplete, ChunkLimit); race reports are violations",
   text="Each response and each handler-visible message is a function of its own request: the concurrent mix is judged RPC by RPC with the same formulas as the sequential checks (RecvSeq, ReplySeq, StatusFidelity, Metadata...), retained HttpBody chunks are re-digested after the pools have been cycled by the rest of the mix, and the Go race detector watches the whole run. The mix also serves handler-owned assets as HttpBody replies repeatedly (downloads) and re-digests them after the mix.",
   note="Data races are monitored on the executions the model drives, not proved absent. " + TB),
}

NOT_YET = {}
NA = {}

def main():
    props = [json.loads(l)["id"] for l in open(os.path.join(V, "properties.jsonl"))]
    checks = []
    for pid in props:
        c = CHECKS.get(pid)
        if not c:
            continue
        checks.append(dict(
            property_id=pid,
            quick_cmd="./check %s --tier quick" % pid,
            thorough_cmd="./check %s --tier thorough" % pid,
            evidence_file="evidence/%s.json" % pid,
            replay_cmd_template="./check %s --replay {path}" % pid,
            engine=c["engine"],
            level_claimed=dict(category=c["level"], text=c["text"], design_ref="DESIGN.md section " + c["design"]),
            level_note=c["note"], technique=c["technique"]))
    na = []
    for pid in props:
        if pid in CHECKS:
            continue
        na.append(dict(property_id=pid, reason=NA.get(pid, "check not built yet (work in progress); the TLA+ technique applies, see DESIGN.md")))
    commits = subprocess.run(["git", "-C", "/repo", "log", "--format=%h %s"], capture_output=True, text=True).stdout.splitlines()
    hooks = [l.split()[0] for l in commits if l.split(" ", 1)[1].startswith("verif:")]
    engines = {}
    for pid, c in CHECKS.items():
        engines.setdefault(c["engine"], []).append(pid)
    m = dict(version=1, setup_cmd="./check setup",
             hooks=dict(guard="verif", enable="harness is built with `go build -tags verif` against /repo (replace larking.io => /repo)",
                        baseline_off_cmd="cd /repo && go test -mod=mod -vet=off -count=1 -timeout 25m ./...",
                        source_commits=hooks, add_only=True),
             engines=[dict(name=k, path="spec/%s.tla" % k, serves_properties=sorted(v),
                           kind_free_text="TLA+ specification + TLC (design check, case generation, trace validation) bound to the code by harness/ (Go)") for k, v in sorted(engines.items())],
             checks=checks,
             notes="All checks: ./check <id> --tier quick|thorough. Exit 2 = infrastructure error, never a verdict. Known findings: known_findings.json.",
             not_applicable=na)
    json.dump(m, open(os.path.join(V, "MANIFEST.json"), "w"), indent=1)
    print("MANIFEST: %d checks, %d not claimed" % (len(checks), len(na)))

if __name__ == "__main__":
    main()
