SPECIFICATION HSpec
CONSTANTS MaxLen = 3
INVARIANTS Emit DroppedNotLive
CHECK_DEADLOCK FALSE
