SPECIFICATION Spec
CONSTANTS
  Scripts <- NonZero
  Direct = FALSE
  ForwardHalfClose = TRUE
  JoinBeforeError = FALSE
  NeedFirstMessage = TRUE
  InterruptibleRecv = FALSE
  FirstSendEOFFatal = TRUE
INVARIANTS TranscriptEquivalence BackendSawPrefix BackendSawAll
PROPERTY Finishes
