-------------------------------- MODULE Pool --------------------------------
(***************************************************************************)
(* Discipline of the shared buffer pools (C13): bytesPool, bufPool and the *)
(* gzip reader/writer pools.  A request gets a buffer, writes it, may copy *)
(* data out for the handler, and puts it back; a handler may retain what   *)
(* it was given past the request.  Negative switches model the slips that  *)
(* break isolation: handing pooled memory to the handler without a copy,   *)
(* putting a buffer back twice.                                            *)
(***************************************************************************)
EXTENDS Integers, Sequences, FiniteSets, TLC
CONSTANTS Reqs, Bufs,
          CopyOut,      \* TRUE: data handed to the handler is copied out of the pooled buffer
          PutOnce       \* TRUE: a buffer goes back to the pool exactly once
VARIABLES free,        \* buffers in the pool (a bag: function Bufs -> count, to express a double put)
          owner,       \* Bufs -> request holding it, or "none"
          content,     \* Bufs -> request whose bytes it holds, or "none"
          retained,    \* Reqs -> [buf, tag]: what the handler of the request kept (buf = "copy" when copied out)
          pc           \* Reqs -> "idle" | "holding" | "done"
pvars == <<free, owner, content, retained, pc>>
None == "none"
Init == /\ free = [b \in Bufs |-> 1] /\ owner = [b \in Bufs |-> None] /\ content = [b \in Bufs |-> None]
        /\ retained = [r \in Reqs |-> [buf |-> None, tag |-> None]] /\ pc = [r \in Reqs |-> "idle"]
Get(r, b) == /\ pc[r] = "idle" /\ free[b] > 0
             /\ free' = [free EXCEPT ![b] = @ - 1] /\ owner' = [owner EXCEPT ![b] = r]
             /\ content' = [content EXCEPT ![b] = r]          \* the request's bytes are read into it
             /\ pc' = [pc EXCEPT ![r] = "holding"] /\ UNCHANGED retained
Deliver(r, b) == /\ pc[r] = "holding" /\ owner[b] = r /\ retained[r].buf = None
                 /\ retained' = [retained EXCEPT ![r] = [buf |-> IF CopyOut THEN "copy" ELSE b, tag |-> r]]
                 /\ UNCHANGED <<free, owner, content, pc>>
Put(r, b) == /\ pc[r] = "holding" /\ owner[b] = r
             /\ free' = [free EXCEPT ![b] = @ + (IF PutOnce THEN 1 ELSE 2)]
             /\ owner' = [owner EXCEPT ![b] = None] /\ pc' = [pc EXCEPT ![r] = "done"]
             /\ UNCHANGED <<content, retained>>
Next == \E r \in Reqs, b \in Bufs : Get(r, b) \/ Deliver(r, b) \/ Put(r, b)
Spec == Init /\ [][Next]_pvars
\* a buffer is never in two hands, nor in a hand and in the pool
SingleOwner == \A b \in Bufs : free[b] <= 1 /\ (owner[b] # None => free[b] = 0)
\* what a handler retained still holds its own request's bytes
RetainedStable == \A r \in Reqs : retained[r].buf \in Bufs => content[retained[r].buf] = r
=============================================================================
