SPECIFICATION Spec
CONSTANTS
  Scripts <- ZeroMsg
  Direct = FALSE
  ForwardHalfClose = TRUE
  NeedFirstMessage = TRUE
INVARIANTS TranscriptEquivalence BackendSawPrefix BackendSawAll NoPumpOutlivesHandler
PROPERTY Finishes
