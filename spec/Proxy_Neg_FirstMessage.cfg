SPECIFICATION Spec
CONSTANTS
  Scripts <- ZeroMsg
  Direct = FALSE
  ForwardHalfClose = TRUE
  JoinBeforeError = FALSE
  NeedFirstMessage = TRUE
INVARIANTS TranscriptEquivalence BackendSawPrefix BackendSawAll NoPumpOutlivesHandler
PROPERTY Finishes
