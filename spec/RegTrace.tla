------------------------------ MODULE RegTrace ------------------------------
(***************************************************************************)
(* Trace validation for registration (C16).  Events, one per registration  *)
(* attempt on a fresh real Mux (empty, or pre-loaded with a base service): *)
(*   Reg     - a template given as a lexeme sequence (Grammar.tla)          *)
(*   RegRule - a rule-level case: body / response_body selector, nested     *)
(*             additional bindings, conflicts with existing bindings        *)
(*   RegName - service / method / package name shapes (implicit binding)    *)
(* Each carries the observed outcome (accept | reject | panic) and digests  *)
(* of the base routes' behaviour before and after the attempt.              *)
(***************************************************************************)
EXTENDS Grammar, Json, IOUtils

Trace == ndJsonDeserialize(IOEnv.TRACE)
VARIABLES l, failed, stat
tvars == <<l, failed, stat>>

Stat0 == [regs |-> 0, mustAccept |-> 0, mustReject |-> 0, unspecified |-> 0, accepted |-> 0,
          rejected |-> 0, panics |-> 0, ontoBase |-> 0, rules |-> 0, names |-> 0]
TInit == l = 1 /\ failed = {} /\ stat = Stat0
IsEv(e) == l <= Len(Trace) /\ Trace[l].ev = e

\* rule-level classification
BodyClass(b) == CASE b \in {"", "*", "b", "n"} -> "accept"      \* none, whole message, message fields
                  \* unknown field, path through a scalar, through a map (its entry is not a message of the API)
                  \* or through a repeated field
                  [] b \in {"zz", "s.x", "b.zz", "mp.value", "mp.key", "rn.s", "r.x"} -> "reject"
                  [] OTHER -> "unspecified"                       \* scalar / repeated / map as body
RespClass(r) == CASE r \in {"", "sub", "echo", "echo.n"} -> "accept"
                  \* ("*" is a body selector; as a response_body it names no field of the reply)
                  [] r \in {"zz", "id.x", "sub.zz", "echo.mp.value", "echo.rn.s", "*", "echo.*"} -> "reject"
                  [] OTHER -> "unspecified"
\* the field path of the template variable
VarClass(v) == CASE v \in {"", "n.s", "b.s", "n.deep.s"} -> "accept"
                 [] v \in {"zz", "s.x", "n.zz", "mp.value", "mp.key", "rn.s", "r.x"} -> "reject"
                 [] OTHER -> "unspecified"                         \* message-, repeated- or map-typed variables
ConflictClass(c) == CASE c = "none" -> "accept"
                      [] c = "same" -> "reject"                   \* same kind and template as another method's binding
                      \* a valid binding next to an existing route followed by an invalid additional binding
                      [] c \in {"leafThenBad", "belowLeafThenBad", "verbLeafThenBad"} -> "reject"
                      [] OTHER -> "unspecified"                   \* '*'-kind overlaps, same node via another field name,
                                                                  \* re-declaring an implicit path: no crash, otherwise free
RuleClass(e) ==
  LET cs == {BodyClass(e.body), RespClass(e.resp), ConflictClass(e.conflict), VarClass(e.varfp),
             IF e.nested THEN "reject" ELSE "accept"} IN
  IF ConflictClass(e.conflict) = "unspecified" THEN "unspecified"   \* what becomes of the rest of an overlapping rule is free
  ELSE IF "reject" \in cs THEN "reject"
  ELSE IF "unspecified" \in cs THEN "unspecified" ELSE "accept"

Judge(e, class) ==
  (IF e.out = "panic" THEN {"NoCrash"} ELSE {})
  \cup (IF class = "accept" /\ e.out = "reject" THEN {"AcceptValid"} ELSE {})
  \cup (IF class = "reject" /\ e.out = "accept" THEN {"RejectInvalid"} ELSE {})
  \cup (IF e.out # "panic" /\ e.onto = "base" /\ e.pa # e.pb THEN {"RoutesIntact"} ELSE {})
  \cup (IF e.out = "accept" /\ class = "accept" /\ ~e.routed THEN {"RoutesAfterAccept"} ELSE {})

Count(e, class) ==
  [stat EXCEPT !.regs = @ + 1,
               !.mustAccept = @ + (IF class = "accept" THEN 1 ELSE 0),
               !.mustReject = @ + (IF class = "reject" THEN 1 ELSE 0),
               !.unspecified = @ + (IF class = "unspecified" THEN 1 ELSE 0),
               !.accepted = @ + (IF e.out = "accept" THEN 1 ELSE 0),
               !.rejected = @ + (IF e.out = "reject" THEN 1 ELSE 0),
               !.panics = @ + (IF e.out = "panic" THEN 1 ELSE 0),
               !.ontoBase = @ + (IF e.onto = "base" THEN 1 ELSE 0),
               !.rules = @ + (IF e.ev = "RegRule" THEN 1 ELSE 0),
               !.names = @ + (IF e.ev = "RegName" THEN 1 ELSE 0)]

Step(class) ==
  LET e == Trace[l] IN
  /\ failed' = failed \cup {<<e.case, l, f>> : f \in Judge(e, class)}
  /\ stat' = Count(e, class)
  /\ l' = l + 1

TReg     == IsEv("Reg")     /\ Step(Class(Trace[l].x))
TRegRule == IsEv("RegRule") /\ Step(RuleClass(Trace[l]))
TRegName == IsEv("RegName") /\ Step("accept")     \* every legal proto name must be registrable

TNext == TReg \/ TRegRule \/ TRegName
TSpec == TInit /\ [][TNext]_tvars
Report == l > Len(Trace) =>
            PrintT(<<"REPORT", ToJson([consumed |-> l - 1, len |-> Len(Trace), failed |-> failed, stat |-> stat])>>)
=============================================================================
