---------------------------- MODULE Registry_Hist ----------------------------
(***************************************************************************)
(* Coarse layer of Registry.tla as a history generator and as the oracle   *)
(* of RegistryTrace: every history of register / drop operations over a    *)
(* local service and three connections (c3 is never registered: dropping   *)
(* it is "drop an unknown connection").                                     *)
(***************************************************************************)
EXTENDS Integers, Sequences, FiniteSets, TLC, Json
CONSTANTS MaxLen
\* (B.m2's route /g/a/m1/{s}/b lies below A.m1's /g/a/m1/{s}: two services on different backends share a routing node
\* whose only child is a variable, so pruning after a drop must not take the sibling's routes with it)
HMethods == {"A.m1", "A.m2", "B.m1", "B.m2"}
HServes == ("local" :> {"A.m1", "A.m2"}) @@ ("c1" :> {"A.m1", "A.m2"}) @@ ("c2" :> {"A.m1", "A.m2", "B.m1", "B.m2"}) @@ ("c3" :> {"B.m1", "B.m2"})
Conns == {"c1", "c2", "c3"}

VARIABLES live, conns, localDone, hist
hvars == <<live, conns, localDone, hist>>

Reg(l, b)  == [m \in HMethods |-> IF m \in HServes[b] THEN l[m] \cup {b} ELSE l[m]]
Drp(l, b)  == [m \in HMethods |-> l[m] \ {b}]

HInit == live = [m \in HMethods |-> {}] /\ conns = {} /\ localDone = FALSE /\ hist = <<>>
Op(op, b) == [op |-> op, b |-> b]
\* the effect of each public call on the abstract state
Effect(op, l, cs, ld) ==
  CASE op.op = "reglocal" -> [live |-> Reg(l, "local"), conns |-> cs, localDone |-> TRUE]
    [] op.op = "regconn" -> [live |-> Reg(l, op.b), conns |-> cs \cup {op.b}, localDone |-> ld]
    [] op.op = "reregister" -> [live |-> l, conns |-> cs, localDone |-> ld]       \* unchanged descriptors: nothing to do
    [] op.op = "dropconn" -> [live |-> Drp(l, op.b), conns |-> cs \ {op.b}, localDone |-> ld]
    [] OTHER -> [live |-> l, conns |-> cs, localDone |-> ld]                       \* dropunknown, regfail: no change
Enabled(op) ==
  CASE op.op = "reglocal" -> ~localDone
    [] op.op = "regconn" -> op.b \in {"c1", "c2"} /\ op.b \notin conns
    [] op.op = "reregister" -> op.b \in conns
    [] op.op = "dropconn" -> op.b \in conns
    [] op.op = "dropunknown" -> op.b \notin conns
    [] op.op = "regfail" -> TRUE
    [] OTHER -> FALSE
AllOps == {Op("reglocal", "local"), Op("regfail", "")} \cup {Op(o, c) : o \in {"regconn", "reregister", "dropconn"}, c \in {"c1", "c2"}}
          \cup {Op("dropunknown", c) : c \in Conns}
Do(op) == /\ Len(hist) < MaxLen /\ Enabled(op)
          /\ LET e == Effect(op, live, conns, localDone) IN
               live' = e.live /\ conns' = e.conns /\ localDone' = e.localDone
          /\ hist' = Append(hist, op)
HNext == \E op \in AllOps : Do(op)
HSpec == HInit /\ [][HNext]_hvars
Emit == Len(hist) = MaxLen => PrintT(<<"HIST", ToJson([ops |-> hist])>>)
\* design-level sanity: a dropped connection is live nowhere; live backends are registered
DroppedNotLive == \A m \in HMethods : live[m] \subseteq (conns \cup {"local"})
=============================================================================
