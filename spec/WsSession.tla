------------------------------ MODULE WsSession ------------------------------
(***************************************************************************)
(* One WebSocket session on a WEBSOCKET binding with a body (websocket.go   *)
(* streamWS.RecvMsg / SendMsg, http.go the upgrade branch of serveHTTP; the *)
(* frame reader is gobwas wsutil.ReadClientData, which the model treats as  *)
(* an RFC 6455 server endpoint).  C06 on this transport, C09 for the crash  *)
(* formula, C05 for the close code after a failed receive.                  *)
(*                                                                         *)
(* The client's side of the session is a sequence of abstract frames.  The  *)
(* server reads them one at a time; a frame either extends the message in   *)
(* progress, completes a message (which the handler's next RecvMsg gets),   *)
(* is answered at the frame level (ping), or ends the receive direction:    *)
(* cleanly (a close frame with 1000 / 1001 / no code outside a message) or  *)
(* with an error (everything else that ends it).  After the end nothing is  *)
(* delivered any more - the end is latched.                                 *)
(*                                                                         *)
(* A message is identified by the position of the frame that starts it.     *)
(* The handler of the conformance driver receives until the stream ends,    *)
(* echoes every message, returns nil after a clean end and Unauthenticated  *)
(* after an error, so the close frame it causes is 1000 or 1008 (code.go).  *)
(***************************************************************************)
EXTENDS Integers, Sequences, FiniteSets, TLC

CONSTANTS MaxLen,           \* longest frame sequence the design check feeds
          ContNeedsStart,   \* mechanism switch (guard WsSession_Neg_ContAlone): a continuation frame outside a message is refused
          CloseEndsLatched  \* mechanism switch (guard WsSession_Neg_Unlatched): frames after the end are never delivered

DataWhole   == {"T", "B"}                 \* FIN=1 text / binary frame carrying one JSON request
DataStart   == {"Ts", "Bs"}               \* FIN=0 text / binary frame: first fragment of a message
ContMid     == {"Cm"}                     \* FIN=0 continuation
ContEnd     == {"Ce"}                     \* FIN=1 continuation: completes the message
Control     == {"Pi", "Po"}               \* ping (answered with a pong of the same payload), unsolicited pong
CloseClean  == {"Cl1000", "Cl1001", "ClNone"}   \* normal closure, going away, close frame without a status
CloseAbn    == {"Cl1002", "Cl1011"}       \* the peer reports a failure (protocol error, internal error)
CloseApp    == {"Cl4000"}                 \* application-defined code: clean or not is the application's business (unspecified)
Undecodable == {"J", "Jnull"}             \* a complete text message that is not a JSON request object
\* protocol violations (RFC 6455 5.1, 5.2, 5.5, 8.1): client frame not masked, RSV bits without an extension, reserved
\* opcodes, fragmented or over-long control frames, text that is not UTF-8, a frame that stops before its announced length
Parts       == {"Part1", "Part2", "PartM", "PartP"}   \* cut after 1 byte, after the 2 fixed header bytes, inside the mask, inside the payload
Bad         == {"Unmasked", "Rsv", "Op3", "OpB", "PiFrag", "PiLong", "Utf8"} \cup Parts
Frames == DataWhole \cup DataStart \cup ContMid \cup ContEnd \cup Control \cup CloseClean \cup CloseAbn \cup CloseApp
          \cup Undecodable \cup Bad

\* ---- the receive machine as a function (folded by WsSessionTrace over recorded sessions)
S0 == [frag |-> FALSE, cur |-> 0, delivered |-> <<>>, end |-> "open", pings |-> 0]
Err(s) == [s EXCEPT !.end = "err"]
Step(s, i, f) ==
  IF s.end # "open" THEN (IF CloseEndsLatched THEN s
                          ELSE IF f \in DataWhole THEN [s EXCEPT !.delivered = Append(@, i)] ELSE s)
  ELSE IF f \in DataWhole THEN (IF s.frag THEN Err(s) ELSE [s EXCEPT !.delivered = Append(@, i)])
  ELSE IF f \in DataStart THEN (IF s.frag THEN Err(s) ELSE [s EXCEPT !.frag = TRUE, !.cur = i])
  ELSE IF f \in ContMid THEN (IF s.frag \/ ~ContNeedsStart THEN s ELSE Err(s))
  ELSE IF f \in ContEnd THEN (IF s.frag THEN [s EXCEPT !.frag = FALSE, !.cur = 0, !.delivered = Append(@, s.cur)]
                              ELSE IF ContNeedsStart THEN Err(s) ELSE [s EXCEPT !.delivered = Append(@, i)])
  ELSE IF f = "Pi" THEN [s EXCEPT !.pings = @ + 1]
  ELSE IF f = "Po" THEN s
  \* a close frame inside a fragmented message ends the session with the message incomplete: either report is accepted
  ELSE IF f \in CloseClean THEN [s EXCEPT !.end = IF s.frag THEN "either" ELSE "eof"]
  ELSE IF f \in CloseAbn THEN Err(s)
  ELSE IF f \in CloseApp THEN [s EXCEPT !.end = "either"]
  ELSE Err(s)                        \* Undecodable: the handler's RecvMsg fails; Bad: the connection is failed
\* the client stops writing without a close frame: in the middle of a message that is an error, between messages
\* RFC 6455 calls it abnormal (1006) but a byte stream that ends on a message boundary is also a clean end for the
\* other transports: unspecified
Cut(s) == IF s.end # "open" THEN s ELSE [s EXCEPT !.end = IF s.frag THEN "err" ELSE "either"]

RECURSIVE RunFrom(_, _, _)
RunFrom(s, fs, i) == IF i > Len(fs) THEN Cut(s) ELSE RunFrom(Step(s, i, fs[i]), fs, i + 1)
Run(fs) == RunFrom(S0, fs, 1)

\* ---- the same machine as a behaviour specification (design check: every frame sequence up to MaxLen)
VARIABLES fs, st
wvars == <<fs, st>>
Init == fs = <<>> /\ st = S0
Feed(f) == /\ Len(fs) < MaxLen
           /\ fs' = Append(fs, f)
           /\ st' = Step(st, Len(fs) + 1, f)
Next == \E f \in Frames : Feed(f)
Spec == Init /\ [][Next]_wvars

TypeOK == /\ st.end \in {"open", "eof", "err", "either"} /\ st.frag \in BOOLEAN
          /\ \A k \in DOMAIN st.delivered : st.delivered[k] \in 1..Len(fs)
\* C06 "no phantom": every delivered message was started by a data frame, and a fragmented one was completed by a final
\* continuation with nothing but continuations and control frames in between
NoPhantom == \A k \in DOMAIN st.delivered :
               LET i == st.delivered[k] IN
                 \/ fs[i] \in DataWhole
                 \/ /\ fs[i] \in DataStart
                    /\ \E j \in (i + 1)..Len(fs) : /\ fs[j] \in ContEnd
                                                   /\ \A m \in (i + 1)..(j - 1) : fs[m] \in ContMid \cup Control
\* C06 "no drop, no reorder": in order, and every complete message in front of the end of the session is there
Ordered == \A k \in 1..(Len(st.delivered) - 1) : st.delivered[k] < st.delivered[k + 1]
\* the session state after the first n frames, without the cut
RECURSIVE RunPrefixFrom(_, _, _, _)
RunPrefixFrom(s, q, i, n) == IF i > n THEN s ELSE RunPrefixFrom(Step(s, i, q[i]), q, i + 1, n)
RunPrefix(q, n) == RunPrefixFrom(S0, q, 1, n)
NoDrop == \A i \in DOMAIN fs : (fs[i] \in DataWhole /\ RunPrefix(fs, i - 1).end = "open" /\ ~RunPrefix(fs, i - 1).frag)
                                 => \E k \in DOMAIN st.delivered : st.delivered[k] = i
\* the end is justified by a frame of the session, and a clean end only by a clean close outside a message
EndJustified == /\ st.end = "eof" => \E i \in DOMAIN fs : fs[i] \in CloseClean
                /\ st.end = "open" => \A i \in DOMAIN fs : fs[i] \notin CloseClean \cup CloseAbn \cup CloseApp \cup Undecodable \cup Bad
\* latched: after the end nothing changes any more
Latched == [][st.end # "open" => st' = st]_wvars
=============================================================================
