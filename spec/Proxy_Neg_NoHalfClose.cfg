SPECIFICATION Spec
CONSTANTS
  Scripts <- OneScript
  Direct = FALSE
  ForwardHalfClose = FALSE
  JoinBeforeError = FALSE
  NeedFirstMessage = FALSE
  InterruptibleRecv = TRUE
  FirstSendEOFFatal = FALSE
INVARIANTS TranscriptEquivalence BackendSawPrefix BackendSawAll NoPumpOutlivesHandler
PROPERTY Finishes
