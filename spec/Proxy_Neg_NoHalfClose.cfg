SPECIFICATION Spec
CONSTANTS
  Scripts <- OneScript
  Direct = FALSE
  ForwardHalfClose = FALSE
  NeedFirstMessage = FALSE
INVARIANTS TranscriptEquivalence BackendSawPrefix BackendSawAll NoPumpOutlivesHandler
PROPERTY Finishes
