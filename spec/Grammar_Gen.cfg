SPECIFICATION Spec
CONSTANTS GenLen = 4
INVARIANTS Emit
CHECK_DEADLOCK FALSE
