------------------------------ MODULE Proxy_MC ------------------------------
EXTENDS Proxy, Json
Batch == [n : 0..2, readN : {0, 1, 99}, replyJ : 0..2, failAt : {"never", "before", "afterReplies", "afterEOF"}, mode : {"batch"}, failK : {0}]
\* lock-step (ping-pong) calls: the client waits for each answer with its send side open
LockSteps == {[n |-> n, readN |-> 99, replyJ |-> 0, failAt |-> (IF k = 0 THEN "never" ELSE "afterReplies"), mode |-> "lockstep", failK |-> k] :
                n \in 1..3, k \in 0..3} \ {s \in [n : 1..3, readN : {99}, replyJ : {0}, failAt : {"never", "afterReplies"}, mode : {"lockstep"}, failK : 0..3] : s.failK > s.n}
AllScripts == Batch \cup LockSteps
\* thorough tier: longer calls
BigBatch == [n : 0..3, readN : {0, 1, 2, 99}, replyJ : 0..3, failAt : {"never", "before", "afterReplies", "afterEOF"}, mode : {"batch"}, failK : {0}]
BigLock == {[n |-> n, readN |-> 99, replyJ |-> 0, failAt |-> (IF k = 0 THEN "never" ELSE "afterReplies"), mode |-> "lockstep", failK |-> k] :
              n \in 1..4, k \in 0..4} \ {s \in [n : 1..4, readN : {99}, replyJ : {0}, failAt : {"never", "afterReplies"}, mode : {"lockstep"}, failK : 0..4] : s.failK > s.n}
BigScripts == BigBatch \cup BigLock
\* scripts on which the pinned tree is known to depart (first-message wait): a client stream without messages
ZeroMsg == {s \in AllScripts : s.n = 0}
\* ... and those on which its mechanism (first message, then open, then forward it) must agree with the design
NonZero == AllScripts \ ZeroMsg
BigNonZero == {s \in BigScripts : s.n # 0}
OneScript == {[n |-> 2, readN |-> 99, replyJ |-> 1, failAt |-> "never", mode |-> "batch", failK |-> 0]}
LockFail == {[n |-> 2, readN |-> 99, replyJ |-> 0, failAt |-> "afterReplies", mode |-> "lockstep", failK |-> 2]}
Emit == \A s \in AllScripts : PrintT(<<"SCRIPT", ToJson(s)>>)
=============================================================================
