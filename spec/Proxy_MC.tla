------------------------------ MODULE Proxy_MC ------------------------------
EXTENDS Proxy, Json
AllScripts == [n : 0..2, readN : {0, 1, 99}, replyJ : 0..2, failAt : {"never", "before", "afterReplies", "afterEOF"}]
\* scripts on which the pinned tree is known to depart (first-message wait): a client stream without messages
ZeroMsg == {s \in AllScripts : s.n = 0}
OneScript == {[n |-> 2, readN |-> 99, replyJ |-> 1, failAt |-> "never"]}
Emit == \A s \in AllScripts : PrintT(<<"SCRIPT", ToJson(s)>>)
=============================================================================
