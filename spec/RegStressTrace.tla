---------------------------- MODULE RegStressTrace ----------------------------
(***************************************************************************)
(* Interval validation of concurrent registration and serving (C12).       *)
(* One writer goroutine runs register / drop / failing operations on the   *)
(* real Mux while reader goroutines issue requests; every start and end    *)
(* takes a number from one atomic counter.  The trace lists the writer's   *)
(* RegOp events first (with start and end numbers), then the requests.     *)
(* Each operation publishes at some unknown point between its start and    *)
(* its end, so a request that ran from rs to re was resolved against one   *)
(* of the states S_lo .. S_hi, lo = operations ended before rs, hi =       *)
(* operations started before re.  Its outcome must be allowed by ONE of    *)
(* them (AtomicInterval), and a method live in all of them must be served  *)
(* (KeepServing).                                                          *)
(***************************************************************************)
EXTENDS Registry_Hist, IOUtils
Trace == ndJsonDeserialize(IOEnv.TRACE)
VARIABLES l, failed, stat, states, starts, ends
\* states[j+1] = abstract live map after j operations; starts/ends: sequence numbers of the operations
tvars == <<l, failed, stat, states, starts, ends, live, conns, localDone, hist>>
Stat0 == [ops |-> 0, reqs |-> 0, overlapping |-> 0, served |-> 0, refused |-> 0]
TInit == HInit /\ l = 1 /\ failed = {} /\ stat = Stat0 /\ states = <<[m \in HMethods |-> {}]>> /\ starts = <<>> /\ ends = <<>>
IsEv(e) == l <= Len(Trace) /\ Trace[l].ev = e

TRegOp ==
  /\ IsEv("RegOp")
  /\ LET e == Trace[l]
         op == Op(e.op, e.b)
         \* an operation that reported failure must not have changed anything
         eff == IF e.ok \/ op.op \in {"dropunknown", "regfail"} THEN Effect(op, live, conns, localDone)
                ELSE [live |-> live, conns |-> conns, localDone |-> localDone]
     IN /\ live' = eff.live /\ conns' = eff.conns /\ localDone' = eff.localDone /\ hist' = <<>>
        /\ states' = Append(states, eff.live)
        /\ starts' = Append(starts, e.s) /\ ends' = Append(ends, e.e)
        /\ failed' = failed \cup (IF e.crash # "" THEN {<<0, l, "SafeOps">>} ELSE {})
        /\ stat' = [stat EXCEPT !.ops = @ + 1]
  /\ l' = l + 1

\* number of elements of the increasing sequence s that are < x (binary search)
RECURSIVE CountBelowIn(_, _, _, _)
CountBelowIn(s, x, lo, hi) ==
  IF lo > hi THEN lo - 1
  ELSE LET mid == (lo + hi) \div 2 IN
       IF s[mid] < x THEN CountBelowIn(s, x, mid + 1, hi) ELSE CountBelowIn(s, x, lo, mid - 1)
CountBelow(s, x) == CountBelowIn(s, x, 1, Len(s))

TReq ==
  /\ IsEv("Req")
  /\ LET e == Trace[l]
         lo == CountBelow(ends, e.s)       \* operations certainly published
         hi == CountBelow(starts, e.e)     \* operations possibly published
         cand == {states[j + 1] : j \in lo..hi}
         okIn(lv) == IF e.k = "served" THEN e.by \in lv[e.m]
                     ELSE IF e.k \in {"unimplemented", "notfound"} THEN lv[e.m] = {}
                     ELSE FALSE
         bad == (IF e.k = "panic" THEN {"Panic"} ELSE
                 (IF ~\E lv \in cand : okIn(lv) THEN
                    {IF (\A lv \in cand : lv[e.m] # {}) /\ e.k # "served" THEN "KeepServing" ELSE "AtomicInterval"} ELSE {}))
     IN /\ failed' = failed \cup {<<e.id, l, f>> : f \in bad}
        /\ stat' = [stat EXCEPT !.reqs = @ + 1, !.overlapping = @ + (IF hi > lo THEN 1 ELSE 0),
                                !.served = @ + (IF e.k = "served" THEN 1 ELSE 0),
                                !.refused = @ + (IF e.k \in {"unimplemented", "notfound"} THEN 1 ELSE 0)]
  /\ l' = l + 1 /\ UNCHANGED <<states, starts, ends, live, conns, localDone, hist>>

TSpec == TInit /\ [][TRegOp \/ TReq]_tvars
Report == l > Len(Trace) =>
            PrintT(<<"REPORT", ToJson([consumed |-> l - 1, len |-> Len(Trace), failed |-> failed, stat |-> stat])>>)
=============================================================================
