---------------------------- MODULE RegStressTrace ----------------------------
(***************************************************************************)
(* Interval validation of concurrent registration and serving (C12).       *)
(* One writer goroutine runs register / drop / failing operations on the   *)
(* real Mux while reader goroutines issue requests; every start and end    *)
(* takes a number from one atomic counter.  The trace lists the writer's   *)
(* RegOp events first (with start and end numbers), then the requests.     *)
(* Each operation publishes at some unknown point between its start and    *)
(* its end, so a request that ran from rs to re was resolved against one   *)
(* of the states S_lo .. S_hi, lo = operations ended before rs, hi =       *)
(* operations started before re.  Its outcome must be allowed by ONE of    *)
(* them (AtomicInterval), and a method live in all of them must be served  *)
(* (KeepServing).                                                          *)
(***************************************************************************)
EXTENDS Registry_Hist, IOUtils
Trace == ndJsonDeserialize(IOEnv.TRACE)
\* Several writer goroutines may run; each owns its own backends (w1: local and c1, w2: c2), so the
\* effects of different writers commute and the state at any instant is the union of what each writer
\* has published so far.  Per writer: states[w][j+1] = its live map after j of its operations.
WriterIds == {"w1", "w2"}
VARIABLES l, failed, stat, states, starts, ends, wlive,
          refuse   \* protocol -> the ways a state WITHOUT a backend for the method answers it (calibrated, see TCalib)
tvars == <<l, failed, stat, states, starts, ends, wlive, refuse, live, conns, localDone, hist>>
Stat0 == [ops |-> 0, reqs |-> 0, overlapping |-> 0, served |-> 0, refused |-> 0, twoWriters |-> 0]
NoLive == [m \in HMethods |-> {}]
TInit == /\ HInit /\ l = 1 /\ failed = {} /\ stat = Stat0
         /\ states = [w \in WriterIds |-> <<NoLive>>] /\ starts = [w \in WriterIds |-> <<>>] /\ ends = [w \in WriterIds |-> <<>>]
         /\ wlive = [w \in WriterIds |-> NoLive]
         /\ refuse = [p \in {"http", "implicit", "grpc"} |-> {"unimplemented", "notfound"}]
IsEv(e) == l <= Len(Trace) /\ Trace[l].ev = e

TRegOp ==
  /\ IsEv("RegOp")
  /\ LET e == Trace[l]
         w == e.w
         op == Op(e.op, e.b)
         \* an operation that reported failure must not have changed anything
         nl == IF e.ok \/ op.op \in {"dropunknown", "regfail"} THEN Effect(op, wlive[w], {}, FALSE).live ELSE wlive[w]
     IN /\ wlive' = [wlive EXCEPT ![w] = nl]
        /\ states' = [states EXCEPT ![w] = Append(@, nl)]
        /\ starts' = [starts EXCEPT ![w] = Append(@, e.s)] /\ ends' = [ends EXCEPT ![w] = Append(@, e.e)]
        /\ failed' = failed \cup (IF e.crash # "" THEN {<<0, l, "SafeOps">>} ELSE {})
                              \cup (IF ~e.ok /\ op.op \in {"reglocal", "regconn", "reregister", "dropconn"} THEN {<<0, l, "OpResult">>} ELSE {})
        /\ stat' = [stat EXCEPT !.ops = @ + 1]
  /\ l' = l + 1 /\ UNCHANGED <<refuse, live, conns, localDone, hist>>

\* Calibration: how this tree answers a method nobody serves, per protocol, as observed in every state of the
\* sequential histories of the same run (NotFound when the route goes with the backend, Unimplemented when the route
\* stays).  A concurrent request answered in a way NO single state answers - e.g. Unimplemented on a route whose rule
\* always leaves with its last backend - was resolved against two states.
TCalib ==
  /\ IsEv("Calib")
  /\ refuse' = [p \in DOMAIN refuse |-> IF p \in DOMAIN Trace[l].refuse THEN {Trace[l].refuse[p][k] : k \in DOMAIN Trace[l].refuse[p]} ELSE refuse[p]]
  /\ l' = l + 1 /\ UNCHANGED <<failed, stat, states, starts, ends, wlive, live, conns, localDone, hist>>

\* number of elements of the increasing sequence s that are < x (binary search)
RECURSIVE CountBelowIn(_, _, _, _)
CountBelowIn(s, x, lo, hi) ==
  IF lo > hi THEN lo - 1
  ELSE LET mid == (lo + hi) \div 2 IN
       IF s[mid] < x THEN CountBelowIn(s, x, mid + 1, hi) ELSE CountBelowIn(s, x, lo, mid - 1)
CountBelow(s, x) == CountBelowIn(s, x, 1, Len(s))
Join2(a, b) == [m \in HMethods |-> a[m] \cup b[m]]

TReq ==
  /\ IsEv("Req")
  /\ LET e == Trace[l]
         lo(w) == CountBelow(ends[w], e.s)       \* operations of w certainly published
         hi(w) == CountBelow(starts[w], e.e)     \* operations of w possibly published
         cand == {Join2(states["w1"][j1 + 1], states["w2"][j2 + 1]) : j1 \in lo("w1")..hi("w1"), j2 \in lo("w2")..hi("w2")}
         okIn(lv) == IF e.k = "served" THEN e.by \in lv[e.m]
                     ELSE IF e.k \in {"unimplemented", "notfound"} THEN lv[e.m] = {} /\ e.k \in refuse[e.proto]
                     ELSE FALSE
         bad == (IF e.k = "panic" THEN {"Panic"} ELSE
                 (IF ~\E lv \in cand : okIn(lv) THEN
                    {IF (\A lv \in cand : lv[e.m] # {}) /\ e.k # "served" THEN "KeepServing" ELSE "AtomicInterval"} ELSE {}))
     IN /\ failed' = failed \cup {<<e.id, l, f>> : f \in bad}
        /\ stat' = [stat EXCEPT !.reqs = @ + 1, !.overlapping = @ + (IF hi("w1") > lo("w1") \/ hi("w2") > lo("w2") THEN 1 ELSE 0),
                                !.twoWriters = @ + (IF hi("w1") > lo("w1") /\ hi("w2") > lo("w2") THEN 1 ELSE 0),
                                !.served = @ + (IF e.k = "served" THEN 1 ELSE 0),
                                !.refused = @ + (IF e.k \in {"unimplemented", "notfound"} THEN 1 ELSE 0)]
  /\ l' = l + 1 /\ UNCHANGED <<states, starts, ends, wlive, refuse, live, conns, localDone, hist>>

TSpec == TInit /\ [][TRegOp \/ TReq \/ TCalib]_tvars
Report == l > Len(Trace) =>
            PrintT(<<"REPORT", ToJson([consumed |-> l - 1, len |-> Len(Trace), failed |-> failed, stat |-> stat])>>)
=============================================================================
