---------------------------- MODULE RegBindings ----------------------------
(***************************************************************************)
(* The routing trie under RegisterConn / DropConn, one level below the     *)
(* coarse layer of Registry.tla (C11): a method does not own one route but *)
(* several bindings - the implicit /pkg.Service/Method one (kept in the    *)
(* node's all-verbs slot), the primary pattern of its annotation, and the  *)
(* annotation's additional_bindings.  appendHandler/addRule add them,      *)
(* removeHandler/delRule take them away when the method's last backend     *)
(* leaves.                                                                 *)
(*                                                                         *)
(* addRule (rules.go): a binding that is already there for the same method *)
(* is "already registered": the call returns at once - for an annotation   *)
(* that means BEFORE its additional bindings are looked at.                *)
(* delRule: DelAll = TRUE removes every binding of the method (the design, *)
(* and the tree since F50); DelAll = FALSE is the mechanism found at the   *)
(* pinned commit: the walk returns after the first binding it deletes      *)
(* (which one is map order) and never looks at the all-verbs slot.         *)
(***************************************************************************)
EXTENDS Integers, Sequences, FiniteSets, TLC

CONSTANTS Backends, Methods, Serves, Extras, DelAll   \* Serves[b]: methods of backend b; Extras[m]: number of additional bindings of m

ExtraName == <<"extra1", "extra2", "extra3">>
Kinds(m) == {"implicit", "primary"} \cup {ExtraName[k] : k \in 1..Extras[m]}
AllKinds == UNION {Kinds(m) : m \in Methods}

VARIABLES live,   \* live[m]: backends registered for m
          bind    \* bind[m]: bindings of m present in the trie
bvars == <<live, bind>>

Init == live = [m \in Methods |-> {}] /\ bind = [m \in Methods |-> {}]

\* appendHandler: implicit rule, then the annotation (primary, then - only if the primary was new - the additional ones)
AddRules(bs, m) == LET b1 == bs \cup {"implicit"} IN
                   IF "primary" \in b1 THEN b1 ELSE b1 \cup Kinds(m)

Register(b) == /\ \E m \in Serves[b] : b \notin live[m]
               /\ live' = [m \in Methods |-> IF m \in Serves[b] THEN live[m] \cup {b} ELSE live[m]]
               /\ bind' = [m \in Methods |-> IF m \in Serves[b] THEN AddRules(bind[m], m) ELSE bind[m]]

\* removeHandler: methods whose last handler goes lose their rules
Drop(b) == /\ \E m \in Methods : b \in live[m]
           /\ live' = [m \in Methods |-> live[m] \ {b}]
           /\ bind' \in [Methods -> SUBSET AllKinds]
           /\ \A m \in Methods :
                IF live[m] = {b}
                THEN IF DelAll THEN bind'[m] = {}
                     ELSE LET cand == bind[m] \ {"implicit"} IN
                          IF cand = {} THEN bind'[m] = bind[m] ELSE \E k \in cand : bind'[m] = bind[m] \ {k}
                ELSE bind'[m] = bind[m]

Next == \E b \in Backends : Register(b) \/ Drop(b)
Spec == Init /\ [][Next]_bvars

TypeOK == /\ live \in [Methods -> SUBSET Backends]
          /\ \A m \in Methods : bind[m] \subseteq Kinds(m)
\* C11: a method with a live backend answers on every one of its bindings
Reachable == \A m \in Methods : live[m] # {} => bind[m] = Kinds(m)
\* design: nothing is left behind for a method without backends (the property also admits Unimplemented there)
NoLeftover == \A m \in Methods : live[m] = {} => bind[m] = {}
=============================================================================
