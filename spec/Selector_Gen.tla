---------------------------- MODULE Selector_Gen ----------------------------
(* Cases for the real mux: a target method and a set of selectors drawn from *)
(* every prefix of every method name (exact and wildcard), "*", and names     *)
(* from an unrelated package.                                                 *)
EXTENDS Naturals, Sequences, FiniteSets, TLC, Json, SequencesExt
CONSTANTS MaxSels
Targets == { <<"pa", "S", "Get">>, <<"pa", "SX", "Get">>, <<"pb", "S", "Get">>,
             <<"pa", "sub", "S", "Get">>, <<"pa", "T", "GetX">>, <<"pa", "T2", "Get">> }
NamePrefixes == UNION {{SubSeq(t, 1, k) : k \in 1..Len(t)} : t \in Targets}
Universe == [path : NamePrefixes \cup {<<"zz">>, <<"zz", "S", "Get">>, <<"pa", "S", "Ge">>, <<"pa", "S", "Get", "x">>}, wild : BOOLEAN]
            \cup {[path |-> <<>>, wild |-> TRUE]}
VARIABLES sels
Init == sels = {}
Next == Cardinality(sels) < MaxSels /\ \E s \in Universe \ sels : sels' = sels \cup {s}
Spec == Init /\ [][Next]_sels
Emit == sels # {} => PrintT(<<"CASE", ToJson([sels |-> SetToSeq(sels)])>>)
=============================================================================
