SPECIFICATION TSpec
CONSTANTS
  Bodies = {}
  ParamOrder = "path-last"
INVARIANTS Report
CHECK_DEADLOCK FALSE
