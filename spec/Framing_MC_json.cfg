SPECIFICATION Spec
CONSTANTS
  Codec = "json"
  Streams <- MCStreams
  Limit = 6
  MaxChunk = 6
  EofDropsData = FALSE
  PhantomOnEof = FALSE
  CountCarry = TRUE
  Sizes = {0, 1, 2, 3, 4}
  MaxFrames = 3
  Trunc = TRUE
INVARIANTS FragmentationInvariant AllReturned ByteConservation LimitSafe NoPhantom
CHECK_DEADLOCK FALSE
