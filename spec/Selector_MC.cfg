SPECIFICATION Spec
CONSTANTS
  Comps = {"a", "b", "ab"}
  MaxDepth = 3
  MaxSels = 2
  SeparateExact = TRUE
INVARIANTS SelectorIff
CHECK_DEADLOCK FALSE
