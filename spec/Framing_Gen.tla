---------------------------- MODULE Framing_Gen ----------------------------
(* Streams for the real codecs: every frame sequence / truncation in scope.  *)
(* The chunk schedules are enumerated by the driver (all compositions of the *)
(* wire) and each executed Read is validated as a step by FramingTrace.      *)
EXTENDS Framing_MC, Json
NoStreams == {}
ASSUME \A s \in MCStreams :
         PrintT(<<"STREAM", ToJson([codec |-> Codec, limit |-> Limit, frames |-> s.frames, cut |-> s.cut])>>)
=============================================================================
