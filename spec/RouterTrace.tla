---------------------------- MODULE RouterTrace ----------------------------
(***************************************************************************)
(* Trace validation for routing (C01, C02).  The trace is what the Go      *)
(* driver observed on the real Mux: Reset events (a concrete rule set      *)
(* registered in K orders) and Lookup events (one request, the K observed  *)
(* outcomes).  Each Lookup must be a LookupAny step of Router.tla, i.e. an *)
(* outcome the property layer allows; the formula that rejects it is       *)
(* recorded so that each property's check judges its own formula only.     *)
(***************************************************************************)
EXTENDS Router, Json, IOUtils

Trace == ndJsonDeserialize(IOEnv.TRACE)

VARIABLES l,        \* next line of the trace
          failed,   \* {<<case, line, formula>>}: observations the property layer rejects
          stat,     \* counters for the evidence file
          drift     \* first few <<case, line>> where the mechanism model predicts another outcome (informational)

tvars == <<vars, l, failed, stat, drift>>

Stat0 == [cases |-> 0, skippedOrderDep |-> 0, rejectedSets |-> 0, lookups |-> 0, dispatch |-> 0,
          must |-> 0, litcases |-> 0, panics |-> 0, drift |-> 0]

TInit == /\ Init /\ l = 1 /\ failed = {} /\ stat = Stat0 /\ drift = {}

IsEv(e) == l <= Len(Trace) /\ Trace[l].ev = e

AllSame(s) == \A i \in DOMAIN s : s[i] = s[1]

\* Reset: a new rule set.  Lookups follow only when every order accepted it.
TReset ==
  /\ IsEv("Reset")
  /\ LET e == Trace[l] IN
       /\ rules' = e.rules
       /\ look' = [kind |-> "none"]
       /\ stat' = [stat EXCEPT !.cases = @ + 1,
                               !.skippedOrderDep = @ + (IF ~AllSame(e.acc) THEN 1 ELSE 0),
                               !.rejectedSets = @ + (IF AllSame(e.acc) /\ ~e.acc[1] THEN 1 ELSE 0)]
       /\ failed' = failed \cup
            (IF AllSame(e.acc) /\ ~e.acc[1] /\ \A k \in 1..e.nuser : Plain(e.rules[k].tmpl)
             THEN {<<e.case, l, IF \E k \in DOMAIN e.errs : e.panicked THEN "RegPanic" ELSE "RejectedPlain">>} ELSE {})
            \cup (IF AllSame(e.acc) /\ e.acc[1] # e.altacc THEN {<<e.case, l, "ConfigEqAnnot">>} ELSE {})
  /\ l' = l + 1 /\ UNCHANGED drift

NormOut(o) == [k |-> o.k, why |-> "", m |-> o.m,
               caps |-> {[fp |-> c.fp, val |-> c.val] : c \in Range(o.caps)}]

SameOutcome(o1, o2) == NormOut(o1) = NormOut(o2) /\ o1.status = o2.status

TLookup ==
  /\ IsEv("Lookup")
  /\ LET e == Trace[l]
         outs == [i \in DOMAIN e.outs |-> NormOut(e.outs[i])]
         crashed == \E i \in DOMAIN e.outs : e.outs[i].k = "panic"
         R == MatchingStrict(rules, e.kind, e.path)
         mustDispatch == R # {} /\ AllConvertible(R, e.path) /\ Len(e.path) <= 10
         bad == IF crashed THEN {"Panic"} ELSE
                (IF (\E i \in DOMAIN outs : ~Sound(rules, e.kind, e.path, outs[i])) \/ ~e.qsame THEN {"Sound"} ELSE {})
                \cup (IF \E i \in DOMAIN outs : ~Complete(rules, e.kind, e.path, outs[i]) THEN {"Complete"} ELSE {})
                \cup (IF \E i \in DOMAIN outs : ~LiteralFirst(rules, e.kind, e.path, outs[i]) THEN {"LiteralFirst"} ELSE {})
                \cup (IF \E i \in DOMAIN e.outs : ~SameOutcome(e.outs[i], e.outs[1]) THEN {"OrderIndep"} ELSE {})
                \cup (IF e.alt.k \notin {"noalt", "panic"} /\ ~SameOutcome(e.alt, e.outs[1]) THEN {"ConfigEqAnnot"} ELSE {})
         mech == MechLookup(rules, e.kind, e.path)
         drifted == ~crashed /\ (mech.k # outs[1].k \/ (mech.k = "dispatch" /\ mech # outs[1]))
     IN
       /\ look' = [kind |-> e.kind, path |-> e.path, out |-> outs[1]]
       /\ failed' = failed \cup {<<e.case, l, f>> : f \in bad}
       /\ drift' = IF drifted /\ Cardinality(drift) < 10 THEN drift \cup {<<e.case, l>>} ELSE drift
       /\ stat' = [stat EXCEPT !.lookups = @ + 1,
                               !.dispatch = @ + (IF outs[1].k = "dispatch" THEN 1 ELSE 0),
                               !.must = @ + (IF mustDispatch THEN 1 ELSE 0),
                               !.litcases = @ + (IF \E r1, r2 \in R : Dominates(r1, r2) THEN 1 ELSE 0),
                               !.panics = @ + (IF crashed THEN 1 ELSE 0),
                               !.drift = @ + (IF drifted THEN 1 ELSE 0)]
  /\ l' = l + 1 /\ UNCHANGED rules

TNext == TReset \/ TLookup
TSpec == TInit /\ [][TNext]_tvars

\* printed once, in the state that has consumed the whole trace
Report == l > Len(Trace) =>
            PrintT(<<"REPORT", ToJson([consumed |-> l - 1, len |-> Len(Trace),
                                       failed |-> failed, stat |-> stat, drift |-> drift])>>)
=============================================================================
