---------------------------- MODULE SelectorTrace ----------------------------
(***************************************************************************)
(* Trace validation for C19.                                               *)
(*  Sel   : one real mux configured with selectors sels (each owning the   *)
(*          rule GET /sel<k>/{s}), one service registered; bound[k] says    *)
(*          whether the target method answered GET /sel<k>/x.               *)
(*  HSet / HCheck : healthz scenario - SetServingStatus on the real health  *)
(*          server, GET /v1/healthz?service=... through the mux.            *)
(***************************************************************************)
EXTENDS Naturals, Sequences, FiniteSets, TLC, Json, IOUtils

IsPrefix(p, n) == Len(p) <= Len(n) /\ SubSeq(n, 1, Len(p)) = p
Covers(sel, name) == IF sel.wild THEN Len(name) > Len(sel.path) /\ IsPrefix(sel.path, name)
                     ELSE name = sel.path

Trace == ndJsonDeserialize(IOEnv.TRACE)
VARIABLES l, failed, stat, health   \* health: service name -> status set on the server
tvars == <<l, failed, stat, health>>
Stat0 == [cases |-> 0, pairs |-> 0, bound |-> 0, mustBind |-> 0, regErrors |-> 0, panics |-> 0, hsets |-> 0, hchecks |-> 0, hwatches |-> 0]
TInit == l = 1 /\ failed = {} /\ stat = Stat0 /\ health = [s \in {""} |-> "SERVING"]   \* grpc health: "" is SERVING at start
IsEv(e) == l <= Len(Trace) /\ Trace[l].ev = e

TSel ==
  /\ IsEv("Sel")
  /\ LET e == Trace[l]
         want == [k \in DOMAIN e.sels |-> Covers(e.sels[k], e.target)]
         bad == IF e.out = "panic" THEN {"Panic"}
                ELSE IF e.out # "ok" THEN {}        \* registration refused the configuration: nothing observable
                ELSE (IF \E k \in DOMAIN want : want[k] /\ ~e.bound[k] THEN {"SelectorMissed"} ELSE {})
                     \cup (IF \E k \in DOMAIN want : ~want[k] /\ e.bound[k] THEN {"SelectorLeaked"} ELSE {})
     IN /\ failed' = failed \cup {<<e.case, l, f>> : f \in bad}
        /\ stat' = [stat EXCEPT !.cases = @ + 1, !.pairs = @ + Len(e.sels),
                                !.bound = @ + Cardinality({k \in DOMAIN e.bound : e.bound[k]}),
                                !.mustBind = @ + Cardinality({k \in DOMAIN want : want[k]}),
                                !.regErrors = @ + (IF e.out = "regerror" THEN 1 ELSE 0),
                                !.panics = @ + (IF e.out = "panic" THEN 1 ELSE 0)]
  /\ l' = l + 1 /\ UNCHANGED health

THReset == IsEv("HReset") /\ health' = [s \in {""} |-> "SERVING"] /\ l' = l + 1 /\ UNCHANGED <<failed, stat>>

THSet ==
  /\ IsEv("HSet")
  /\ LET e == Trace[l] IN
       health' = [s \in DOMAIN health \cup {e.service} |-> IF s = e.service THEN e.status ELSE health[s]]
  /\ stat' = [stat EXCEPT !.hsets = @ + 1]
  /\ l' = l + 1 /\ UNCHANGED failed

\* Check through /v1/healthz: a known service reports exactly the status set; an unknown one is NotFound (404)
THCheck ==
  /\ IsEv("HCheck")
  /\ LET e == Trace[l]
         ok == IF e.service \in DOMAIN health
               THEN e.http = 200 /\ e.status = health[e.service]
               ELSE e.http = 404
     IN failed' = failed \cup (IF ok THEN {} ELSE {<<e.case, l, "Healthz">>})
  /\ stat' = [stat EXCEPT !.hchecks = @ + 1]
  /\ l' = l + 1 /\ UNCHANGED health

\* Watch over a WebSocket session on the same route: the first frame is the service's current status; a service the
\* health server does not know is reported SERVICE_UNKNOWN (Watch's contract), never another service's status
THWatch ==
  /\ IsEv("HWatch")
  /\ LET e == Trace[l]
         ok == /\ e.http = 101
               /\ e.status = (IF e.service \in DOMAIN health THEN health[e.service] ELSE "SERVICE_UNKNOWN")
     IN failed' = failed \cup (IF ok THEN {} ELSE {<<e.case, l, "Healthz">>})
  /\ stat' = [stat EXCEPT !.hwatches = @ + 1]
  /\ l' = l + 1 /\ UNCHANGED health

TNext == TSel \/ THSet \/ THCheck \/ THReset \/ THWatch
TSpec == TInit /\ [][TNext]_tvars
Report == l > Len(Trace) =>
            PrintT(<<"REPORT", ToJson([consumed |-> l - 1, len |-> Len(Trace), failed |-> failed, stat |-> stat])>>)
=============================================================================
