SPECIFICATION HSpec
CONSTANTS MaxLen = 4
INVARIANTS Emit DroppedNotLive
CHECK_DEADLOCK FALSE
