------------------------------ MODULE Mount_Gen ------------------------------
EXTENDS Mount_MC, Json, SequencesExt
MountSets == {ms \in SUBSET MCPats : ms # {} /\ Cardinality(ms) <= 3 /\ NoDup(ms)}
ASSUME \A ms \in MountSets : \A ex \in {{}, MCExtrasPlain, MCExtras} :
         PrintT(<<"CASE", ToJson([patterns |-> SetToSeq(ms), extras |-> SetToSeq(ex)])>>)
NoPaths == {}
=============================================================================
