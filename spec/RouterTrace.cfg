SPECIFICATION TSpec
CONSTANTS
  Elems = {}
  MaxSegs = 1
  Verbs = {}
  RuleKinds = {}
  ReqKinds = {}
  Methods = {}
  MaxRules = 0
  Fill = {}
  VarsSorted = TRUE
  SlashBeforeVar = TRUE
  RelIndex = TRUE
  LitFirst = TRUE
INVARIANTS Report
CHECK_DEADLOCK FALSE
