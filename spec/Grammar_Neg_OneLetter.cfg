SPECIFICATION Spec
CONSTANTS
  MaxLen = 5
  OneLetterBug = TRUE
INVARIANTS LexerSound LexerComplete ClassTotal AcceptIsLexed RejectGrammarNotLexed
CHECK_DEADLOCK FALSE
