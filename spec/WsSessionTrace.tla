---------------------------- MODULE WsSessionTrace ----------------------------
(***************************************************************************)
(* Trace validation of recorded WebSocket sessions (C06 on the WebSocket    *)
(* transport, the close code of C05, the crash formula of C09).  Each      *)
(* event holds the abstract frame sequence the client wrote, what every    *)
(* RecvMsg of the real handler returned (message id and whether it equals  *)
(* the message the client sent under that id, clean end, error), whether   *)
(* the clean end was latched, and the frames the real server wrote.  The   *)
(* frame sequence is folded through WsSession!Step; every observation is   *)
(* compared with the resulting session state.                              *)
(***************************************************************************)
EXTENDS WsSession, Json, IOUtils

Trace == ndJsonDeserialize(IOEnv.TRACE)
VARIABLES l, failed, stat
tvars == <<l, failed, stat, fs, st>>
Stat0 == [sessions |-> 0, msgs |-> 0, fragmented |-> 0, cleanEnds |-> 0, errEnds |-> 0, eitherEnds |-> 0, clientJudged |-> 0,
          pings |-> 0, crashes |-> 0, frames |-> 0]
TInit == l = 1 /\ failed = {} /\ stat = Stat0 /\ fs = <<>> /\ st = S0

HandlerErrClose == 1008     \* the driver's handler answers a failed receive with Unauthenticated: policy violation (code.go)

SelectK(q, k) == SelectSeq(q, LAMBDA x : x.k = k)
Ids(q) == [i \in DOMAIN q |-> q[i].id]
IsClose(x) == x.k = "close"

Judge(e) ==
  LET r == Run(e.frames)
      msgs == SelectK(e.recv, "msg")
      n == Len(e.recv)
      last == IF n = 0 THEN "none" ELSE e.recv[n].k
      texts == SelectK(e.srv, "text")
      firstClose == IF \E i \in DOMAIN e.srv : IsClose(e.srv[i]) THEN CHOOSE i \in DOMAIN e.srv : IsClose(e.srv[i]) /\ \A j \in 1..(i - 1) : ~IsClose(e.srv[j]) ELSE 0
      clientSide == e.readend = "eof" IN
  IF e.crash # "" THEN {"Crash"}
  ELSE IF e.status # 101 \/ ~e.entered THEN {"WsUpgrade"}
  ELSE
    \* the handler got exactly the complete messages in front of the end of the session, each equal to what was sent
    (IF Ids(msgs) = r.delivered /\ \A i \in DOMAIN msgs : msgs[i].same THEN {} ELSE {"WsRecvSeq"})
    \* ... followed by one end report, of the kind the session calls for, and nothing after it
    \cup (IF /\ n >= 1 /\ last \in {"eof", "err"}
             /\ \A i \in 1..(n - 1) : e.recv[i].k = "msg"
             /\ (r.end = "eof" => last = "eof") /\ (r.end = "err" => last = "err")
          THEN {} ELSE {"WsEnd"})
    \cup (IF last = "eof" /\ ~e.latched THEN {"WsLatched"} ELSE {})
    \* the client read everything the server wrote: the echoes of exactly those messages, a pong per ping, and last
    \* the close frame that tells how the handler ended (after a close frame only close frames)
    \cup (IF clientSide /\ ~(Ids(texts) = r.delivered /\ \A i \in DOMAIN texts : texts[i].same) THEN {"WsEcho"} ELSE {})
    \cup (IF clientSide /\ Len(SelectK(e.srv, "pong")) # r.pings THEN {"WsPong"} ELSE {})
    \cup (IF clientSide /\ (\E i \in DOMAIN e.srv : e.srv[i].k = "other") THEN {"WsServerFrames"} ELSE {})
    \cup (IF clientSide /\ ~( /\ firstClose > 0
                              /\ \A j \in firstClose..Len(e.srv) : IsClose(e.srv[j])
                              /\ LET c == e.srv[Len(e.srv)].code IN
                                 IF last = "eof" THEN c \in {1000, 1005} ELSE c = HandlerErrClose )
          THEN {"WsClose"} ELSE {})

TSession ==
  /\ l <= Len(Trace) /\ Trace[l].ev = "WsSession"
  /\ LET e == Trace[l]
         r == Run(e.frames)
         bad == Judge(e) IN
     /\ failed' = failed \cup {<<e.case, l, f>> : f \in bad}
     /\ stat' = [stat EXCEPT !.sessions = @ + 1, !.msgs = @ + Len(r.delivered), !.frames = @ + Len(e.frames),
                             !.fragmented = @ + Cardinality({k \in DOMAIN r.delivered : e.frames[r.delivered[k]] \in DataStart}),
                             !.cleanEnds = @ + (IF r.end = "eof" THEN 1 ELSE 0), !.errEnds = @ + (IF r.end = "err" THEN 1 ELSE 0),
                             !.eitherEnds = @ + (IF r.end = "either" THEN 1 ELSE 0),
                             !.clientJudged = @ + (IF e.readend = "eof" THEN 1 ELSE 0), !.pings = @ + r.pings,
                             !.crashes = @ + (IF e.crash # "" THEN 1 ELSE 0)]
  /\ l' = l + 1 /\ UNCHANGED <<fs, st>>
TSpec == TInit /\ [][TSession]_tvars
Report == l > Len(Trace) =>
            PrintT(<<"REPORT", ToJson([consumed |-> l - 1, len |-> Len(Trace), failed |-> failed, stat |-> stat])>>)
=============================================================================
