---------------------------- MODULE RegRevTrace ----------------------------
(***************************************************************************)
(* Trace validation of the revision histories: each event holds the ops so  *)
(* far, whether the last call reported success, and the outcome of a probe  *)
(* of every binding of both revisions after it.                             *)
(***************************************************************************)
EXTENDS RegRev, Json, IOUtils
Trace == ndJsonDeserialize(IOEnv.TRACE)
VARIABLES l, failed, stat
tvars == <<l, failed, stat, ann, reg, bind, hist>>
Stat0 == [steps |-> 0, probes |-> 0, replaced |-> 0, served |-> 0, gone |-> 0, crashes |-> 0]
TInit == l = 1 /\ failed = {} /\ stat = Stat0 /\ ann = 1 /\ reg = 0 /\ bind = {} /\ hist = <<>>
TStep ==
  /\ l <= Len(Trace) /\ Trace[l].ev = "RevStep"
  /\ LET e == Trace[l]
         s == After(e.ops)
         before == After(SubSeq(e.ops, 1, Len(e.ops) - 1))
         lastOp == e.ops[Len(e.ops)]
         wantOK == IF lastOp = "drop" THEN before.reg # 0 ELSE TRUE
         live == Bindings(s.reg)
         badP == {k \in DOMAIN e.probes :
                    LET p == e.probes[k] IN
                    IF p.bind \in live THEN ~(p.k = "served" /\ p.by = "cv" /\ p.meth = "/vg.C/m1")
                    ELSE p.k \notin {"notfound", "unimplemented"}}
         bad == (IF e.crash # "" THEN {"SafeOps"} ELSE
                  (IF lastOp # "bump" /\ e.ok # wantOK THEN {"OpResult"} ELSE {})
                  \cup (IF \E k \in badP : e.probes[k].bind \in live THEN {"NoFalseUnimplemented"} ELSE {})
                  \* a request answered by a handler although no rule of the registered revision covers it
                  \cup (IF \E k \in badP : e.probes[k].bind \notin live /\ e.probes[k].k = "served" THEN {"DispatchLive"} ELSE {})
                  \cup (IF \E k \in badP : e.probes[k].bind \notin live /\ e.probes[k].k # "served" THEN {"NoneIsUnimplemented"} ELSE {}))
     IN /\ failed' = failed \cup {<<e.case, l, f>> : f \in bad}
        /\ stat' = [stat EXCEPT !.steps = @ + 1, !.probes = @ + Len(e.probes),
                                !.replaced = @ + (IF lastOp = "register" /\ before.reg # 0 /\ before.reg # before.ann THEN 1 ELSE 0),
                                !.served = @ + Cardinality({k \in DOMAIN e.probes : e.probes[k].bind \in live}),
                                !.gone = @ + Cardinality({k \in DOMAIN e.probes : e.probes[k].bind \notin live}),
                                !.crashes = @ + (IF e.crash # "" THEN 1 ELSE 0)]
  /\ l' = l + 1 /\ UNCHANGED <<ann, reg, bind, hist>>
TSpec == TInit /\ [][TStep]_tvars
Report == l > Len(Trace) =>
            PrintT(<<"REPORT", ToJson([consumed |-> l - 1, len |-> Len(Trace), failed |-> failed, stat |-> stat])>>)
=============================================================================
