SPECIFICATION Spec
CONSTANTS
  Bodies = {"*", "b", "none"}
  ParamOrder = "query-last"
INVARIANTS Reassembly PathAuthoritative OthersIntact
CHECK_DEADLOCK FALSE
