-------------------------------- MODULE Rpc --------------------------------
(***************************************************************************)
(* One RPC from receipt to the last byte, on every protocol larking serves.*)
(* The handler is a script of stream operations; Apply(s, a) is the step   *)
(* function of the per-request state machine (header phase, message        *)
(* counters, pending metadata, size limits, final status, stats events).   *)
(* View(s) is what the client of the protocol must observe.                *)
(*                                                                         *)
(* Next explores every script the handler API allows (TLC enumerates them  *)
(* and they are replayed against the real Mux); RpcTrace.tla folds Apply   *)
(* over the script of each recorded RPC and compares View with what the    *)
(* real client and handler saw.                                            *)
(***************************************************************************)
EXTENDS Integers, Sequences, FiniteSets, TLC

\* ("grpcsock" is gRPC as a real grpc-go client sees it through larking.NewServer on a socket)
Protos == {"http", "twirp", "grpc", "grpcweb", "grpcwebtext", "ws", "grpcsock"}
Shapes == {"unary", "cstream", "sstream", "bidi"}
IsGrpc(p) == p \in {"grpc", "grpcweb", "grpcwebtext", "grpcsock"}
ClientStreams(sh) == sh \in {"cstream", "bidi"}
ServerStreams(sh) == sh \in {"sstream", "bidi"}
CarriesTrailers(p) == IsGrpc(p)
\* transports on which replies already sent stay valid when the call then fails, because the status has its own channel
\* (gRPC trailers, the WebSocket close frame)
HasStatusChannel(p) == IsGrpc(p) \/ p = "ws"

Range(s) == {s[i] : i \in DOMAIN s}
Min(a, b) == IF a < b THEN a ELSE b

-----------------------------------------------------------------------------
(* Metadata: function from key to sequence of values.  Join appends.       *)
EmptyMD == [k \in {} |-> <<>>]
Join(a, b) == [k \in DOMAIN a \cup DOMAIN b |->
                 (IF k \in DOMAIN a THEN a[k] ELSE <<>>) \o (IF k \in DOMAIN b THEN b[k] ELSE <<>>)]
\* keys a handler cannot set on the response (grpc.go isReservedHeader, intended list)
ReservedOut == {"content-type", "user-agent", "grpc-message-type", "grpc-encoding", "grpc-message",
                "grpc-status", "grpc-timeout", "grpc-status-details-bin", "te", "trailer",
                "content-length", "grpc-accept-encoding"}
FilterOut(md) == [k \in DOMAIN md \ ReservedOut |-> md[k]]
\* request keys that must not reach the handler (protocol headers), and the whitelisted ones
ReservedIn == {"content-type", "grpc-message-type", "grpc-encoding", "grpc-message", "grpc-status",
               "grpc-timeout", "grpc-status-details-bin", "te"}

-----------------------------------------------------------------------------
(* Code tables (code.go is the only documentation of the HTTP mapping).    *)
HTTPStatus(c) ==
  CASE c = 0 -> 200 [] c = 1 -> 408 [] c = 2 -> 500 [] c = 3 -> 400 [] c = 4 -> 504 [] c = 5 -> 404
    [] c = 6 -> 409 [] c = 7 -> 403 [] c = 8 -> 429 [] c = 9 -> 400 [] c = 10 -> 409 [] c = 11 -> 400
    [] c = 12 -> 501 [] c = 13 -> 500 [] c = 14 -> 503 [] c = 15 -> 500 [] c = 16 -> 401
    [] OTHER -> 500
\* WebSocket close codes (code.go): 1000 normal, 1001 going away, 1003 unsupported data, 1008 policy violation, 1011 internal error
WSStatus(c) ==
  CASE c = 0 -> 1000 [] c \in {1, 4, 6} -> 1001 [] c \in {3, 12} -> 1003 [] c = 16 -> 1008 [] OTHER -> 1011
\* Twirp specification spelling
TwirpName(c) ==
  CASE c = 1 -> "canceled" [] c = 2 -> "unknown" [] c = 3 -> "invalid_argument" [] c = 4 -> "deadline_exceeded"
    [] c = 5 -> "not_found" [] c = 6 -> "already_exists" [] c = 7 -> "permission_denied"
    [] c = 8 -> "resource_exhausted" [] c = 9 -> "failed_precondition" [] c = 10 -> "aborted"
    [] c = 11 -> "out_of_range" [] c = 12 -> "unimplemented" [] c = 13 -> "internal" [] c = 14 -> "unavailable"
    [] c = 15 -> "dataloss" [] c = 16 -> "unauthenticated" [] OTHER -> "?"

-----------------------------------------------------------------------------
(* State of one RPC *)
NoRet == [code |-> -1, msg |-> <<>>, det |-> 0]
AnyError == -2      \* "some non-OK code"

\* c: the case (proto, shape, sizes of client messages, limits, truncation)
Start(c) ==
  [ inq     |-> [i \in 1..Len(c.sent) |-> i],  \* client messages still to be received
    recvd   |-> <<>>,        \* indexes the handler received
    recvEnd |-> "none",      \* none | eof | error
    recvRes |-> <<>>,        \* result of each recv step: RR(index, "ok") | RR(0, "eof") | RR(0, "error")
    hdrPend |-> EmptyMD, hdrSent |-> FALSE, hdrOut |-> EmptyMD,
    hdrRes  |-> <<>>,        \* result of each sethdr/sendhdr step: "" or "error"
    out     |-> <<>>,        \* reply indexes sent
    sendRes |-> <<>>,        \* result of each send step
    nsend   |-> 0,
    trl     |-> EmptyMD,
    ret     |-> NoRet,
    stats   |-> <<"tag", "inheader", "begin">> ]

RR(i, r) == [i |-> i, r |-> r]     \* result of one recv: message index, or end / error

Flush(s) == IF s.hdrSent THEN s
            ELSE [s EXCEPT !.hdrSent = TRUE, !.hdrOut = s.hdrPend, !.stats = Append(@, "outheader")]

\* a: [op, md, size, code, msg, det].  c gives limits: c.maxrecv / c.maxsend (0 = default, unbounded here),
\* c.sent[i] = encoded size of client message i, c.replies[j] = encoded size of reply j, c.trunc
Apply(c, s, a) ==
  CASE a.op = "sethdr" ->
         IF s.hdrSent THEN [s EXCEPT !.hdrRes = Append(@, "error")]
         ELSE [s EXCEPT !.hdrPend = Join(@, a.md), !.hdrRes = Append(@, "")]
    [] a.op = "sendhdr" ->
         IF s.hdrSent THEN [s EXCEPT !.hdrRes = Append(@, "error")]
         ELSE [Flush([s EXCEPT !.hdrPend = Join(@, a.md)]) EXCEPT !.hdrRes = Append(s.hdrRes, "")]
    [] a.op = "settrl" -> [s EXCEPT !.trl = Join(@, a.md)]
    [] a.op = "recv" ->
         LET r == IF s.recvEnd # "none" THEN [s EXCEPT !.recvRes = Append(@, RR(0, s.recvEnd))]
                  ELSE IF s.inq # <<>> THEN
                    LET i == Head(s.inq) IN
                    IF c.maxrecv > 0 /\ c.sent[i] > c.maxrecv
                    THEN [s EXCEPT !.recvEnd = "error", !.recvRes = Append(@, RR(0, "error"))]
                    ELSE [s EXCEPT !.inq = Tail(@), !.recvd = Append(@, i), !.recvRes = Append(@, RR(i, "ok")),
                                   !.stats = Append(@, "inpayload")]
                  ELSE IF c.trunc THEN [s EXCEPT !.recvEnd = "error", !.recvRes = Append(@, RR(0, "error"))]
                  ELSE [s EXCEPT !.recvEnd = "eof", !.recvRes = Append(@, RR(0, "eof"))] IN
         \* a method without a client stream reads its one request before the handler body runs: if that read
         \* fails the call ends there with an error (AnyError: the code is the transport's choice)
         IF ~ClientStreams(c.shape) /\ r.recvEnd # "none" THEN [r EXCEPT !.ret = [code |-> AnyError, msg |-> <<>>, det |-> 0]] ELSE r
    [] a.op = "send" ->
         LET j == s.nsend + 1
             \* a unary method only produces its reply here; it is sent (and the headers with it) on return
             f == IF c.shape = "unary" THEN s ELSE Flush(s) IN
         IF c.maxsend > 0 /\ c.replies[j] > c.maxsend
         THEN [f EXCEPT !.nsend = j, !.sendRes = Append(@, "error")]
         ELSE [f EXCEPT !.nsend = j, !.out = Append(@, j), !.sendRes = Append(@, ""),
                        !.stats = IF c.shape = "unary" THEN @ ELSE Append(@, "outpayload")]
    \* (1001..1003: the handler returns a plain Go error - io.EOF, context.Canceled, errors.New - not a status:
    \* every transport reports it as Unknown)
    [] a.op = "ret" -> [s EXCEPT !.ret = [code |-> IF a.code \in 1001..1003 THEN 2 ELSE a.code, msg |-> a.msg, det |-> a.det]]
    [] OTHER -> s

RECURSIVE Run(_, _, _, _)
Run(c, s, script, k) == IF k > Len(script) \/ s.ret # NoRet THEN s
                        ELSE Run(c, Apply(c, s, script[k]), script, k + 1)

\* the state when the handler has returned (a script without ret returns OK)
Final(c) ==
  LET s0 == Run(c, Start(c), c.script, 1)
      s == IF s0.ret = NoRet THEN [s0 EXCEPT !.ret = [code |-> 0, msg |-> <<>>, det |-> 0]] ELSE s0 IN
  \* a unary method that succeeds has its reply sent now: headers first, then the message
  IF c.shape = "unary" /\ s.ret.code = 0
  THEN [Flush(s) EXCEPT !.stats = Append(Flush(s).stats, "outpayload")]
  ELSE s

-----------------------------------------------------------------------------
(* What the client must observe *)
Failed(s) == s.ret.code # 0
\* A unary method replies by returning: one reply iff it succeeds (the last one it produced).
\* Stream handlers reply by sending: whatever they sent is on the wire, also when they then fail.
RepliesSeen(c, s) ==
  IF c.shape = "unary"
  THEN (IF Failed(s) THEN <<>> ELSE IF s.out = <<>> THEN <<1>> ELSE <<s.out[Len(s.out)]>>)
  ELSE s.out

View(c) ==
  LET s == Final(c) IN
  [ msgs    |-> RepliesSeen(c, s),
    code    |-> s.ret.code, msg |-> s.ret.msg, det |-> IF Failed(s) THEN s.ret.det ELSE 0,
    hdr     |-> FilterOut(IF s.hdrSent THEN s.hdrOut ELSE s.hdrPend),
    trl     |-> FilterOut(s.trl),
    sentAny |-> s.out # <<>>,
    sent    |-> IF c.shape = "unary" THEN RepliesSeen(c, s) ELSE s.out,   \* replies that went through SendMsg
    recvRes |-> s.recvRes, hdrRes |-> s.hdrRes, sendRes |-> s.sendRes,
    recvd   |-> s.recvd,
    stats   |-> s.stats,
    failed  |-> Failed(s) ]

-----------------------------------------------------------------------------
(* Exploration of scripts: the handler API used in every order it allows *)
CONSTANTS GenProtos, GenShapes, MaxSteps, MDs, TrlMDs, Codes, SentChoices, SendSizes

VARIABLES rc      \* the case under construction: [proto, shape, sent, script, ...]
rvars == <<rc>>

Act(op, md, size, code, msg, det) == [op |-> op, md |-> md, size |-> size, code |-> code, msg |-> msg, det |-> det]
HandlerActs(sh) ==
  {Act("sethdr", m, 0, 0, <<>>, 0) : m \in MDs} \cup {Act("sendhdr", EmptyMD, 0, 0, <<>>, 0)}
  \cup {Act("settrl", m, 0, 0, <<>>, 0) : m \in TrlMDs}
  \cup (IF ClientStreams(sh) THEN {Act("recv", EmptyMD, 0, 0, <<>>, 0)} ELSE {})
  \cup {Act("send", EmptyMD, z, 0, <<>>, 0) : z \in SendSizes}
  \cup {Act("ret", EmptyMD, 0, cd, IF cd = 0 THEN <<>> ELSE <<"plain", "plain">>, 0) : cd \in Codes}

MkCase(p, sh, sent) == [proto |-> p, shape |-> sh, sent |-> sent, script |-> <<>>,
                        maxrecv |-> 0, maxsend |-> 0, trunc |-> FALSE, replies |-> <<>>]
Init == rc \in {MkCase(p, sh, sent) : p \in GenProtos, sh \in GenShapes, sent \in SentChoices}

Done(c) == c.script # <<>> /\ c.script[Len(c.script)].op = "ret"
NSends(c) == Cardinality({k \in DOMAIN c.script : c.script[k].op = "send"})
Step(a) ==
  /\ ~Done(rc) /\ Len(rc.script) < MaxSteps
  \* the unary shapes reply once, by returning
  /\ (a.op = "send" /\ ~ServerStreams(rc.shape)) => NSends(rc) = 0
  /\ rc' = [rc EXCEPT !.script = Append(@, a),
                      !.replies = IF a.op = "send" THEN Append(@, a.size) ELSE @]
Next == \E a \in HandlerActs(rc.shape) : Step(a)
Spec == Init /\ [][Next]_rvars

-----------------------------------------------------------------------------
(* Design-level invariants of the state machine *)
\* metadata set before the header flush is what the client is promised; later sets are refused
HeadersOnce ==
  LET s == Final(rc) IN
  /\ Cardinality({k \in DOMAIN s.stats : s.stats[k] = "outheader"}) <= 1
  /\ \A k \in DOMAIN s.stats : s.stats[k] = "outpayload" =>
        \E j \in 1..(k - 1) : s.stats[j] = "outheader"
\* the handler never receives more than was sent, in order, and eof only after everything
RecvPrefix ==
  LET s == Final(rc) IN
  /\ s.recvd = [i \in 1..Len(s.recvd) |-> i]
  /\ s.recvEnd = "eof" => Len(s.recvd) = Len(rc.sent)
\* a failing unary-reply method shows no reply
NoReplyOnFailure == LET v == View(rc) IN (v.failed /\ rc.shape = "unary") => v.msgs = <<>>
StatsShape ==
  LET st == Final(rc).stats IN
  /\ Len(st) >= 3 /\ st[1] = "tag" /\ st[2] = "inheader" /\ st[3] = "begin"
  /\ \A k \in 4..Len(st) : st[k] \in {"inpayload", "outheader", "outpayload"}
=============================================================================
