SPECIFICATION Spec
CONSTANTS
  Codec = "proto"
  Streams <- MCStreams
  Limit = 3
  MaxChunk = 6
  EofDropsData = TRUE
  PhantomOnEof = FALSE
  CountCarry = TRUE
  Sizes = {0, 1, 2, 3, 4}
  MaxFrames = 3
  Trunc = TRUE
INVARIANTS FragmentationInvariant AllReturned ByteConservation LimitSafe NoPhantom
CHECK_DEADLOCK FALSE
