SPECIFICATION Spec
CONSTANTS
  Scripts <- AllScripts
  Direct = FALSE
  ForwardHalfClose = TRUE
  JoinBeforeError = FALSE
  NeedFirstMessage = FALSE
  InterruptibleRecv = TRUE
  FirstSendEOFFatal = FALSE
INVARIANTS TranscriptEquivalence BackendSawPrefix BackendSawAll NoPumpOutlivesHandler
PROPERTY Finishes
