SPECIFICATION Spec
CONSTANTS
  Scripts <- AllScripts
  Direct = FALSE
  ForwardHalfClose = TRUE
  NeedFirstMessage = FALSE
INVARIANTS TranscriptEquivalence BackendSawPrefix BackendSawAll NoPumpOutlivesHandler
PROPERTY Finishes
