SPECIFICATION Spec
CONSTANTS
  Codec = "body"
  Streams <- NoStreams
  Limit = 2
  MaxChunk = 6
  EofDropsData = FALSE
  PhantomOnEof = FALSE
  CountCarry = TRUE
  Sizes = {0, 1, 2, 3, 5}
  MaxFrames = 3
  Trunc = TRUE
CHECK_DEADLOCK FALSE
