---------------------------- MODULE WsSession_Gen ----------------------------
(***************************************************************************)
(* Sessions for the conformance driver: every frame sequence of length <= 2 *)
(* over the whole alphabet (a partial frame only as the last one), and      *)
(* every sequence of GenLo..GenHi frames over the part of the alphabet that *)
(* keeps a session going (whole and fragmented messages, continuations in   *)
(* and out of place, pings), each followed by every way of ending in Terms. *)
(***************************************************************************)
EXTENDS WsSession, Json
CONSTANTS GenLo, GenHi, Terms
Going == {"T", "Ts", "Bs", "Cm", "Ce", "Pi"}
Seqs(S, n) == [1..n -> S]
Short == {<<>>} \cup Seqs(Frames, 1) \cup {q \in Seqs(Frames, 2) : q[1] \notin Parts}
Long == UNION {{g \o t : g \in Seqs(Going, n), t \in Terms} : n \in GenLo..GenHi}
TermsQuick == {<<>>, <<"Part2">>, <<"Cl1000">>, <<"ClNone", "T">>, <<"Cl1011">>, <<"J">>, <<"Utf8", "T">>}
TermsBig == {<<>>, <<"Cl1000">>, <<"Cl1001">>, <<"ClNone", "T">>, <<"Cl1002">>, <<"Cl1011">>, <<"Cl4000">>, <<"J">>, <<"Jnull">>, <<"Utf8", "T">>,
             <<"Unmasked">>, <<"Rsv">>, <<"Op3", "T">>, <<"OpB">>, <<"PiFrag">>, <<"PiLong">>, <<"Part1">>, <<"Part2">>, <<"PartM">>, <<"PartP">>, <<"B", "Po", "Cl1000">>}
ASSUME \A q \in Short \cup Long : PrintT(<<"CASE", ToJson([frames |-> q])>>)
=============================================================================
