SPECIFICATION Spec
CONSTANTS
  MaxLen = 5
  ContNeedsStart = TRUE
  CloseEndsLatched = TRUE
INVARIANTS TypeOK NoPhantom Ordered NoDrop EndJustified
PROPERTIES Latched
CHECK_DEADLOCK FALSE
