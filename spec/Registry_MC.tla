---------------------------- MODULE Registry_MC ----------------------------
EXTENDS Registry
MCServes == ("local" :> {"A.m1", "A.m2"}) @@ ("c1" :> {"A.m1", "A.m2"}) @@ ("c2" :> {"B.m1"})
MCOps == ("w1" :> << [op |-> "register", b |-> "local", failAt |-> 0],
                     [op |-> "failing", b |-> "c2", failAt |-> 3],
                     [op |-> "drop", b |-> "local", failAt |-> 0] >>)
         @@ ("w2" :> << [op |-> "register", b |-> "c1", failAt |-> 0],
                        [op |-> "drop", b |-> "c1", failAt |-> 0] >>)
=============================================================================
