------------------------------ MODULE Framing ------------------------------
(***************************************************************************)
(* Stream framing: a sequence of messages written with a stream codec's    *)
(* WriteNext and read back with repeated ReadNext calls from a reader that *)
(* fragments the bytes arbitrarily (C17; the same machine sits under the   *)
(* HTTP stream reader for C06 and carries the size limit of C08).          *)
(*                                                                         *)
(* Bytes are naturals.  Three codecs:                                      *)
(*   "proto" varint length prefix + payload      (codec.go CodecProto)     *)
(*   "json"  one JSON object, brace-delimited    (codec.go CodecJSON)      *)
(*   "body"  raw bytes cut into chunks of Limit  (codec.go codecHTTPBody)  *)
(*                                                                         *)
(* Property-level layer: Expected(...) -- what each ReadNext call must     *)
(* return as a function of the byte stream alone.                          *)
(* Mechanism-level layer: the read loops at the grain of one r.Read per    *)
(* step, written as they are meant to work; TLC checks for every chunk     *)
(* schedule that the calls return exactly Expected.                        *)
(***************************************************************************)
EXTENDS FramingLib

CONSTANTS
  Codec,          \* "proto" | "json" | "body"
  Streams,        \* set of [frames: Seq([pre: Seq(Nat), body: Seq(Nat)]), cut: Nat] : cut = bytes kept (truncation)
  Limit,          \* the limit passed to ReadNext
  MaxChunk,       \* largest chunk the reader returns in one Read
  EofDropsData,   \* Neg switch: data returned together with io.EOF is dropped
  PhantomOnEof,   \* Neg switch: end of input on an empty buffer yields an empty message
  CountCarry      \* mechanism switch ("body"): bytes carried over count towards the chunk

ExpectedOne(r) == ExpectedOneP(Codec, Limit, r)
Consumed(r, res) == ConsumedP(Codec, r, res)
ExpectedFrom(r) == ExpectedFromP(Codec, Limit, r)

-----
(* Mechanism-level layer: one step per r.Read *)

VARIABLES st,        \* the stream under test (chosen once)
          rpos,      \* bytes the reader has handed out
          rerr,      \* the reader has reported io.EOF
          cb,        \* the codec's buffer: carry-over plus bytes read during the current call
          fresh,     \* bytes read during the current call ("body" accounting)
          results,   \* results of the calls made so far
          phase      \* "call" (inside ReadNext) | "done"
fvars == <<st, rpos, rerr, cb, fresh, results, phase>>

Init == /\ st \in Streams /\ rpos = 0 /\ rerr = FALSE /\ cb = <<>> /\ fresh = 0
        /\ results = <<>> /\ phase = "call"

\* decision of the codec on its current buffer: "more" or a result
Decide ==
  IF Codec = "proto" THEN
    LET pl == PrefixLen(cb) IN
    IF pl = -1 THEN Res("error", <<>>)
    ELSE IF pl = 0 THEN
      (IF rerr THEN (IF cb = <<>> THEN (IF PhantomOnEof THEN Res("msg", <<>>) ELSE Res("eof", <<>>))
                     ELSE Res("error", <<>>))
       ELSE Res("more", <<>>))
    ELSE LET p == Take(cb, pl) IN
         IF Huge(p) \/ Value(p) > Limit THEN Res("error", <<>>)
         ELSE IF Len(cb) - pl >= Value(p) THEN Res("msg", SubSeq(cb, pl + 1, pl + Value(p)))
         ELSE IF rerr THEN Res("error", <<>>) ELSE Res("more", <<>>)
  ELSE IF Codec = "json" THEN
    LET win == Take(cb, Limit)   e == ObjEnd(win) IN
    IF e = -1 THEN Res("error", <<>>)
    ELSE IF e > 0 THEN Res("msg", Take(cb, e))
    ELSE IF Len(cb) >= Limit THEN Res("error", <<>>)
    ELSE IF rerr THEN (IF \A k \in DOMAIN cb : cb[k] = 32
                       THEN (IF PhantomOnEof THEN Res("msg", <<>>) ELSE Res("eof", <<>>))
                       ELSE Res("error", <<>>))
    ELSE Res("more", <<>>)
  ELSE \* "body": a chunk is complete at Limit bytes or at end of input
    LET have == IF CountCarry THEN Len(cb) ELSE fresh IN
    IF have >= Limit THEN Res("msg", Take(cb, Limit))
    ELSE IF rerr THEN (IF cb = <<>> THEN Res("eof", <<>>)
                       ELSE Res("last", Take(cb, IF CountCarry THEN Len(cb) ELSE fresh)))
    ELSE Res("more", <<>>)

\* bytes the loop asks for: exactly the missing payload once the size is known ("proto"),
\* otherwise whatever the buffer has room for (any positive amount)
Want ==
  IF Codec = "proto" /\ PrefixLen(cb) > 0
  THEN Value(Take(cb, PrefixLen(cb))) - (Len(cb) - PrefixLen(cb))
  ELSE MaxChunk

\* the reader returns k bytes, possibly together with io.EOF when they are the last
Read(k, withEof) ==
  /\ phase = "call" /\ Decide.k = "more" /\ ~rerr
  /\ LET w == Wire(st) IN
       /\ k \in 0..Min(Min(MaxChunk, Want), Len(w) - rpos)
       /\ (k = 0 => rpos = Len(w) /\ withEof)                 \* (0, io.EOF) only at the end
       /\ (withEof => rpos + k = Len(w))
       /\ cb' = IF withEof /\ EofDropsData THEN cb ELSE cb \o SubSeq(w, rpos + 1, rpos + k)
       /\ fresh' = fresh + k
       /\ rpos' = rpos + k /\ rerr' = withEof
  /\ UNCHANGED <<st, results, phase>>

\* ReadNext returns; the caller keeps dst[n:] for the next call
Return ==
  /\ phase = "call" /\ Decide.k # "more"
  /\ LET res == Decide IN
       /\ results' = Append(results, res)
       /\ cb' = IF res.k \in {"msg", "last"}
                THEN Drop(cb, (IF Codec = "proto" THEN PrefixLen(cb) ELSE 0) + Len(res.msg)) ELSE cb
       /\ phase' = IF res.k = "msg" THEN "call" ELSE "done"
       /\ fresh' = 0
  /\ UNCHANGED <<st, rpos, rerr>>

Next == Return \/ \E k \in 0..MaxChunk, e \in BOOLEAN : Read(k, e)
Spec == Init /\ [][Next]_fvars

-----------------------------------------------------------------------------
(* Invariants *)
Expected == ExpectedFrom(Wire(st))

\* every prefix of calls agrees with the schedule-independent expectation
FragmentationInvariant ==
  /\ Len(results) <= Len(Expected)
  /\ \A i \in DOMAIN results : results[i] = Expected[i]
AllReturned == phase = "done" => Len(results) = Len(Expected)
\* no byte is lost: delivered + buffered + not yet read = the wire
ByteConservation ==
  LET used == Flat([i \in DOMAIN results |->
                     IF results[i].k \in {"msg", "last"} THEN results[i].msg ELSE <<>>]) IN
  Codec \in {"json", "body"} => (phase = "call" => used \o cb \o Drop(Wire(st), rpos) = Wire(st))
LimitSafe == \A i \in DOMAIN results : results[i].k \in {"msg", "last"} => Len(results[i].msg) <= Limit
NoPhantom == Cardinality({i \in DOMAIN results : results[i].k \in {"msg", "last"}})
               <= Cardinality({i \in DOMAIN Expected : Expected[i].k \in {"msg", "last"}})
=============================================================================
