---------------------------- MODULE TranscodeTrace ----------------------------
(***************************************************************************)
(* Trace validation for transcoding (C03, C04, C07).                       *)
(*  Tc   : one request built as Transcode.tla prescribes, with concrete    *)
(*         fields and values chosen by the driver; what the real handler    *)
(*         received, projected back to value tags per role.                 *)
(*  Resp : one unary reply under an Accept header, what the client got.     *)
(***************************************************************************)
EXTENDS Transcode, Json, IOUtils
Trace == ndJsonDeserialize(IOEnv.TRACE)
VARIABLES l, failed, stat
tvars == <<l, failed, stat, tc>>
Stat0 == [tcs |-> 0, competing |-> 0, invalid |-> 0, delivered |-> 0, rejected |-> 0, crashes |-> 0,
          resps |-> 0, negotiated |-> 0, defaulted |-> 0, httpbody |-> 0, respbody |-> 0]
TInit == l = 1 /\ failed = {} /\ stat = Stat0 /\ tc = 0

CaseOf(e) == [body |-> e.c.body, npath |-> e.c.npath, present |-> {e.c.present[k] : k \in DOMAIN e.c.present},
              compQ |-> e.c.compQ, compB |-> e.c.compB]

JudgeTc(e) ==
  LET c == CaseOf(e)
      want == Received(c)      \* ParamOrder is "path-last" in the trace configuration
  IN
  IF e.crash # "" THEN {"Crash"}
  ELSE IF e.c.invalid # "" THEN (IF e.delivered THEN {"RejectInvalid"} ELSE {})
  ELSE IF ~e.delivered THEN {"Undelivered"}
  ELSE (IF \E r \in PathBound(c) : e.tags[r] # "true" THEN {"PathAuthoritative"} ELSE {})
       \cup (IF ~Competing(c) /\ ~e.equal THEN {"Reassembly"} ELSE {})
       \cup (IF \E r \in Roles \ PathBound(c) : e.tags[r] # want[r] THEN {"OthersIntact"} ELSE {})

TTc ==
  /\ l <= Len(Trace) /\ Trace[l].ev = "Tc"
  /\ LET e == Trace[l] IN
       /\ failed' = failed \cup {<<e.case, l, f>> : f \in JudgeTc(e)}
       /\ stat' = [stat EXCEPT !.tcs = @ + 1,
                               !.competing = @ + (IF e.c.compQ \/ e.c.compB THEN 1 ELSE 0),
                               !.invalid = @ + (IF e.c.invalid # "" THEN 1 ELSE 0),
                               !.delivered = @ + (IF e.delivered THEN 1 ELSE 0),
                               !.rejected = @ + (IF ~e.delivered /\ e.crash = "" THEN 1 ELSE 0),
                               !.crashes = @ + (IF e.crash # "" THEN 1 ELSE 0)]
  /\ l' = l + 1 /\ UNCHANGED tc

\* a request that names a content type nobody registered and whose Accept admits no registered type either has no
\* codec for its reply: whatever error it gets is not C04's business
\* (a google.api.HttpBody reply needs no codec: it travels raw under its own content type)
NoCodecAtAll(e) == e.kind # "httpbody" /\ e.reqct \notin Offers /\ Admitted(e.accept) = {}
JudgeResp(e) ==
  IF e.crash # "" THEN {"ResponseDecodable"}
  ELSE IF NoCodecAtAll(e) THEN {}
  ELSE IF e.status # 200 THEN {"ResponseDecodable"}
  ELSE (IF e.kind # "httpbody" /\ e.ct \notin AllowedResponseTypes(e.accept, e.reqct) THEN {"AcceptAdmits"} ELSE {})
       \cup (IF ~e.decoded THEN {IF e.kind = "httpbody" THEN "HttpBodyRaw" ELSE IF e.respbody # "" THEN "ResponseBodySelects" ELSE "ResponseDecodable"} ELSE {})
       \cup (IF e.kind = "httpbody" /\ e.ct # e.wantct THEN {"HttpBodyRaw"} ELSE {})
       \cup (IF ~e.cetruthful THEN {"EncodingTruthful"} ELSE {})

TResp ==
  /\ l <= Len(Trace) /\ Trace[l].ev = "Resp"
  /\ LET e == Trace[l] IN
       /\ failed' = failed \cup {<<e.case, l, f>> : f \in JudgeResp(e)}
       /\ stat' = [stat EXCEPT !.resps = @ + 1,
                               !.negotiated = @ + (IF Admitted(e.accept) # {} THEN 1 ELSE 0),
                               !.defaulted = @ + (IF Admitted(e.accept) = {} THEN 1 ELSE 0),
                               !.httpbody = @ + (IF e.kind = "httpbody" THEN 1 ELSE 0),
                               !.respbody = @ + (IF e.respbody # "" THEN 1 ELSE 0)]
  /\ l' = l + 1 /\ UNCHANGED tc

TSpec == TInit /\ [][TTc \/ TResp]_tvars
Report == l > Len(Trace) =>
            PrintT(<<"REPORT", ToJson([consumed |-> l - 1, len |-> Len(Trace), failed |-> failed, stat |-> stat])>>)
=============================================================================
