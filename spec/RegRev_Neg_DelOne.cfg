SPECIFICATION Spec
CONSTANTS
  MaxOps = 6
  DelAll = FALSE
INVARIANTS TypeOK Exact
CHECK_DEADLOCK FALSE
