------------------------------ MODULE Rpc_MC ------------------------------
EXTENDS Rpc, Json
MCMDs == { ("x-a" :> <<"1">>), ("x-a" :> <<"2", "3">>), ("x-b-bin" :> <<"00ff10">>),
           ("grpc-status" :> <<"0">>) @@ ("content-type" :> <<"text/evil">>) }
MCTrl == { ("x-t" :> <<"9">>), ("x-u-bin" :> <<"fe">>), ("grpc-message" :> <<"forged">>) }
MCSent == { <<>>, <<3>>, <<0, 5>> }
\* JSON form of a finished case
CaseJson(c) == ToJson([proto |-> c.proto, shape |-> c.shape, sizes |-> c.sent,
                       script |-> [k \in DOMAIN c.script |->
                          LET a == c.script[k] IN
                          [op |-> a.op, md |-> a.md, size |-> a.size, code |-> a.code, msg |-> a.msg, det |-> a.det]]])
Emit == Done(rc) => PrintT(<<"CASE", CaseJson(rc)>>)
=============================================================================
