SPECIFICATION Spec
CONSTANTS MaxSels = 2
INVARIANTS Emit
CHECK_DEADLOCK FALSE
