------------------------------ MODULE PoolTrace ------------------------------
(* Retain events of the concurrent driver: what handlers kept (HttpBody chunk  *)
(* data, received messages) is re-digested after the whole concurrent mix has  *)
(* cycled the pools; it must be unchanged and uploads must be byte-complete.   *)
EXTENDS Integers, Sequences, FiniteSets, TLC, Json, IOUtils
Trace == ndJsonDeserialize(IOEnv.TRACE)
VARIABLES l, failed, stat
tvars == <<l, failed, stat>>
TInit == l = 1 /\ failed = {} /\ stat = [retains |-> 0, chunks |-> 0, bytes |-> 0]
TRetain ==
  /\ l <= Len(Trace) /\ Trace[l].ev = "Retain"
  /\ LET e == Trace[l]
         bad == (IF e.crash # "" THEN {"Crash"} ELSE {})
                \cup (IF ~e.stable THEN {"RetainedStable"} ELSE {})
                \cup (IF ~e.concat /\ e.mode \notin {"broken", "brokendata"} THEN {"UploadComplete"} ELSE {})
                \* an upload that breaks off inside a chunk ends with an error for the handler, never with a clean end of
                \* stream after a partial chunk (C06 truncation clause, C15 disconnect clause)
                \cup (IF e.mode \in {"broken", "brokendata"} /\ e.crash = "" /\ e.end # "error" THEN {"BrokenUploadIsError"} ELSE {})
                \cup (IF e.overlimit THEN {"ChunkLimit"} ELSE {})
                \* (C18) the stats handler of the mux saw the upload as the handler did: one in-payload event per chunk
                \* message received, one out-payload event for the reply, one begin and one end
                \cup (IF e.mode # "download" /\ e.crash = "" /\ e.concat
                          /\ (e.inpayloads # e.chunks \/ e.outpayloads # 1 \/ e.begins # 1 \/ e.ends # 1)
                      THEN {"UploadStats"} ELSE {})
     IN /\ failed' = failed \cup {<<e.case, l, f>> : f \in bad}
        /\ stat' = [stat EXCEPT !.retains = @ + 1, !.chunks = @ + e.chunks, !.bytes = @ + e.bytes]
  /\ l' = l + 1
\* a proxied gzip upload whose backend failed while the client was still sending, then another gzip upload on the same
\* mux: the second call's backend receives exactly the second call's messages (C13: nothing of one request reaches another,
\* also when the first one's forwarder has not finished with its body yet)
TOverlap ==
  /\ l <= Len(Trace) /\ Trace[l].ev = "Overlap"
  /\ LET e == Trace[l]
         bad == IF e.crash # "" THEN {"Crash"}
                ELSE IF e.status = 200 /\ e.got = e.sent THEN {} ELSE {"IsolatedAfterBackendFailure"}
     IN /\ failed' = failed \cup {<<e.case, l, f>> : f \in bad}
        /\ stat' = [stat EXCEPT !.retains = @ + 1]
  /\ l' = l + 1
TSpec == TInit /\ [][TRetain \/ TOverlap]_tvars
Report == l > Len(Trace) =>
            PrintT(<<"REPORT", ToJson([consumed |-> l - 1, len |-> Len(Trace), failed |-> failed, stat |-> stat])>>)
=============================================================================
