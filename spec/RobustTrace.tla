----------------------------- MODULE RobustTrace -----------------------------
(***************************************************************************)
(* Trace validation for C09.  Three kinds of event from the hostile driver: *)
(*  Entry   - a concretisation of an abstract request of Entry.tla: the      *)
(*            recorded response must have the shape Entry!Resp gives;       *)
(*  Hostile - a request from the generated adversarial neighbourhood (and   *)
(*            byte-level mutants): control returned, with an HTTP status,   *)
(*            and a gRPC-shaped 200 holds whole frames;                     *)
(*  Ws      - a WebSocket session over a real socket: the handler returned, *)
(*            an HTTP answer came, and every frame the server wrote after   *)
(*            the upgrade is a well-formed server frame.                    *)
(* There is no action for a panic or a hang: such an event fails NoCrash /  *)
(* NoHang whatever else it says.                                            *)
(***************************************************************************)
EXTENDS Entry, Json, IOUtils
Trace == ndJsonDeserialize(IOEnv.TRACE)
VARIABLES l, failed, stat
tvars == <<l, failed, stat, rq, pc, resp, invoked, asWeb>>
Stat0 == [events |-> 0, entry |-> 0, hostile |-> 0, ws |-> 0, upgraded |-> 0, handlerRan |-> 0, crashes |-> 0,
          plain |-> 0, grpc |-> 0, web |-> 0, http |-> 0, httperr |-> 0, upgrade |-> 0, expired |-> 0]
\* (Entry's own variables are not used here: the decision is taken through Entry!Resp)
TInit == /\ l = 1 /\ failed = {} /\ stat = Stat0
         /\ rq = [h2 |-> FALSE, ct |-> "none", meth |-> "GET", genc |-> "", to |-> "", path |-> "none", upg |-> FALSE]
         /\ pc = "done" /\ resp = NoResp /\ invoked = 0 /\ asWeb = FALSE

Prefix(p, x) == Len(x) >= Len(p) /\ SubSeq(x, 1, Len(p)) = p
Crashed(e) == Prefix("panic", e.crash)
Basic(e) == (IF Crashed(e) THEN {"NoCrash"} ELSE {}) \cup (IF e.crash = "hang" THEN {"NoHang"} ELSE {})
            \cup (IF Prefix("infra", e.crash) THEN {"Infra"} ELSE {})

EntryShape(e, w) ==
  CASE w.class = "plain"   -> e.status = w.status /\ e.invoked = 0
    [] w.class = "grpc"    -> e.status = 200 /\ e.ct = "grpc" /\ e.grpcstatus >= 0 /\ e.framesok /\ e.invoked = 1
    [] w.class = "web"     -> e.status = 200 /\ e.ct \in {"web", "webtext"} /\ e.grpcstatus >= 0 /\ e.framesok /\ e.invoked = 1
    [] w.class = "http"    -> e.status = 200 /\ e.ct \in {"json", "proto"} /\ e.invoked = 1
    [] w.class = "httperr" -> (IF w.status = 0 THEN e.status >= 400 /\ e.status <= 599 ELSE e.status = w.status /\ e.invoked = 0)
                              /\ e.errbody = "status"
    [] w.class = "upgrade" -> e.status >= 100 /\ e.status <= 599 /\ e.invoked = 0     \* (the recorder cannot be hijacked)
    [] w.class = "expired" -> e.status = 200
    [] OTHER -> FALSE

JudgeEntry(e) ==
  LET w == Resp(e.rq) IN
  Basic(e) \cup (IF ~Crashed(e) /\ e.crash = "" /\ ~EntryShape(e, w) THEN {"EntryShape"} ELSE {})
           \cup (IF w # e.want THEN {"drift"} ELSE {})
JudgeHostile(e) ==
  Basic(e) \cup (IF e.crash = "" /\ ~(e.status = -1 \/ (e.status >= 100 /\ e.status <= 599)) THEN {"StatusLine"} ELSE {})
           \cup (IF e.crash = "" /\ e.status = 200 /\ e.ct \in {"grpc", "web", "webtext"} /\ ~e.framesok THEN {"FramesWhole"} ELSE {})
BadFrames(e) == {k \in DOMAIN e.frames : Prefix("bad:", e.frames[k])}
JudgeWs(e) ==
  Basic(e) \cup (IF e.crash = "" /\ ~e.returned THEN {"NoHang"} ELSE {})
           \cup (IF e.crash = "" /\ ~(e.status >= 100 /\ e.status <= 599) THEN {"StatusLine"} ELSE {})
           \cup (IF e.upgraded /\ BadFrames(e) # {} THEN {"WsFrames"} ELSE {})

TEvent ==
  /\ l <= Len(Trace)
  /\ LET e == Trace[l]
         bad == CASE e.ev = "Entry" -> JudgeEntry(e) [] e.ev = "Hostile" -> JudgeHostile(e) [] e.ev = "Ws" -> JudgeWs(e) [] OTHER -> {"UnknownEvent"}
         cls == IF e.ev = "Entry" THEN Resp(e.rq).class ELSE "none" IN
       /\ failed' = failed \cup {<<e.case, l, f>> : f \in bad}
       /\ stat' = [stat EXCEPT !.events = @ + 1, !.entry = @ + (IF e.ev = "Entry" THEN 1 ELSE 0),
                     !.hostile = @ + (IF e.ev = "Hostile" THEN 1 ELSE 0), !.ws = @ + (IF e.ev = "Ws" THEN 1 ELSE 0),
                     !.upgraded = @ + (IF e.upgraded THEN 1 ELSE 0), !.handlerRan = @ + (IF e.invoked > 0 THEN 1 ELSE 0),
                     !.crashes = @ + (IF e.crash # "" THEN 1 ELSE 0),
                     !.plain = @ + (IF cls = "plain" THEN 1 ELSE 0), !.grpc = @ + (IF cls = "grpc" THEN 1 ELSE 0),
                     !.web = @ + (IF cls = "web" THEN 1 ELSE 0), !.http = @ + (IF cls = "http" THEN 1 ELSE 0),
                     !.httperr = @ + (IF cls = "httperr" THEN 1 ELSE 0), !.upgrade = @ + (IF cls = "upgrade" THEN 1 ELSE 0),
                     !.expired = @ + (IF cls = "expired" THEN 1 ELSE 0)]
  /\ l' = l + 1 /\ UNCHANGED evars
TSpec == TInit /\ [][TEvent]_tvars
Report == l > Len(Trace) =>
            PrintT(<<"REPORT", ToJson([consumed |-> l - 1, len |-> Len(Trace), failed |-> failed, stat |-> stat])>>)
=============================================================================
