SPECIFICATION Spec
CONSTANTS
  MaxOps = 0
  DelAll = TRUE
  GenLen = 5
CHECK_DEADLOCK FALSE
