SPECIFICATION CSpec
CONSTANTS
  Shapes = {"unary", "cstream", "sstream", "bidi"}
  Points = {"running", "blockedRecv", "blockedSend", "returned"}
INVARIANTS NoSpuriousDone
PROPERTY CancelReleases
CHECK_DEADLOCK FALSE
