SPECIFICATION TSpec
CONSTANTS WebFirst = TRUE
INVARIANTS Report
CHECK_DEADLOCK FALSE
