SPECIFICATION HSpec
CONSTANTS MaxLen = 5
INVARIANTS Emit DroppedNotLive
CHECK_DEADLOCK FALSE
