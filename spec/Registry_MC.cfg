SPECIFICATION FSpec
CONSTANTS
  Backends = {"local", "c1", "c2"}
  Methods = {"A.m1", "A.m2", "B.m1"}
  Serves <- MCServes
  Writers = {"w1", "w2"}
  Readers = {"r1", "r2"}
  Ops <- MCOps
  CloneDepth = "deep"
  LoadsPerRequest = 1
  PublishPerMethod = FALSE
INVARIANTS PublishedImmutable AtomicVisibility NoTornAnswer
PROPERTY FailedRegNoChange
CHECK_DEADLOCK FALSE
