------------------------------ MODULE Mount_MC ------------------------------
EXTENDS Mount
P(segs, slash) == [segs |-> segs, slash |-> slash]
MCPats == {P(<<>>, TRUE), P(<<"x">>, FALSE), P(<<"x">>, TRUE), P(<<"x", "y">>, FALSE), P(<<"twirp">>, FALSE), P(<<"api">>, TRUE)}
MCExtras == {[pat |-> P(<<"metrics">>, FALSE), tag |-> "metrics"], [pat |-> P(<<"static">>, TRUE), tag |-> "static"]}
MCPaths == {<<"x", "t">>, <<"x", "y", "t">>, <<"t">>, <<"xx", "t">>, <<"metrics">>, <<"static", "a">>, <<"twirp", "s", "m">>, <<"api", "t">>, <<"other">>}
=============================================================================
