------------------------------ MODULE Mount_MC ------------------------------
EXTENDS Mount
P(segs, slash) == [segs |-> segs, slash |-> slash]
MCPats == {P(<<>>, TRUE), P(<<"x">>, FALSE), P(<<"x">>, TRUE), P(<<"x", "y">>, FALSE), P(<<"twirp">>, FALSE), P(<<"api">>, TRUE)}
MCExtrasPlain == {[pat |-> P(<<"metrics">>, FALSE), tag |-> "metrics", host |-> "", meth |-> ""],
                  [pat |-> P(<<"static">>, TRUE), tag |-> "static", host |-> "", meth |-> ""]}
MCExtras == MCExtrasPlain \cup {[pat |-> P(<<"debug">>, TRUE), tag |-> "debug", host |-> "admin.test", meth |-> ""],
                                [pat |-> P(<<"metrics2">>, FALSE), tag |-> "metrics2", host |-> "", meth |-> "GET"]}
MCPaths == {<<"x", "t">>, <<"x", "y", "t">>, <<"t">>, <<"xx", "t">>, <<"metrics">>, <<"static", "a">>, <<"twirp", "s", "m">>, <<"api", "t">>, <<"other">>}
MCReqs == [path : MCPaths \cup {<<"debug", "vars">>, <<"metrics2">>, <<"x", "debug", "vars">>}, host : {"verif.test", "admin.test"}, meth : {"GET", "POST"}]
=============================================================================
