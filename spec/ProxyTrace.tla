------------------------------ MODULE ProxyTrace ------------------------------
(***************************************************************************)
(* Trace validation for C10.  Each Proxy event is one call script executed *)
(* twice by a real grpc-go client: directly against the scripted backend   *)
(* and through larking (RegisterConn).  The direct transcript must be what  *)
(* Proxy.tla's oracle says (this validates the model of the backend and of  *)
(* grpc-go that the equivalence rests on) and the proxied transcript must   *)
(* equal it on both sides.                                                  *)
(***************************************************************************)
EXTENDS Integers, Sequences, FiniteSets, TLC, Json, IOUtils
Trace == ndJsonDeserialize(IOEnv.TRACE)
VARIABLES l, failed, stat
tvars == <<l, failed, stat>>
Stat0 == [calls |-> 0, httpCalls |-> 0, failing |-> 0, lockstep |-> 0, ctxCodes |-> 0, streaming |-> 0, zeroMsg |-> 0, waiting |-> 0]
TInit == l = 1 /\ failed = {} /\ stat = Stat0

\* the oracle of Proxy.tla, for the script of the event
LockStep(s) == s.mode = "lockstep"
BackendReads(s) == IF LockStep(s) THEN (IF s.failK = 0 THEN s.n ELSE s.failK)
                   ELSE IF s.failAt = "before" THEN 0
                   ELSE IF s.readN = 99 \/ s.failAt = "afterEOF" THEN s.n
                   ELSE IF s.readN < s.n THEN s.readN ELSE s.n
WantReplies(s) == IF LockStep(s) THEN [k \in 1..(IF s.failK = 0 THEN s.n ELSE s.failK - 1) |-> k]
                  ELSE IF s.failAt = "before" THEN <<>>
                  \* grpc-go hands a single reply to the caller only together with an OK status
                  ELSE IF s.shape \in {"unary", "cstream"} /\ s.failAt # "never" THEN <<>>
                  ELSE [k \in 1..s.replyJ |-> k]
Fails(s) == IF LockStep(s) THEN s.failK # 0 ELSE s.failAt # "never"
WantCode(s) == IF Fails(s) THEN s.code ELSE 0

DirectOK(e) ==
  LET s == e.s  d == e.direct IN
  /\ ~d.hang /\ d.replies = WantReplies(s) /\ d.code = WantCode(s)
  /\ (Fails(s) => d.msgequal /\ d.detequal)
  /\ d.bcalls = 1 /\ d.mdok
  \* the backend saw a prefix of the client's messages, at least as long as the script reads
  /\ d.bgot = [k \in 1..Len(d.bgot) |-> k] /\ Len(d.bgot) >= BackendReads(s) /\ Len(d.bgot) <= s.n

Judge(e) ==
  LET d == e.direct  p == e.proxied IN
  IF e.crash # "" THEN {"Crash"}
  ELSE IF ~DirectOK(e) THEN {"DirectModel"}
  ELSE (IF p.hang \/ p.replies # d.replies \/ p.code # d.code \/ p.msgequal # d.msgequal \/ p.detequal # d.detequal
        THEN {"TranscriptEquivalence"} ELSE {})
       \cup (IF ~p.hang /\ (p.bcalls # d.bcalls \/ Len(p.bgot) < BackendReads(e.s) \/ p.bgot # [k \in 1..Len(p.bgot) |-> k]
                            \/ Len(p.bgot) > e.s.n)
             THEN {"BackendSaw"} ELSE {})
       \cup (IF ~p.hang /\ p.bcalls = 1 /\ ~p.mdok THEN {"RequestMetadata"} ELSE {})

\* the same script from an HTTP/JSON client on the front: same replies, same final status, same backend view
JudgeHTTP(e) ==
  LET d == e.direct  h == e.http IN
  IF ~e.hashttp \/ e.crash # "" \/ ~DirectOK(e) THEN {}
  ELSE (IF h.hang \/ h.err # "" \/ h.replies # d.replies \/ h.code # d.code \/ h.msgequal # d.msgequal \/ h.detequal # d.detequal
        THEN {"TranscriptEquivalenceHTTP"} ELSE {})
       \cup (IF ~h.hang /\ (h.bcalls # d.bcalls \/ Len(h.bgot) < BackendReads(e.s) \/ h.bgot # [k \in 1..Len(h.bgot) |-> k]
                            \/ Len(h.bgot) > e.s.n)
             THEN {"BackendSawHTTP"} ELSE {})
       \cup (IF ~h.hang /\ h.bcalls = 1 /\ ~h.mdok THEN {"RequestMetadataHTTP"} ELSE {})

\* C18 on the proxy path: every proxied call passes the front's interceptor exactly once, and a stream interceptor that
\* passes a wrapping stream on sees every message the backend got and every reply the client got go through it
InterceptOK(e, v) == /\ v.icalls = 1
                     /\ (e.s.shape # "unary" => v.irecv >= Len(v.bgot) /\ v.isend >= Len(v.replies))
JudgeIntercept(e) ==
  IF e.crash # "" \/ ~DirectOK(e) THEN {}
  ELSE (IF ~e.proxied.hang /\ e.proxied.bcalls = 1 /\ ~InterceptOK(e, e.proxied) THEN {"InterceptProxied"} ELSE {})
       \cup (IF e.hashttp /\ ~e.http.hang /\ e.http.bcalls = 1 /\ ~InterceptOK(e, e.http) THEN {"InterceptProxiedHTTP"} ELSE {})

\* Proxy.tla NoPumpOutlivesHandler, observed: when the forwarder has returned to the interceptor nothing of it is still
\* using the interceptor's stream (C13: whatever state the stream wrapper keeps would be raced on)
JudgePump(e) ==
  IF e.crash # "" THEN {}
  ELSE (IF ~e.proxied.hang /\ e.proxied.icalls = 1 /\ e.proxied.ilate > 0 THEN {"PumpOutlivesHandler"} ELSE {})
       \cup (IF e.hashttp /\ ~e.http.hang /\ e.http.icalls = 1 /\ e.http.ilate > 0 THEN {"PumpOutlivesHandlerHTTP"} ELSE {})

TProxy ==
  /\ l <= Len(Trace) /\ Trace[l].ev = "Proxy"
  /\ LET e == Trace[l] IN
       /\ failed' = failed \cup {<<e.case, l, f>> : f \in Judge(e) \cup JudgeHTTP(e) \cup JudgeIntercept(e) \cup JudgePump(e)}
       /\ stat' = [stat EXCEPT !.calls = @ + 1, !.httpCalls = @ + (IF e.hashttp THEN 1 ELSE 0), !.failing = @ + (IF Fails(e.s) THEN 1 ELSE 0),
                               !.lockstep = @ + (IF LockStep(e.s) THEN 1 ELSE 0), !.ctxCodes = @ + (IF Fails(e.s) /\ e.s.code \in {1, 4} THEN 1 ELSE 0),
                               !.streaming = @ + (IF e.s.shape # "unary" THEN 1 ELSE 0),
                               !.zeroMsg = @ + (IF e.s.n = 0 THEN 1 ELSE 0), !.waiting = @ + (IF e.s.wait THEN 1 ELSE 0)]
  /\ l' = l + 1
TSpec == TInit /\ [][TProxy]_tvars
Report == l > Len(Trace) =>
            PrintT(<<"REPORT", ToJson([consumed |-> l - 1, len |-> Len(Trace), failed |-> failed, stat |-> stat])>>)
=============================================================================
