SPECIFICATION Spec
CONSTANTS
  MaxLen = 6
  OneLetterBug = FALSE
INVARIANTS LexerSound LexerComplete ClassTotal AcceptIsLexed RejectGrammarNotLexed
CHECK_DEADLOCK FALSE
