SPECIFICATION Spec
CONSTANTS
  Scripts <- NonZero
  Direct = FALSE
  ForwardHalfClose = TRUE
  JoinBeforeError = FALSE
  NeedFirstMessage = TRUE
  InterruptibleRecv = FALSE
  FirstSendEOFFatal = FALSE
INVARIANTS NoPumpOutlivesHandler
PROPERTY Finishes
