SPECIFICATION TSpec
CONSTANTS
  Pats = {}
  Extras = {}
  Paths = {}
INVARIANTS Report
CHECK_DEADLOCK FALSE
