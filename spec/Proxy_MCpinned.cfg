SPECIFICATION Spec
CONSTANTS
  Scripts <- NonZero
  Direct = FALSE
  ForwardHalfClose = TRUE
  JoinBeforeError = FALSE
  NeedFirstMessage = TRUE
  FirstSendEOFFatal = FALSE
INVARIANTS TranscriptEquivalence BackendSawPrefix BackendSawAll NoPumpOutlivesHandler
PROPERTY Finishes
