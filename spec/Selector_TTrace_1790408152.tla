---- MODULE Selector_TTrace_1790408152 ----
EXTENDS Sequences, TLCExt, Toolbox, Naturals, TLC, Selector

_expression ==
    LET Selector_TEExpression == INSTANCE Selector_TEExpression
    IN Selector_TEExpression!expression
----

_trace ==
    LET Selector_TETrace == INSTANCE Selector_TETrace
    IN Selector_TETrace!trace
----

_inv ==
    ~(
        TLCGet("level") = Len(_TETrace)
        /\
        name = (<<"a", "a">>)
        /\
        sels = ({[wild |-> FALSE, path |-> <<"a">>], [wild |-> FALSE, path |-> <<"ab">>]})
        /\
        got = ({[wild |-> FALSE, path |-> <<"a">>]})
    )
----

_init ==
    /\ sels = _TETrace[1].sels
    /\ name = _TETrace[1].name
    /\ got = _TETrace[1].got
----

_next ==
    /\ \E i,j \in DOMAIN _TETrace:
        /\ \/ /\ j = i + 1
              /\ i = TLCGet("level")
        /\ sels  = _TETrace[i].sels
        /\ sels' = _TETrace[j].sels
        /\ name  = _TETrace[i].name
        /\ name' = _TETrace[j].name
        /\ got  = _TETrace[i].got
        /\ got' = _TETrace[j].got

\* Uncomment the ASSUME below to write the states of the error trace
\* to the given file in Json format. Note that you can pass any tuple
\* to `JsonSerialize`. For example, a sub-sequence of _TETrace.
    \* ASSUME
    \*     LET J == INSTANCE Json
    \*         IN J!JsonSerialize("Selector_TTrace_1790408152.json", _TETrace)

=============================================================================

 Note that you can extract this module `Selector_TEExpression`
  to a dedicated file to reuse `expression` (the module in the 
  dedicated `Selector_TEExpression.tla` file takes precedence 
  over the module `Selector_TEExpression` below).

---- MODULE Selector_TEExpression ----
EXTENDS Sequences, TLCExt, Toolbox, Naturals, TLC, Selector

expression == 
    [
        \* To hide variables of the `Selector` spec from the error trace,
        \* remove the variables below.  The trace will be written in the order
        \* of the fields of this record.
        sels |-> sels
        ,name |-> name
        ,got |-> got
        
        \* Put additional constant-, state-, and action-level expressions here:
        \* ,_stateNumber |-> _TEPosition
        \* ,_selsUnchanged |-> sels = sels'
        
        \* Format the `sels` variable as Json value.
        \* ,_selsJson |->
        \*     LET J == INSTANCE Json
        \*     IN J!ToJson(sels)
        
        \* Lastly, you may build expressions over arbitrary sets of states by
        \* leveraging the _TETrace operator.  For example, this is how to
        \* count the number of times a spec variable changed up to the current
        \* state in the trace.
        \* ,_selsModCount |->
        \*     LET F[s \in DOMAIN _TETrace] ==
        \*         IF s = 1 THEN 0
        \*         ELSE IF _TETrace[s].sels # _TETrace[s-1].sels
        \*             THEN 1 + F[s-1] ELSE F[s-1]
        \*     IN F[_TEPosition - 1]
    ]

=============================================================================



Parsing and semantic processing can take forever if the trace below is long.
 In this case, it is advised to uncomment the module below to deserialize the
 trace from a generated binary file.

\*
\*---- MODULE Selector_TETrace ----
\*EXTENDS IOUtils, TLC, Selector
\*
\*trace == IODeserialize("Selector_TTrace_1790408152.bin", TRUE)
\*
\*=============================================================================
\*

---- MODULE Selector_TETrace ----
EXTENDS TLC, Selector

trace == 
    <<
    ([name |-> <<>>,sels |-> {},got |-> {}]),
    ([name |-> <<>>,sels |-> {[wild |-> FALSE, path |-> <<"ab">>]},got |-> {}]),
    ([name |-> <<>>,sels |-> {[wild |-> FALSE, path |-> <<"a">>], [wild |-> FALSE, path |-> <<"ab">>]},got |-> {}]),
    ([name |-> <<"a", "a">>,sels |-> {[wild |-> FALSE, path |-> <<"a">>], [wild |-> FALSE, path |-> <<"ab">>]},got |-> {[wild |-> FALSE, path |-> <<"a">>]}])
    >>
----


=============================================================================

---- CONFIG Selector_TTrace_1790408152 ----
CONSTANTS
    Comps = { "a" , "b" , "ab" }
    MaxDepth = 3
    MaxSels = 2
    SeparateExact = FALSE

INVARIANT
    _inv

CHECK_DEADLOCK
    \* CHECK_DEADLOCK off because of PROPERTY or INVARIANT above.
    FALSE

INIT
    _init

NEXT
    _next

CONSTANT
    _TETrace <- _trace

ALIAS
    _expression
=============================================================================
\* Generated on Sat Sep 26 07:35:53 UTC 2026