------------------------------ MODULE Deadline ------------------------------
(***************************************************************************)
(* grpc-timeout decoding and cancellation (C15).                           *)
(*                                                                         *)
(* A timeout string is described by its shape: the number of characters in *)
(* front of the unit, whether they are all ASCII digits, and the unit.     *)
(* gRPC (PROTOCOL-HTTP2): TimeoutValue = 1..8 digits, TimeoutUnit one of   *)
(* H M S m u n.  A well-formed timeout gives the handler a deadline of     *)
(* value x unit after receipt (the multiplication in 64-bit, clamped, is   *)
(* done by the driver; TLC integers are 32-bit); anything else is refused  *)
(* without invoking the handler.  Signed values are unspecified.           *)
(*                                                                         *)
(* Cancellation: the handler is in one of four positions when the client   *)
(* cancels or disconnects; its context must end and a blocked stream call  *)
(* must return an error.                                                   *)
(***************************************************************************)
EXTENDS Integers, Sequences, FiniteSets, TLC

Units == {"H", "M", "S", "m", "u", "n"}
\* shape: [n: number of value characters, digits: BOOLEAN (all digits), unit: STRING ("" = missing), signed: BOOLEAN]
WellFormed(s) == s.n \in 1..8 /\ s.digits /\ s.unit \in Units /\ ~s.signed
Unspecified(s) == s.signed /\ s.n \in 2..9 /\ s.unit \in Units   \* "+5S", "-5S": grpc-go's own decoder accepts them

\* ---- cancellation as a small state machine ------------------------------------------------
CONSTANTS Shapes, Points,
          Vias,            \* subset of {"local", "proxied"}: where the handler runs
          DetachBackend    \* mechanism switch (Neg): the forwarder opens the backend stream on a context of its own
\* Points: "running" | "blockedRecv" | "blockedSend" | "returned"
\* via = "proxied": the handler runs on a backend behind RegisterConn; the cancellation first ends the context of
\* larking's forwarder (fdone), and the backend stream - opened on that context - is reset, which ends the handler's
VARIABLES hpos, ctxDone, cancelled, released, via, fdone
cvars == <<hpos, ctxDone, cancelled, released, via, fdone>>
CInit == hpos \in Points /\ ctxDone = FALSE /\ cancelled = FALSE /\ released = FALSE /\ via \in Vias /\ fdone = FALSE
ClientCancel == ~cancelled /\ cancelled' = TRUE /\ UNCHANGED <<hpos, ctxDone, released, via, fdone>>
\* the transport notices the cancel / disconnect and ends the request context
CtxDone == via = "local" /\ cancelled /\ ~ctxDone /\ ctxDone' = TRUE /\ UNCHANGED <<hpos, cancelled, released, via, fdone>>
FrontDone == via = "proxied" /\ cancelled /\ ~fdone /\ fdone' = TRUE /\ UNCHANGED <<hpos, ctxDone, cancelled, released, via>>
BackendDone == via = "proxied" /\ fdone /\ ~DetachBackend /\ ~ctxDone /\ ctxDone' = TRUE /\ UNCHANGED <<hpos, cancelled, released, via, fdone>>
\* a handler blocked in a stream call is released with an error once the context has ended
Release == ctxDone /\ hpos \in {"blockedRecv", "blockedFirstRecv", "blockedSend"} /\ ~released
           /\ released' = TRUE /\ hpos' = "running" /\ UNCHANGED <<ctxDone, cancelled, via, fdone>>
CNext == ClientCancel \/ CtxDone \/ FrontDone \/ BackendDone \/ Release
CSpec == CInit /\ [][CNext]_cvars /\ WF_cvars(CNext)
\* liveness on the model: after a cancel the context ends and nobody stays blocked
CancelReleases == cancelled ~> (ctxDone /\ hpos \notin {"blockedRecv", "blockedFirstRecv", "blockedSend"})
NoSpuriousDone == (ctxDone => cancelled) /\ (fdone => cancelled)
=============================================================================
