----------------------------- MODULE Transcode -----------------------------
(***************************************************************************)
(* HTTP transcoding of one request (C03, C07) and of its reply (C04).      *)
(*                                                                         *)
(* Request side.  The client means a message M (which roles are present);  *)
(* the rule prescribes how M travels: path-bound fields in the URL path,   *)
(* the body selector ("*", a message field "b", or none) decides what goes *)
(* into the body, everything else into the query string.  A client may     *)
(* also send competing values for path-bound fields through the query      *)
(* and/or the body.  The server decodes the body, then applies the         *)
(* parameters one by one; what the handler receives is the result.         *)
(*                                                                         *)
(* Roles (abstract fields):                                                *)
(*   "p1","p2"  path-bound scalar leaves (top-level or nested)             *)
(*   "q1","q2"  other scalar leaves      "r"  a repeated scalar            *)
(*   "n"        a nested scalar leaf     "b1","b2"  leaves under field b   *)
(* Value tags: "absent", "true" (what the client means), "comp" (a         *)
(* competing value), and for "r" the sequence of its elements.             *)
(***************************************************************************)
EXTENDS Integers, Sequences, FiniteSets, TLC

Roles == {"p1", "p2", "q1", "q2", "r", "n", "b1", "b2"}
PathRoles == {"p1", "p2"}
UnderB == {"b1", "b2"}

CONSTANTS Bodies,       \* subset of {"*", "b", "none"}
          ParamOrder    \* "path-last" (path captures applied after the query) | "query-last" (Neg)

\* the case: how the request was built
\* [body, npath (1..2), present (set of roles), compQ, compB (BOOLEAN: competing value for p1 in query / body)]
InBody(c, role) ==
  CASE c.body = "*"    -> role \notin PathRoles
    [] c.body = "b"    -> role \in UnderB
    [] OTHER           -> FALSE
InQuery(c, role) == role \notin PathRoles /\ ~InBody(c, role)
PathBound(c) == IF c.npath = 1 THEN {"p1"} ELSE {"p1", "p2"}
\* expressible: with body "b" or none, everything outside the body must be expressible in the URL (all roles are)
Sendable(c) == /\ PathBound(c) \subseteq c.present
               /\ (c.npath = 1 => "p2" \notin c.present)
               /\ (c.compB => c.body = "*")     \* a competing body value needs the whole message as body

-----------------------------------------------------------------------------
(* Server side: body, then parameters *)
Empty == [r \in Roles |-> "absent"]

AfterBody(c) ==
  [r \in Roles |->
     IF r \in c.present /\ InBody(c, r) THEN "true"
     ELSE IF r = "p1" /\ c.compB THEN "comp"         \* the body names the path-bound field too
     ELSE "absent"]

\* parameters as (role, tag) in application order
QueryParams(c) ==
  LET qs == {r \in c.present : InQuery(c, r)} IN
  [qs |-> qs, comp |-> c.compQ]
ApplyQuery(c, m) ==
  [r \in Roles |->
     IF r \in c.present /\ InQuery(c, r) THEN "true"
     ELSE IF r = "p1" /\ c.compQ THEN "comp"
     ELSE m[r]]
ApplyPath(c, m) == [r \in Roles |-> IF r \in PathBound(c) THEN "true" ELSE m[r]]

Received(c) ==
  IF ParamOrder = "path-last" THEN ApplyPath(c, ApplyQuery(c, AfterBody(c)))
  ELSE ApplyQuery(c, ApplyPath(c, AfterBody(c)))

Meant(c) == [r \in Roles |-> IF r \in c.present THEN "true" ELSE "absent"]
Competing(c) == c.compQ \/ c.compB

-----------------------------------------------------------------------------
(* Exploration *)
VARIABLE tc
Cases == {c \in [body : Bodies, npath : 1..2, present : SUBSET Roles, compQ : BOOLEAN, compB : BOOLEAN] : Sendable(c)}
Init == tc \in Cases
Next == UNCHANGED tc
Spec == Init /\ [][Next]_tc

\* C03: without competing values the handler gets exactly what the client means
Reassembly == ~Competing(tc) => Received(tc) = Meant(tc)
\* C07: path-bound fields carry the path value whatever else is sent
PathAuthoritative == \A r \in PathBound(tc) : Received(tc)[r] = "true"
\* competing values never disturb the other fields
OthersIntact == \A r \in Roles \ PathBound(tc) : Received(tc)[r] = Meant(tc)[r]

-----------------------------------------------------------------------------
(* C04: content negotiation.  An Accept header is a sequence of ranges     *)
(* [type, q] with q in tenths (0..10); Offers are the registered types.    *)
\* (application/x-verif is a codec the harness registers with CodecOption: user codecs are offered like built-in ones)
Offers == {"application/json", "application/protobuf", "application/octet-stream", "application/x-verif"}
RangeAdmits(rg, t) ==
  /\ rg.q > 0
  /\ \/ rg.type = "*/*"
     \/ rg.type = "application/*"
     \/ rg.type = t
\* permissive reading: a type is admitted if some range with q > 0 matches it
Admitted(accept) == {t \in Offers : \E k \in DOMAIN accept : RangeAdmits(accept[k], t)}
\* what the response content type may be, given the request's own content type
AllowedResponseTypes(accept, reqct) ==
  IF Admitted(accept) # {} THEN Admitted(accept) ELSE {reqct}
=============================================================================
