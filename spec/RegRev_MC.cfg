SPECIFICATION Spec
CONSTANTS
  MaxOps = 6
  DelAll = TRUE
INVARIANTS TypeOK Exact
CHECK_DEADLOCK FALSE
