SPECIFICATION CSpec
CONSTANTS
  Shapes = {"unary"}
  Points <- NoPoints
  Vias = {"local"}
  DetachBackend = FALSE
CHECK_DEADLOCK FALSE
