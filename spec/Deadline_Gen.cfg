SPECIFICATION CSpec
CONSTANTS
  Shapes = {"unary"}
  Points <- NoPoints
CHECK_DEADLOCK FALSE
