SPECIFICATION GenSpec
CONSTANTS
  Elems <- MCElems
  MaxSegs = 2
  Verbs = {"", "v"}
  RuleKinds = {"GET", "POST", "*", "LIST"}
  ReqKinds = {"GET", "POST", "LIST"}
  Methods = {"M1", "M2", "M3"}
  MaxRules = 3
  Fill = {"a", "p", "7"}
  VarsSorted = TRUE
  SlashBeforeVar = TRUE
  RelIndex = TRUE
  LitFirst = TRUE
CONSTRAINT FirstIsM1
INVARIANTS Emit
CHECK_DEADLOCK FALSE
