SPECIFICATION Spec
CONSTANTS
  Pats <- MCPats
  Extras <- MCExtras
  Paths <- NoPaths
CHECK_DEADLOCK FALSE
