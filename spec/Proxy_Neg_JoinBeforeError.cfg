SPECIFICATION Spec
CONSTANTS
  Scripts <- LockFail
  Direct = FALSE
  ForwardHalfClose = TRUE
  JoinBeforeError = TRUE
  NeedFirstMessage = FALSE
  InterruptibleRecv = TRUE
  FirstSendEOFFatal = FALSE
INVARIANTS TranscriptEquivalence BackendSawPrefix BackendSawAll NoPumpOutlivesHandler
PROPERTY Finishes
