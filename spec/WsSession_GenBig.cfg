SPECIFICATION Spec
CONSTANTS
  MaxLen = 0
  ContNeedsStart = TRUE
  CloseEndsLatched = TRUE
  GenLo = 3
  GenHi = 5
  Terms <- TermsBig
CHECK_DEADLOCK FALSE
