SPECIFICATION Spec
CONSTANTS
  MaxLen = 4
  ContNeedsStart = TRUE
  CloseEndsLatched = TRUE
INVARIANTS TypeOK NoPhantom Ordered NoDrop EndJustified
PROPERTIES Latched
CHECK_DEADLOCK FALSE
