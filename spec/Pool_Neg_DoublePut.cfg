SPECIFICATION Spec
CONSTANTS
  Reqs = {"r1", "r2", "r3"}
  Bufs = {"b1", "b2"}
  CopyOut = TRUE
  PutOnce = FALSE
INVARIANTS SingleOwner RetainedStable
CHECK_DEADLOCK FALSE
