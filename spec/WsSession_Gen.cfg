SPECIFICATION Spec
CONSTANTS
  MaxLen = 0
  ContNeedsStart = TRUE
  CloseEndsLatched = TRUE
  GenLo = 3
  GenHi = 4
  Terms <- TermsQuick
CHECK_DEADLOCK FALSE
