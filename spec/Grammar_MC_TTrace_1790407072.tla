---- MODULE Grammar_MC_TTrace_1790407072 ----
EXTENDS Sequences, TLCExt, Grammar_MC, Toolbox, Naturals, TLC

_expression ==
    LET Grammar_MC_TEExpression == INSTANCE Grammar_MC_TEExpression
    IN Grammar_MC_TEExpression!expression
----

_trace ==
    LET Grammar_MC_TETrace == INSTANCE Grammar_MC_TETrace
    IN Grammar_MC_TETrace!trace
----

_inv ==
    ~(
        TLCGet("level") = Len(_TETrace)
        /\
        x = (<<"/", "n">>)
    )
----

_init ==
    /\ x = _TETrace[1].x
----

_next ==
    /\ \E i,j \in DOMAIN _TETrace:
        /\ \/ /\ j = i + 1
              /\ i = TLCGet("level")
        /\ x  = _TETrace[i].x
        /\ x' = _TETrace[j].x

\* Uncomment the ASSUME below to write the states of the error trace
\* to the given file in Json format. Note that you can pass any tuple
\* to `JsonSerialize`. For example, a sub-sequence of _TETrace.
    \* ASSUME
    \*     LET J == INSTANCE Json
    \*         IN J!JsonSerialize("Grammar_MC_TTrace_1790407072.json", _TETrace)

=============================================================================

 Note that you can extract this module `Grammar_MC_TEExpression`
  to a dedicated file to reuse `expression` (the module in the 
  dedicated `Grammar_MC_TEExpression.tla` file takes precedence 
  over the module `Grammar_MC_TEExpression` below).

---- MODULE Grammar_MC_TEExpression ----
EXTENDS Sequences, TLCExt, Grammar_MC, Toolbox, Naturals, TLC

expression == 
    [
        \* To hide variables of the `Grammar_MC` spec from the error trace,
        \* remove the variables below.  The trace will be written in the order
        \* of the fields of this record.
        x |-> x
        
        \* Put additional constant-, state-, and action-level expressions here:
        \* ,_stateNumber |-> _TEPosition
        \* ,_xUnchanged |-> x = x'
        
        \* Format the `x` variable as Json value.
        \* ,_xJson |->
        \*     LET J == INSTANCE Json
        \*     IN J!ToJson(x)
        
        \* Lastly, you may build expressions over arbitrary sets of states by
        \* leveraging the _TETrace operator.  For example, this is how to
        \* count the number of times a spec variable changed up to the current
        \* state in the trace.
        \* ,_xModCount |->
        \*     LET F[s \in DOMAIN _TETrace] ==
        \*         IF s = 1 THEN 0
        \*         ELSE IF _TETrace[s].x # _TETrace[s-1].x
        \*             THEN 1 + F[s-1] ELSE F[s-1]
        \*     IN F[_TEPosition - 1]
    ]

=============================================================================



Parsing and semantic processing can take forever if the trace below is long.
 In this case, it is advised to uncomment the module below to deserialize the
 trace from a generated binary file.

\*
\*---- MODULE Grammar_MC_TETrace ----
\*EXTENDS IOUtils, Grammar_MC, TLC
\*
\*trace == IODeserialize("Grammar_MC_TTrace_1790407072.bin", TRUE)
\*
\*=============================================================================
\*

---- MODULE Grammar_MC_TETrace ----
EXTENDS Grammar_MC, TLC

trace == 
    <<
    ([x |-> <<>>]),
    ([x |-> <<"/">>]),
    ([x |-> <<"/", "n">>])
    >>
----


=============================================================================

---- CONFIG Grammar_MC_TTrace_1790407072 ----
CONSTANTS
    MaxLen = 5
    OneLetterBug = TRUE

INVARIANT
    _inv

CHECK_DEADLOCK
    \* CHECK_DEADLOCK off because of PROPERTY or INVARIANT above.
    FALSE

INIT
    _init

NEXT
    _next

CONSTANT
    _TETrace <- _trace

ALIAS
    _expression
=============================================================================
\* Generated on Sat Sep 26 07:17:53 UTC 2026