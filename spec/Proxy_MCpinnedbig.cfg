SPECIFICATION Spec
CONSTANTS
  Scripts <- BigNonZero
  Direct = FALSE
  ForwardHalfClose = TRUE
  JoinBeforeError = FALSE
  NeedFirstMessage = TRUE
  FirstSendEOFFatal = FALSE
INVARIANTS TranscriptEquivalence BackendSawPrefix BackendSawAll NoPumpOutlivesHandler
PROPERTY Finishes
