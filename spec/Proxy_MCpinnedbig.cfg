SPECIFICATION Spec
CONSTANTS
  Scripts <- BigNonZero
  Direct = FALSE
  ForwardHalfClose = TRUE
  JoinBeforeError = FALSE
  NeedFirstMessage = TRUE
  InterruptibleRecv = FALSE
  FirstSendEOFFatal = FALSE
INVARIANTS TranscriptEquivalence BackendSawPrefix BackendSawAll
PROPERTY Finishes
