---------------------------- MODULE Transcode_Gen ----------------------------
EXTENDS Transcode, Json, SequencesExt
ASSUME \A c \in Cases :
  PrintT(<<"CASE", ToJson([body |-> c.body, npath |-> c.npath, present |-> SetToSeq(c.present),
                           compQ |-> c.compQ, compB |-> c.compB])>>)
NoCases == {}
GenInit == tc \in NoCases
GenSpec == GenInit /\ [][Next]_tc
=============================================================================
