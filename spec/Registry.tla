------------------------------ MODULE Registry ------------------------------
(***************************************************************************)
(* The registration state of a Mux and how requests see it (C11, C12).     *)
(*                                                                         *)
(* Coarse layer (C11): one action per public call.  The abstract state is  *)
(* live: Method -> set of backends registered for it, conns: set of        *)
(* registered connections.                                                 *)
(*                                                                         *)
(* Fine layer (C12): writers take the mutex, clone the published snapshot, *)
(* add the methods of a service one by one to the clone (routes and        *)
(* handler together), possibly fail, publish with one atomic store,        *)
(* unlock; readers load the snapshot once, match the route, pick a handler *)
(* and answer.  Snapshots are records of heap object ids so that a clone   *)
(* that shares the trie or the handler map with the published snapshot is  *)
(* expressible (the negative configurations).                              *)
(***************************************************************************)
EXTENDS Integers, Sequences, FiniteSets, TLC

CONSTANTS Backends,      \* e.g. {"local", "c1", "c2"}
          Methods,       \* e.g. {"A.m1", "A.m2", "B.m1"}
          Serves         \* Serves[b]: the methods backend b exposes

-----------------------------------------------------------------------------
(* Coarse layer *)
EmptyLive == [m \in Methods |-> {}]
Register(live, b) == [m \in Methods |-> IF m \in Serves[b] THEN live[m] \cup {b} ELSE live[m]]
Drop(live, b)     == [m \in Methods |-> live[m] \ {b}]

\* outcome of a request for method m against abstract state live
Served(b) == [k |-> "served", by |-> b]
Unimpl    == [k |-> "unimplemented", by |-> ""]
AllowedOutcomes(live, m) == IF live[m] = {} THEN {Unimpl} ELSE {Served(b) : b \in live[m]}

-----------------------------------------------------------------------------
(* Fine layer *)
CONSTANTS Writers, Readers,
          Ops,            \* Ops[w]: sequence of [op: "register"|"drop"|"failing", b, failAt]
          CloneDepth,     \* "deep" | "shallow"   (shallow: the clone shares routes/handlers objects)
          LoadsPerRequest,\* 1 | 2
          PublishPerMethod\* FALSE | TRUE

VARIABLES heap,        \* object id -> content: a function Methods -> SUBSET Backends
          pub,         \* published snapshot: [routes: oid, handlers: oid]
          published,   \* ghost: sequence of all snapshots ever published with their logical content at publish time
          nextOid,
          lock,        \* writer holding the mutex or "none"
          wpc, widx, wk, work,   \* per writer: pc, index into Ops, method cursor, working snapshot
          rpc, rview, rmeth, rroute, rout    \* per reader
fvars == <<heap, pub, published, nextOid, lock, wpc, widx, wk, work, rpc, rview, rmeth, rroute, rout>>

Content(h, snap) == [routes |-> h[snap.routes], handlers |-> h[snap.handlers]]
MethSeq == CHOOSE s \in [1..Cardinality(Methods) -> Methods] : \A i, j \in DOMAIN s : i # j => s[i] # s[j]

FInit ==
  /\ heap = (1 :> EmptyLive) @@ (2 :> EmptyLive)
  /\ pub = [routes |-> 1, handlers |-> 2]
  /\ published = << [snap |-> [routes |-> 1, handlers |-> 2], content |-> [routes |-> EmptyLive, handlers |-> EmptyLive]] >>
  /\ nextOid = 3 /\ lock = "none"
  /\ wpc = [w \in Writers |-> "idle"] /\ widx = [w \in Writers |-> 1] /\ wk = [w \in Writers |-> 1]
  /\ work = [w \in Writers |-> [routes |-> 0, handlers |-> 0]]
  /\ rpc = [r \in Readers |-> "idle"] /\ rview = [r \in Readers |-> [routes |-> 1, handlers |-> 2]]
  /\ rmeth = [r \in Readers |-> CHOOSE m \in Methods : TRUE]
  /\ rroute = [r \in Readers |-> FALSE] /\ rout = [r \in Readers |-> Unimpl]

CurOp(w) == Ops[w][widx[w]]

WLock(w) == /\ wpc[w] = "idle" /\ widx[w] <= Len(Ops[w]) /\ lock = "none"
            /\ lock' = w /\ wpc' = [wpc EXCEPT ![w] = "locked"]
            /\ UNCHANGED <<heap, pub, published, nextOid, widx, wk, work, rpc, rview, rmeth, rroute, rout>>

WClone(w) ==
  /\ wpc[w] = "locked"
  /\ IF CloneDepth = "deep"
     THEN /\ heap' = heap @@ (nextOid :> heap[pub.routes]) @@ ((nextOid + 1) :> heap[pub.handlers])
          /\ work' = [work EXCEPT ![w] = [routes |-> nextOid, handlers |-> nextOid + 1]]
          /\ nextOid' = nextOid + 2
     ELSE /\ work' = [work EXCEPT ![w] = pub] /\ UNCHANGED <<heap, nextOid>>
  /\ wpc' = [wpc EXCEPT ![w] = "modify"] /\ wk' = [wk EXCEPT ![w] = 1]
  /\ UNCHANGED <<pub, published, lock, widx, rpc, rview, rmeth, rroute, rout>>

Publish(snap, h) == /\ pub' = snap
                    /\ published' = Append(published, [snap |-> snap, content |-> Content(h, snap)])

\* one method of the service: its routes and its handler go into the working snapshot together
WModify(w) ==
  /\ wpc[w] = "modify"
  /\ LET op == CurOp(w)  k == wk[w] IN
     IF k > Len(MethSeq) THEN
       /\ wpc' = [wpc EXCEPT ![w] = "publish"] /\ UNCHANGED <<heap, pub, published, wk>>
     ELSE IF op.op = "failing" /\ k = op.failAt THEN
       \* registration error: nothing is stored
       /\ wpc' = [wpc EXCEPT ![w] = "unlock"] /\ UNCHANGED <<heap, pub, published, wk>>
     ELSE
       LET m == MethSeq[k]
           touch == m \in Serves[op.b]
           newR == IF ~touch THEN heap[work[w].routes]
                   ELSE [heap[work[w].routes] EXCEPT ![m] = IF op.op = "drop" THEN @ \ {op.b} ELSE @ \cup {op.b}]
           newH == IF ~touch THEN heap[work[w].handlers]
                   ELSE [heap[work[w].handlers] EXCEPT ![m] = IF op.op = "drop" THEN @ \ {op.b} ELSE @ \cup {op.b}]
           h2 == [heap EXCEPT ![work[w].routes] = newR, ![work[w].handlers] = newH]
       IN /\ heap' = h2 /\ wk' = [wk EXCEPT ![w] = k + 1]
          /\ IF PublishPerMethod THEN Publish(work[w], h2) ELSE UNCHANGED <<pub, published>>
          /\ UNCHANGED wpc
  /\ UNCHANGED <<nextOid, lock, widx, work, rpc, rview, rmeth, rroute, rout>>

WPublish(w) == /\ wpc[w] = "publish" /\ Publish(work[w], heap)
               /\ wpc' = [wpc EXCEPT ![w] = "unlock"]
               /\ UNCHANGED <<heap, nextOid, lock, widx, wk, work, rpc, rview, rmeth, rroute, rout>>
WUnlock(w) == /\ wpc[w] = "unlock" /\ lock' = "none"
              /\ wpc' = [wpc EXCEPT ![w] = "idle"] /\ widx' = [widx EXCEPT ![w] = @ + 1]
              /\ UNCHANGED <<heap, pub, published, nextOid, wk, work, rpc, rview, rmeth, rroute, rout>>

RLoad(r, m) == /\ rpc[r] = "idle" /\ rpc' = [rpc EXCEPT ![r] = "match"]
               /\ rview' = [rview EXCEPT ![r] = pub] /\ rmeth' = [rmeth EXCEPT ![r] = m]
               /\ UNCHANGED <<heap, pub, published, nextOid, lock, wpc, widx, wk, work, rroute, rout>>
RMatch(r) == /\ rpc[r] = "match" /\ rpc' = [rpc EXCEPT ![r] = "pick"]
             /\ rroute' = [rroute EXCEPT ![r] = heap[rview[r].routes][rmeth[r]] # {}]
             \* a second load between match and pick (negative configuration)
             /\ rview' = IF LoadsPerRequest = 2 THEN [rview EXCEPT ![r] = pub] ELSE rview
             /\ UNCHANGED <<heap, pub, published, nextOid, lock, wpc, widx, wk, work, rmeth, rout>>
\* the outcome the client sees: "notfound" (no route), "unimplemented" (route but no handler), or served
RPick(r) == /\ rpc[r] = "pick" /\ rpc' = [rpc EXCEPT ![r] = "done"]
            /\ LET hs == heap[rview[r].handlers][rmeth[r]] IN
               \/ /\ ~rroute[r] /\ rout' = [rout EXCEPT ![r] = [k |-> "notfound", by |-> ""]]
               \/ /\ rroute[r] /\ hs = {} /\ rout' = [rout EXCEPT ![r] = Unimpl]
               \/ /\ rroute[r] /\ \E b \in hs : rout' = [rout EXCEPT ![r] = Served(b)]
            /\ UNCHANGED <<heap, pub, published, nextOid, lock, wpc, widx, wk, work, rview, rmeth, rroute>>
RDone(r) == /\ rpc[r] = "done" /\ rpc' = [rpc EXCEPT ![r] = "idle"]
            /\ UNCHANGED <<heap, pub, published, nextOid, lock, wpc, widx, wk, work, rview, rmeth, rroute, rout>>

FNext == \/ \E w \in Writers : WLock(w) \/ WClone(w) \/ WModify(w) \/ WPublish(w) \/ WUnlock(w)
         \/ \E r \in Readers : (\E m \in Methods : RLoad(r, m)) \/ RMatch(r) \/ RPick(r) \/ RDone(r)
FSpec == FInit /\ [][FNext]_fvars

-----------------------------------------------------------------------------
(* C12 invariants *)
\* a published snapshot never changes
PublishedImmutable == \A i \in DOMAIN published : Content(heap, published[i].snap) = published[i].content
\* in a published snapshot routes and handlers agree, and each backend's service is there entirely or not at all
Consistent(c) == /\ c.routes = c.handlers
                 /\ \A b \in Backends : (\A m \in Serves[b] : b \in c.handlers[m]) \/ (\A m \in Serves[b] : b \notin c.handlers[m])
AtomicVisibility == \A i \in DOMAIN published : Consistent(published[i].content)
\* what a reader answers is explained by ONE published snapshot: never "route but no handler"
NoTornAnswer == \A r \in Readers : rpc[r] = "done" => rout[r].k # "unimplemented"
\* a failed registration publishes nothing (checked as an action property)
FailedRegNoChange == [][\A w \in Writers : (wpc[w] = "modify" /\ wpc'[w] = "unlock") => (pub' = pub /\ published' = published)]_fvars
=============================================================================
