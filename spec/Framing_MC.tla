---------------------------- MODULE Framing_MC ----------------------------
EXTENDS Framing
CONSTANTS Sizes, MaxFrames, Trunc   \* Trunc: also every truncation of every stream

RECURSIVE SeqsOfLen(_, _)
SeqsOfLen(S, n) == IF n = 0 THEN {<<>>} ELSE {<<x>> \o s : x \in S, s \in SeqsOfLen(S, n - 1)}
SeqsUpTo(S, n) == UNION {SeqsOfLen(S, k) : k \in 0..n}

Body(id, n) == [j \in 1..n |-> 64 + id * 8 + j]
\* proto: minimal and one non-minimal (2-byte) length prefix
ProtoFrames(id) == {[pre |-> <<n>>, body |-> Body(id, n)] : n \in Sizes}
                   \cup {[pre |-> <<128 + n, 0>>, body |-> Body(id, n)] : n \in Sizes \cap {1, 2}}
\* json: objects over { } " \ x and space, including braces and escaped quotes inside strings
JsonTexts == { <<123, 125>>, <<123, 120, 125>>, <<32, 123, 125>>, <<123, 123, 125, 125>>,
               <<123, 34, 125, 34, 125>>, <<123, 34, 92, 34, 34, 125>>, <<123, 34, 123, 34, 125>>,
               <<123, 34, 92, 92, 34, 125>> }
JsonFrames(id) == {[pre |-> <<>>, body |-> t] : t \in JsonTexts}
BodyFrames(id) == {[pre |-> <<>>, body |-> Body(id, n)] : n \in Sizes}

FramesAt(id) == IF Codec = "proto" THEN ProtoFrames(id) ELSE IF Codec = "json" THEN JsonFrames(id) ELSE BodyFrames(id)
RECURSIVE FrameSeqs(_)
\* frame sequences of length exactly n (frame k built from FramesAt(k))
FrameSeqs(n) == IF n = 0 THEN {<<>>} ELSE {Append(s, f) : s \in FrameSeqs(n - 1), f \in FramesAt(n)}
AllFrameSeqs == UNION {FrameSeqs(k) : k \in 0..MaxFrames}
\* extra proto streams: oversize, huge and over-long prefixes
Extra == IF Codec = "proto"
         THEN {[frames |-> <<[pre |-> <<Limit + 1>>, body |-> Body(1, Limit + 1)]>>, cut |-> Limit + 2],
               [frames |-> <<[pre |-> <<255, 255, 255, 255, 255, 255, 255, 255, 255, 1>>, body |-> <<>>]>>, cut |-> 10],
               [frames |-> <<[pre |-> <<128, 128, 128, 128, 128, 128, 128, 128, 128, 128, 1>>, body |-> <<>>]>>, cut |-> 11],
               [frames |-> <<[pre |-> <<128, 128, 128, 128, 128, 128, 128, 128, 128, 127>>, body |-> <<>>]>>, cut |-> 10]}
         ELSE {}
EncLen(fs) == Len(Flat([k \in DOMAIN fs |-> FrameBytes(fs[k])]))
MCStreams ==
  UNION {{[frames |-> fs, cut |-> c] : c \in (IF Trunc THEN 0..EncLen(fs) ELSE {EncLen(fs)})} : fs \in AllFrameSeqs}
  \cup Extra
\* the results are what matters; the ghost schedule is not part of the state
=============================================================================
