------------------------------ MODULE RpcTrace ------------------------------
(***************************************************************************)
(* Trace validation of recorded RPCs (C05, C06, C08, C14, C18).            *)
(* Each Rpc event holds the case (protocol, shape, client message sizes,   *)
(* handler script, limits, options) and what the real handler and the real *)
(* client observed.  The script is folded through Rpc!Apply and every      *)
(* observation is compared with Rpc!View; each rejected observation is     *)
(* attributed to the formula (and so to the property) that rejects it.     *)
(***************************************************************************)
EXTENDS Rpc, Json, IOUtils

Trace == ndJsonDeserialize(IOEnv.TRACE)
VARIABLES l, failed, stat
tvars == <<l, failed, stat, rc>>
Stat0 == [rpcs |-> 0, failing |-> 0, streams |-> 0, msgsIn |-> 0, msgsOut |-> 0, withMD |-> 0, withOpts |-> 0,
          limited |-> 0, overLimit |-> 0, crashes |-> 0, truncated |-> 0, fragmented |-> 0]
TInit == l = 1 /\ failed = {} /\ stat = Stat0 /\ rc = 0

Has(r, k) == k \in DOMAIN r

\* the case as Rpc.tla sees it
CaseOf(e) == [proto |-> e.c.proto, shape |-> e.c.shape,
              \* a truncated body holds trunck complete messages and a piece of the next
              sent |-> IF e.c.trunc > 0 THEN SubSeq(e.sent, 1, e.c.trunck) ELSE e.sent, script |-> e.c.script,
              maxrecv |-> e.c.maxrecv, maxsend |-> e.c.maxsend, trunc |-> (e.c.trunc > 0),
              replies |-> e.replies]

\* for shapes without a client stream the single request is read before the script starts
WithImplicitRecv(c) ==
  IF ClientStreams(c.shape) THEN c
  ELSE [c EXCEPT !.script = <<[op |-> "recv", md |-> EmptyMD, size |-> 0, code |-> 0, msg |-> <<>>, det |-> 0]>> \o @]

Opt(e, o) == \E k \in DOMAIN e.c.opts : e.c.opts[k] = o

\* every promised key is there with its values, in order and adjacent (a trailers-only response carries header and
\* trailer metadata in one block, so a key used for both shows both value lists)
SubMD(want, got) == \A k \in DOMAIN want :
                      /\ Has(got, k)
                      /\ \E i \in 1..(Len(got[k]) - Len(want[k]) + 1) : SubSeq(got[k], i, i + Len(want[k]) - 1) = want[k]

-----------------------------------------------------------------------------
\* WebSocket: the status travels in the close frame - the mapped close code and the message as far as 123 bytes carry
\* it.  A handler that returns OK closes normally (1000, or a close frame without a code: 1005).  When the client
\* closed first (wsclose) what it reads back is the echo of its own close.
WsStatusOK(e, c, v) ==
  /\ e.cl.http = 101 /\ e.cl.status.present
  /\ IF e.c.wsclose   \* the echo of the client's close, or the server's own if the handler finished first
     THEN \/ e.cl.status.code \in {1000, 1005}
          \/ (v.failed /\ v.code # AnyError /\ e.cl.status.code = WSStatus(v.code))
          \/ (v.code = AnyError /\ e.cl.status.code \notin {1000, 1005})
     ELSE IF v.code = AnyError THEN e.cl.status.code \notin {1000, 1005}
     ELSE IF ~v.failed THEN e.cl.status.code \in {1000, 1005}
     ELSE /\ e.cl.status.code = WSStatus(v.code)
          /\ (IF e.cl.wsfits THEN e.cl.status.name = "equal" ELSE e.cl.status.name \in {"equal", "prefix"})
StatusOK(e, c, v) ==
  IF c.proto = "ws" THEN WsStatusOK(e, c, v)
  ELSE IF v.code = AnyError THEN   \* the request could not be read: some error, whatever its code
    /\ e.cl.status.present /\ e.cl.status.code # 0
    /\ (~IsGrpc(c.proto) => e.cl.http >= 400)
  ELSE IF IsGrpc(c.proto) THEN
    /\ e.cl.status.present /\ e.cl.status.code = v.code
    /\ (v.failed => e.cl.status.msgequal /\ e.cl.status.detequal)
  ELSE IF c.proto = "twirp" THEN
    IF v.failed THEN /\ e.cl.http = HTTPStatus(v.code) /\ e.cl.status.present /\ e.cl.status.msgequal
                     /\ (v.code \in 1..16 => e.cl.status.name = TwirpName(v.code))
    ELSE e.cl.http = 200
  ELSE \* http: only constrained when no reply byte went out before the error
    IF v.failed /\ ~v.sentAny
    THEN /\ e.cl.http = HTTPStatus(v.code) /\ e.cl.status.present /\ e.cl.status.code = v.code
         /\ e.cl.status.msgequal /\ e.cl.status.detequal
    ELSE (~v.failed => e.cl.http = 200)

FinalStatusOK(e, c, v) ==
  IF c.proto = "ws" THEN e.cl.http = 101 => e.cl.status.present
  ELSE IsGrpc(c.proto) =>
         /\ e.cl.status.present
         /\ (IF v.code = AnyError THEN e.cl.status.code # 0 ELSE (e.cl.status.code = 0) = ~v.failed)

\* what the handler got from each recv (index, "eof", "error"), all equal to what was sent
RecvSeen(e) == [k \in DOMAIN e.h.recv |->
                  IF e.h.recv[k].err = "" THEN RR(IF e.h.recv[k].equal THEN e.h.recv[k].idx ELSE -1, "ok")
                  ELSE RR(0, e.h.recv[k].err)]
\* HTTP transcoding may deliver one params-only message for an empty client stream
\* what a handler sees when it keeps receiving after an error is not specified
UptoError(s) == LET es == {k \in DOMAIN s : s[k].r = "error"} IN
                IF es = {} THEN s ELSE SubSeq(s, 1, CHOOSE k \in es : \A k2 \in es : k <= k2)
\* a unary method whose request cannot be read never reaches the handler
NotEntered(c, v) == c.shape = "unary" /\ v.code = AnyError
RecvOK(e, c, v) ==
  \/ RecvSeen(e) = v.recvRes
  \/ (NotEntered(c, v) /\ e.h.recv = <<>>)
  \/ (Len(RecvSeen(e)) = Len(v.recvRes) /\ UptoError(RecvSeen(e)) = UptoError(v.recvRes)
      /\ \E k \in DOMAIN v.recvRes : v.recvRes[k].r = "error")
  \/ /\ c.proto \in {"http", "twirp"} /\ ClientStreams(c.shape) /\ c.sent = <<>> /\ v.recvRes # <<>>
     /\ Len(RecvSeen(e)) = Len(v.recvRes)
     /\ RecvSeen(e)[1].r = "ok" /\ \A k \in 2..Len(v.recvRes) : RecvSeen(e)[k] = RR(0, "eof")

\* HTTP transcoding has no status channel: what the body looks like once replies were sent and the
\* handler then fails is unspecified
RepliesOK(e, c, v) ==
  \/ (~HasStatusChannel(c.proto) /\ v.failed /\ v.sentAny)
  \* grpc-go hands the single reply of a method without a server stream to its caller only together with an OK status
  \/ (c.proto = "grpcsock" /\ ~ServerStreams(c.shape) /\ v.failed /\ e.cl.msgs = <<>>)
  \/ /\ Len(e.cl.msgs) = Len(v.msgs)
     /\ \A k \in DOMAIN v.msgs : e.cl.msgs[k].err = "" /\ e.cl.msgs[k].idx = v.msgs[k] /\ e.cl.msgs[k].equal
SendResOK(e, v) == [k \in DOMAIN e.h.sends |-> e.h.sends[k].err] = v.sendRes

NeverOverLimit(e, c) ==
  c.maxrecv > 0 => \A k \in DOMAIN e.h.recv : e.h.recv[k].err = "" => e.h.recv[k].size <= c.maxrecv

\* metadata
\* (a WebSocket session has no place for response metadata)
HdrOK(e, c, v) == c.proto = "ws" \/ SubMD(v.hdr, e.cl.hdr)
TrlOK(e, c, v) == CarriesTrailers(c.proto) => SubMD(v.trl, e.cl.trl)
HdrResOK(e, v) == e.h.hdrerrs = v.hdrRes
\* no protocol-reserved key shows the client a value the handler put under it
NotForged(e) == e.cl.forged = <<>>
ContentTypeOK(e, c) ==
  \/ c.proto = "ws"
  \* an HTTP response without a body needs no content type; if there is one it is the protocol's
  \/ (~IsGrpc(c.proto) /\ ~Has(e.cl.hdr, "content-type"))
  \/ /\ Has(e.cl.hdr, "content-type")
     /\ IF c.proto \in {"grpc", "grpcsock"} THEN e.cl.hdr["content-type"] = <<"application/grpc+" \o e.c.codec>>
        \* (a trailers-only gRPC-web response of the pinned tree says application/grpc+codec: not C14's business)
        ELSE IF c.proto = "grpcweb"
          THEN e.cl.hdr["content-type"] \in {<<"application/grpc-web+" \o e.c.codec>>, <<"application/grpc+" \o e.c.codec>>}
        ELSE IF c.proto = "grpcwebtext"
          THEN e.cl.hdr["content-type"] \in {<<"application/grpc-web-text+" \o e.c.codec>>, <<"application/grpc+" \o e.c.codec>>}
        ELSE Len(e.cl.hdr["content-type"]) = 1 /\ e.cl.hdr["content-type"][1] # "text/evil"
\* request metadata: lower-cased keys, all values in order, reserved protocol keys absent
Lower(k) == k   \* the driver writes request metadata names in lower case in "want" form: see e.c.reqmdlower
MetadataInOK(e) ==
  /\ \A k \in DOMAIN e.reqwant : Has(e.h.md, k) /\ e.h.md[k] = e.reqwant[k]
  /\ \A k \in DOMAIN e.h.md : k \notin ReservedIn

\* interceptors and stats
ICallsOK(e, c, v) ==
  LET want == IF c.shape = "unary" THEN (IF Opt(e, "unaryInt") /\ ~NotEntered(c, v) THEN 1 ELSE 0)
              ELSE (IF Opt(e, "streamInt") THEN 1 ELSE 0) IN
  /\ Len(e.icalls) = want
  /\ want = 1 =>
       /\ e.icalls[1].meth = e.h.method
       /\ e.icalls[1].kind = (IF c.shape = "unary" THEN "unary" ELSE "stream")
       /\ (c.shape # "unary" => e.icalls[1].cs = ClientStreams(c.shape) /\ e.icalls[1].ss = ServerStreams(c.shape))
       /\ (IF v.code = AnyError THEN e.icalls[1].err > 0 ELSE e.icalls[1].err = (IF v.failed THEN v.code ELSE -1))
       \* a stream interceptor that passes a wrapping stream on sees every message of the call go through it
       /\ (c.shape # "unary" =>
             /\ e.icalls[1].recv = Cardinality({k \in DOMAIN e.h.recv : e.h.recv[k].err = ""})
             /\ e.icalls[1].send = Cardinality({k \in DOMAIN e.h.sends : e.h.sends[k].err = ""}))
       \* with a stats handler installed the interceptor (and the handler) run on the context TagRPC returned
       /\ (Opt(e, "stats") => e.icalls[1].tag)
Count(s, t) == Cardinality({k \in DOMAIN s : s[k].t = t})
StatsOK(e, c, v) ==
  Opt(e, "stats") =>
    LET st == e.stats  n == Len(e.stats) IN
    /\ n >= 4 /\ st[1].t = "tag" /\ st[2].t = "inheader" /\ st[3].t = "begin" /\ st[n].t = "end"
    /\ (e.h.invoked = 1 => st[1].meth = e.h.method)
    /\ st[3].cs = ClientStreams(c.shape) /\ st[3].ss = ServerStreams(c.shape)
    /\ \A k \in 4..(n - 1) : st[k].t \in {"inpayload", "outheader", "outpayload", "outtrailer"}
    /\ \A k \in 4..(n - 1) : st[k].t = "outtrailer" => k = n - 1
    /\ Count(st, "end") = 1 /\ Count(st, "outheader") <= 1
    \* every event of the RPC arrives on the context TagRPC returned, and so does the handler's context
    /\ \A k \in 1..n : st[k].tag
    /\ (e.h.invoked = 1 => e.h.tagged)
    \* one InPayload per received message; on HTTP transcoding a message that had no wire payload
    \* (empty body) may go unreported
    /\ Count(st, "inpayload") <= Len(v.recvd)
    /\ Count(st, "inpayload") >= Len(v.recvd) -
          (IF IsGrpc(c.proto) THEN 0 ELSE Cardinality({k \in DOMAIN v.recvd : c.sent[v.recvd[k]] = 0}))
    /\ Count(st, "outpayload") = Len(v.sent)
    /\ (IF v.code = AnyError THEN st[n].err > 0 ELSE st[n].err = (IF v.failed THEN v.code ELSE -1))
NoStats(e) == ~Opt(e, "stats") => e.stats = <<>>

-----------------------------------------------------------------------------
Judge(e) ==
  LET c == WithImplicitRecv(CaseOf(e))
      v == View(c) IN
  IF e.crash # "" THEN {"Crash"}
  ELSE IF e.h.invoked # (IF NotEntered(c, v) THEN 0 ELSE 1) THEN {"Invoked"}
  \* a reply larger than the send limit may be refused or delivered (C08 only forbids refusing replies
  \* within the limit): such RPCs are judged on the request side only
  ELSE IF c.maxsend > 0 /\ \E k \in DOMAIN e.replies : e.replies[k] > c.maxsend
       THEN (IF ~RecvOK(e, c, v) THEN {"RecvSeq"} ELSE {}) \cup (IF ~NeverOverLimit(e, c) THEN {"NeverOverLimit"} ELSE {})
  ELSE (IF ~StatusOK(e, c, v) THEN {"StatusFidelity"} ELSE {})
   \* (C06) the message sequence ends with a final status on the transports that have a channel for it, and the status says
   \* whether the handler succeeded (code, message and details are StatusFidelity's business)
   \cup (IF ~FinalStatusOK(e, c, v) THEN {"FinalStatus"} ELSE {})
   \cup (IF ~RecvOK(e, c, v) THEN {"RecvSeq"} ELSE {})
   \cup (IF ~RepliesOK(e, c, v) \/ (~e.cl.clean /\ ~(~HasStatusChannel(c.proto) /\ v.failed /\ v.sentAny)) THEN {"ReplySeq"} ELSE {})
   \cup (IF ~SendResOK(e, v) THEN {"SendResult"} ELSE {})
   \cup (IF ~NeverOverLimit(e, c) THEN {"NeverOverLimit"} ELSE {})
   \cup (IF ~HdrOK(e, c, v) THEN {"MetadataOutHeader"} ELSE {})
   \cup (IF ~TrlOK(e, c, v) THEN {"MetadataOutTrailer"} ELSE {})
   \cup (IF ~HdrResOK(e, v) THEN {"HeaderPhase"} ELSE {})
   \cup (IF ~ContentTypeOK(e, c) \/ ~NotForged(e) THEN {"ReservedUnforgeable"} ELSE {})
   \cup (IF e.h.invoked = 1 /\ ~MetadataInOK(e) THEN {"MetadataIn"} ELSE {})
   \cup (IF ~ICallsOK(e, c, v) THEN {"InterceptOnce"} ELSE {})
   \cup (IF ~StatsOK(e, c, v) \/ ~NoStats(e) THEN {"StatsWellFormed"} ELSE {})

TRpc ==
  /\ l <= Len(Trace) /\ Trace[l].ev = "Rpc"
  /\ LET e == Trace[l]
         c == CaseOf(e) IN
       /\ failed' = failed \cup {<<e.case, l, f>> : f \in Judge(e)}
       /\ stat' = [stat EXCEPT !.rpcs = @ + 1,
                     !.failing = @ + (IF \E k \in DOMAIN c.script : c.script[k].op = "ret" /\ c.script[k].code # 0 THEN 1 ELSE 0),
                     !.streams = @ + (IF c.shape # "unary" THEN 1 ELSE 0),
                     !.msgsIn = @ + Len(c.sent), !.msgsOut = @ + Len(e.replies),
                     !.withMD = @ + (IF \E k \in DOMAIN c.script : c.script[k].op \in {"sethdr", "settrl"} THEN 1 ELSE 0),
                     !.withOpts = @ + (IF e.c.opts # <<>> THEN 1 ELSE 0),
                     !.limited = @ + (IF c.maxrecv > 0 \/ c.maxsend > 0 THEN 1 ELSE 0),
                     !.overLimit = @ + (IF c.maxrecv > 0 /\ \E k \in DOMAIN c.sent : c.sent[k] > c.maxrecv THEN 1 ELSE 0),
                     !.crashes = @ + (IF e.crash # "" THEN 1 ELSE 0),
                     !.truncated = @ + (IF c.trunc THEN 1 ELSE 0),
                     !.fragmented = @ + (IF e.c.sched # <<>> THEN 1 ELSE 0)]
  /\ l' = l + 1 /\ UNCHANGED rc

TSpec == TInit /\ [][TRpc]_tvars
Report == l > Len(Trace) =>
            PrintT(<<"REPORT", ToJson([consumed |-> l - 1, len |-> Len(Trace), failed |-> failed, stat |-> stat])>>)
=============================================================================
