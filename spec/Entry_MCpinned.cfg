SPECIFICATION Spec
CONSTANTS WebFirst = FALSE
INVARIANTS TypeOK AnsweredOnce HandlerGuarded GrpcNeedsH2 FunctionAgrees
PROPERTY Answered
