---------------------------- MODULE Grammar_Gen ----------------------------
(* Case generation for C16: every lexeme sequence up to GenLen, a family of  *)
(* grammar-derived templates with all their single-edit mutants, and the     *)
(* rule-level cases (body / response_body selectors, nesting, conflicts).    *)
EXTENDS Grammar, Json
CONSTANTS GenLen
VARIABLES x, base   \* base: TRUE while x is an unmutated template / a prefix under enumeration

SegChoices ==
  { <<"*">>, <<"*", "*">>, <<"L">>, <<"s">>, <<"L", ".", "L">>, <<"L", "9">>, <<"9">>,
    <<"{", "s", "}">>, <<"{", "s", "=", "*", "}">>, <<"{", "s", "=", "*", "*", "}">>,
    <<"{", "n", ".", "s", "}">>, <<"{", "i", "}">>, <<"{", "n", ".", "i", "}">>,
    <<"{", "s", "=", "L", "/", "*", "}">>, <<"{", "s", "=", "L", "/", "*", "*", "}">>,
    <<"{", "s", "=", "*", "/", "L", "}">>,
    <<"{", "L", "}">>, <<"{", "n", "}">>, <<"{", "n", ".", "L", "}">>, <<"{", "s", ".", "s", "}">>,
    <<"{", "s", "=", "{", "i", "}", "}">>,
    \* a variable inside a variable's pattern, not in first place (refused: nesting is not part of the grammar)
    <<"{", "s", "=", "L", "/", "{", "i", "}", "}">>, <<"{", "s", "=", "*", "/", "L", "/", "{", "s", "}", "}">>,
    <<"{", "s", "=", "L", "/", "{", "i", "=", "*", "}", "/", "L", "}">> }
VerbChoices == { <<>>, <<":", "L">>, <<":", "s">> }
Tmpls == {<<"/">> \o a \o v : a \in SegChoices, v \in VerbChoices}
         \cup {<<"/">> \o a \o <<"/">> \o b \o v : a \in SegChoices, b \in SegChoices, v \in VerbChoices}

Mutants(y) ==
  {SubSeq(y, 1, k - 1) \o SubSeq(y, k + 1, Len(y)) : k \in DOMAIN y}
  \cup {SubSeq(y, 1, k) \o <<a>> \o SubSeq(y, k + 1, Len(y)) : k \in 0..Len(y), a \in Alphabet}
  \cup {[y EXCEPT ![k] = a] : k \in DOMAIN y, a \in Alphabet}

RECURSIVE Join(_)
Join(y) == IF y = <<>> THEN "" ELSE IF Len(y) = 1 THEN y[1] ELSE y[1] \o " " \o Join(Tail(y))

Init == (x = <<>> /\ base = TRUE) \/ (x \in Tmpls /\ base = TRUE)
Next == \/ /\ base /\ x \notin Tmpls /\ Len(x) < GenLen
           /\ \E a \in Alphabet : x' = Append(x, a) /\ base' = TRUE
        \/ /\ base /\ x \in Tmpls
           /\ x' \in Mutants(x) /\ base' = FALSE
Spec == Init /\ [][Next]_<<x, base>>
Emit == x # <<>> => PrintT(<<"X", Join(x)>>)
=============================================================================
