---------------------------- MODULE Router_Gen ----------------------------
(* Case generation: every reachable rule sequence with the requests the     *)
(* specification derives for it, one JSON line each (run with -workers 1).  *)
EXTENDS Router_MC, Json, SequencesExt

GenNext == \E r \in RuleUniverse : AddRule(r)
GenSpec == Init /\ [][GenNext]_vars

BarePath(p) == [k \in DOMAIN p |-> [sep |-> p[k].sep, seg |-> p[k].seg]]
Emit == rules # <<>> =>
          PrintT(<<"CASE", ToJson([rules |-> rules,
                                   paths |-> SetToSeq({BarePath(p) : p \in Paths(rules)})])>>)
=============================================================================
