SPECIFICATION Spec
CONSTANTS
  Scripts <- OneScript
  Direct = TRUE
  ForwardHalfClose = TRUE
  NeedFirstMessage = FALSE
INVARIANTS Emit
CHECK_DEADLOCK FALSE
