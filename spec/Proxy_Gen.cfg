SPECIFICATION Spec
CONSTANTS
  Scripts <- OneScript
  Direct = TRUE
  ForwardHalfClose = TRUE
  JoinBeforeError = FALSE
  NeedFirstMessage = FALSE
  InterruptibleRecv = TRUE
  FirstSendEOFFatal = FALSE
INVARIANTS Emit
CHECK_DEADLOCK FALSE
