SPECIFICATION Spec
CONSTANTS
  MaxLen = 5
  OneLetterBug = FALSE
INVARIANTS LexerSound LexerComplete ClassTotal AcceptIsLexed RejectGrammarNotLexed
CHECK_DEADLOCK FALSE
