------------------------------- MODULE RegRev -------------------------------
(***************************************************************************)
(* A connection whose backend changes the revision of the service it        *)
(* announces between two registrations (C11: "after any sequence of         *)
(* RegisterConn and DropConn", C01: no route without a rule).  Revision 1   *)
(* binds the method to one template under two verbs, revision 2 to another  *)
(* template under one verb; the implicit /pkg.Service/Method binding and    *)
(* the gRPC method name are common to both.  RegisterConn of a connection   *)
(* the mux already holds with another descriptor hash replaces what it      *)
(* holds: removeHandler (delRule for every method that loses its last       *)
(* backend), then addConnHandler with the new descriptors.                  *)
(*                                                                         *)
(* DelAll = TRUE: delRule removes every binding of the method (the tree     *)
(* since F50).  DelAll = FALSE (guard RegRev_Neg_DelOne): one verb of a     *)
(* template survives the removal - a route no accepted rule covers any more *)
(* once the other revision is registered.                                   *)
(***************************************************************************)
EXTENDS Integers, Sequences, FiniteSets, TLC
CONSTANTS MaxOps, DelAll

Common == {"implicit", "grpc"}
Bindings(r) == IF r = 1 THEN {"oldPost", "oldGet"} \cup Common ELSE IF r = 2 THEN {"new"} \cup Common ELSE {}
AllBindings == Bindings(1) \cup Bindings(2)
Ops == {"register", "drop", "bump"}

VARIABLES ann,    \* the revision the backend announces over reflection (1 or 2)
          reg,    \* the revision the mux holds for the connection, 0 = not registered
          bind,   \* the bindings present in the routing state
          hist
rvars == <<ann, reg, bind, hist>>
Init == ann = 1 /\ reg = 0 /\ bind = {} /\ hist = <<>>

\* what removeHandler leaves of the method's bindings
Own(b) == b \ Common
Removed(b) == IF DelAll THEN {{}} ELSE {Own(b) \ (Own(b) \ {k}) : k \in Own(b)} \cup (IF Own(b) = {} THEN {{}} ELSE {})
Step(op) ==
  /\ Len(hist) < MaxOps /\ hist' = Append(hist, op)
  /\ CASE op = "bump" -> ann' = 3 - ann /\ UNCHANGED <<reg, bind>>
       [] op = "drop" -> /\ ann' = ann /\ reg' = 0
                         /\ IF reg = 0 THEN bind' = bind ELSE \E rest \in Removed(bind) : bind' = rest
       [] op = "register" -> /\ ann' = ann /\ reg' = ann
                             /\ IF reg = ann THEN bind' = bind          \* unchanged connection: nothing to do
                                ELSE IF reg = 0 THEN bind' = bind \cup Bindings(ann)
                                ELSE \E rest \in Removed(bind) : bind' = rest \cup Bindings(ann)
Next == \E op \in Ops : Step(op)
Spec == Init /\ [][Next]_rvars

TypeOK == ann \in {1, 2} /\ reg \in {0, 1, 2} /\ bind \subseteq AllBindings
\* the routes are exactly the bindings of the revision the mux holds
Exact == bind = Bindings(reg)

\* ---- the same as a function of a history (folded by RegRevTrace)
RECURSIVE Fold(_, _, _, _)
Fold(h, i, a, r) == IF i > Len(h) THEN [ann |-> a, reg |-> r]
                    ELSE IF h[i] = "bump" THEN Fold(h, i + 1, 3 - a, r)
                    ELSE IF h[i] = "drop" THEN Fold(h, i + 1, a, 0)
                    ELSE Fold(h, i + 1, a, a)
After(h) == Fold(h, 1, 1, 0)
=============================================================================
