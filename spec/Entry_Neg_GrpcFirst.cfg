SPECIFICATION Spec
CONSTANTS WebFirst = FALSE
INVARIANTS WebServed
