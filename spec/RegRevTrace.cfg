SPECIFICATION TSpec
CONSTANTS
  MaxOps = 0
  DelAll = TRUE
INVARIANTS Report
CHECK_DEADLOCK FALSE
