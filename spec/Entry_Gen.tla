------------------------------ MODULE Entry_Gen ------------------------------
EXTENDS Entry, Json
Emit == pc = "done" => PrintT(<<"ENTRY", ToJson([rq |-> rq, resp |-> resp, invoked |-> invoked])>>)
=============================================================================
