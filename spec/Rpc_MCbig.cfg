SPECIFICATION Spec
CONSTANTS
  GenProtos = {"http", "grpc", "grpcweb"}
  GenShapes = {"unary", "cstream", "sstream", "bidi"}
  MaxSteps = 5
  MDs <- MCMDs
  TrlMDs <- MCTrl
  Codes = {0, 5, 17}
  SentChoices <- MCSent
  SendSizes = {0, 2}
INVARIANTS HeadersOnce RecvPrefix NoReplyOnFailure StatsShape
CHECK_DEADLOCK FALSE
