----------------------------- MODULE RegRev_Gen -----------------------------
EXTENDS RegRev, Json
CONSTANT GenLen
Hists == UNION {[1..n -> Ops] : n \in 1..GenLen}
ASSUME \A h \in Hists : PrintT(<<"HIST", ToJson([ops |-> h])>>)
=============================================================================
