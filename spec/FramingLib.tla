---------------------------- MODULE FramingLib ----------------------------
(***************************************************************************)
(* Constant-free part of the framing specification: byte helpers, varints, *)
(* the JSON object scanner, and the property-level expectation of each     *)
(* ReadNext call as a function of (codec, limit, rest of the stream).      *)
(* Shared by Framing.tla (design) and FramingTrace.tla (trace validation). *)
(***************************************************************************)
EXTENDS Integers, Sequences, FiniteSets, TLC

Range(s) == {s[i] : i \in DOMAIN s}
RECURSIVE Flat(_)
Flat(ss) == IF ss = <<>> THEN <<>> ELSE Head(ss) \o Flat(Tail(ss))
Min(a, b) == IF a < b THEN a ELSE b
Take(s, n) == SubSeq(s, 1, Min(n, Len(s)))
Drop(s, n) == SubSeq(s, Min(n, Len(s)) + 1, Len(s))

-----------------------------------------------------------------------------
(* Varints.  A prefix is a sequence of bytes; bytes >= 128 continue.       *)
(* Value(pre) is exact below 2^28 and "huge" otherwise (TLC integers).     *)
IsPrefixDone(p) == p # <<>> /\ p[Len(p)] < 128 /\ \A k \in 1..(Len(p) - 1) : p[k] >= 128
Pow128(k) == CASE k = 0 -> 1 [] k = 1 -> 128 [] k = 2 -> 16384 [] k = 3 -> 2097152 [] OTHER -> 0
Huge(p) == \E k \in DOMAIN p : k > 4 /\ (p[k] % 128) # 0
RECURSIVE ValueFrom(_, _)
ValueFrom(p, k) == IF k > Len(p) \/ k > 4 THEN 0 ELSE (p[k] % 128) * Pow128(k - 1) + ValueFrom(p, k + 1)
Value(p) == ValueFrom(p, 1)
\* number of prefix bytes at the head of b, 0 if not yet complete, -1 if more than 10
PrefixLen(b) ==
  LET ends == {k \in 1..Min(Len(b), 10) : b[k] < 128} IN
  IF ends # {} THEN CHOOSE k \in ends : \A k2 \in ends : k <= k2
  ELSE IF Len(b) >= 10 THEN -1 ELSE 0

-----------------------------------------------------------------------------
(* JSON object scanner: position just after the object that starts in b,   *)
(* 0 if b holds no complete object, -1 on unbalanced braces.               *)
LB == 123  RB == 125  QT == 34  BS == 92
RECURSIVE ScanJSON(_, _, _, _, _)
ScanJSON(b, i, depth, inStr, esc) ==
  IF i > Len(b) THEN 0
  ELSE LET c == b[i] IN
       IF esc THEN ScanJSON(b, i + 1, depth, inStr, FALSE)
       ELSE IF inStr THEN (IF c = BS THEN ScanJSON(b, i + 1, depth, TRUE, TRUE)
                           ELSE IF c = QT THEN ScanJSON(b, i + 1, depth, FALSE, FALSE)
                           ELSE ScanJSON(b, i + 1, depth, TRUE, FALSE))
       ELSE IF c = LB THEN ScanJSON(b, i + 1, depth + 1, FALSE, FALSE)
       ELSE IF c = RB THEN (IF depth = 1 THEN i ELSE IF depth = 0 THEN -1
                            ELSE ScanJSON(b, i + 1, depth - 1, FALSE, FALSE))
       ELSE IF c = QT THEN ScanJSON(b, i + 1, depth, TRUE, FALSE)
       ELSE ScanJSON(b, i + 1, depth, FALSE, FALSE)
ObjEnd(b) == ScanJSON(b, 1, 0, FALSE, FALSE)

-----------------------------------------------------------------------------
(* Property-level layer *)

FrameBytes(f) == f.pre \o f.body
Encoded(st) == Flat([k \in DOMAIN st.frames |-> FrameBytes(st.frames[k])])
Wire(st) == Take(Encoded(st), st.cut)

\* outcome of one ReadNext call: [k: "msg"|"eof"|"error"|"last", n, msg]
\*   "last" (body codec only): final chunk returned together with end of input
Res(k, msg) == [k |-> k, msg |-> msg]

\* What the call must return when the unconsumed rest of the stream is r.
ExpectedOneP(Codec, Limit, r) ==
  IF Codec = "proto" THEN
    IF r = <<>> THEN Res("eof", <<>>)
    ELSE LET pl == PrefixLen(r) IN
         IF pl = 0 THEN Res("error", <<>>)               \* ends inside the length prefix
         ELSE IF pl = -1 THEN Res("error", <<>>)         \* more than 10 prefix bytes
         ELSE LET p == Take(r, pl) IN
              IF Huge(p) \/ Value(p) > Limit THEN Res("error", <<>>)
              ELSE IF Len(r) - pl < Value(p) THEN Res("error", <<>>)   \* ends inside the payload
              ELSE Res("msg", SubSeq(r, pl + 1, pl + Value(p)))
  ELSE IF Codec = "json" THEN
    IF \A k \in DOMAIN r : r[k] = 32 THEN Res("eof", <<>>)  \* nothing (or only spaces) left: clean end
    ELSE LET e == ObjEnd(r) IN
         IF e = -1 THEN Res("error", <<>>)
         ELSE IF e = 0 THEN (IF Len(r) >= Limit THEN Res("error", <<>>)     \* no object within the limit
                             ELSE Res("error", <<>>))                        \* ends inside an object
         ELSE IF e > Limit THEN Res("error", <<>>)
         ELSE Res("msg", Take(r, e))
  ELSE \* "body"
    IF r = <<>> THEN Res("eof", <<>>)
    ELSE IF Len(r) < Limit THEN Res("last", r)       \* a short final chunk arrives with the end of input
    ELSE Res("msg", Take(r, Limit))

ConsumedP(Codec, r, res) ==
  IF res.k \notin {"msg", "last"} THEN 0
  ELSE IF Codec = "proto" THEN PrefixLen(r) + Len(res.msg) ELSE Len(res.msg)

RECURSIVE ExpectedFromP(_, _, _)
\* the whole sequence of results of repeated calls until eof/error
ExpectedFromP(Codec, Limit, r) ==
  LET res == ExpectedOneP(Codec, Limit, r) IN
  IF res.k = "msg" THEN <<res>> \o ExpectedFromP(Codec, Limit, Drop(r, ConsumedP(Codec, r, res)))
  ELSE <<res>>

------------------------------------------------------------------------=============================================================================
