---------------------------- MODULE Grammar_MC ----------------------------
(* Design check: the recursive-descent lexer accepts exactly the documented *)
(* grammar (every strictly derivable template, nothing underivable), for    *)
(* every lexeme sequence up to MaxLen.                                      *)
EXTENDS Grammar
CONSTANTS MaxLen, OneLetterBug
VARIABLE x
RECURSIVE SeqsOfLen(_, _)
SeqsOfLen(S, n) == IF n = 0 THEN {<<>>} ELSE {<<a>> \o s : a \in S, s \in SeqsOfLen(S, n - 1)}
Init == x = <<>>
Next == Len(x) < MaxLen /\ \E a \in Alphabet : x' = Append(x, a)
Spec == Init /\ [][Next]_x
\* the pinned lexer consumed the first letter of a literal and then demanded one more
Lexed(y) == LexTemplate(y) /\ (OneLetterBug =>
              ~\E k \in DOMAIN y : y[k] \in Letters /\ (k = 1 \/ y[k - 1] \in {"/", "="})
                                    /\ (k = Len(y) \/ y[k + 1] \notin LitCh))
LexerSound    == Lexed(x) => Derivable(x, FALSE)
LexerComplete == Derivable(x, TRUE) => Lexed(x)
ClassTotal    == Class(x) \in {"accept", "reject", "unspecified"}
AcceptIsLexed == Class(x) = "accept" => Lexed(x)
RejectGrammarNotLexed == ~Derivable(x, FALSE) => ~Lexed(x)
=============================================================================
