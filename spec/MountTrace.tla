------------------------------ MODULE MountTrace ------------------------------
(***************************************************************************)
(* Trace validation for C20.  Each Mount event: the configured patterns,   *)
(* the extra handlers, one request (path as segments), a digest of the     *)
(* response of NewServer(...).Handler, and for every mounted prefix that   *)
(* is a prefix of the path the digest of the bare Mux's response to the    *)
(* stripped path.  The specification says which of them must be equal.     *)
(***************************************************************************)
EXTENDS Mount, Json, IOUtils
Trace == ndJsonDeserialize(IOEnv.TRACE)
VARIABLES l, failed, stat
tvars == <<l, failed, stat, mounts, req>>
Stat0 == [reqs |-> 0, viaMux |-> 0, qualified |-> 0, withQuery |-> 0, viaExtra |-> 0, outside |-> 0, nested |-> 0]
TInit == l = 1 /\ failed = {} /\ stat = Stat0 /\ mounts = {} /\ req = <<>>

TMount ==
  /\ l <= Len(Trace) /\ Trace[l].ev = "Mount"
  /\ LET e == Trace[l]
         ms == {e.patterns[k] : k \in DOMAIN e.patterns}
         ens == {MountEntry(p) : p \in ms} \cup {ExtraEntry(e.extras[k]) : k \in DOMAIN e.extras}
         rq == [path |-> e.path, host |-> e.host, meth |-> e.meth]
         sel == Selected(ens, rq)
         stripped == Len(sel.segs)
         bad == IF e.crash # "" THEN {"Crash"}
                ELSE IF sel.kind = "mux" THEN
                  (IF \E k \in DOMAIN e.bares : e.bares[k].n = stripped /\ e.bares[k].digest = e.got THEN {} ELSE {"PrefixTransparent"})
                ELSE IF sel.kind = "extra" THEN (IF e.gottag = sel.tag THEN {} ELSE {"ExtraHandlersKept"})
                ELSE (IF e.gottag = OwnAnswer(ens, rq) THEN {} ELSE {"OutsideNotServed"})
     IN /\ failed' = failed \cup {<<e.case, l, f>> : f \in bad}
        /\ stat' = [stat EXCEPT !.reqs = @ + 1, !.viaMux = @ + (IF sel.kind = "mux" THEN 1 ELSE 0),
                                !.viaExtra = @ + (IF sel.kind = "extra" THEN 1 ELSE 0),
                                !.outside = @ + (IF sel.kind = "none" THEN 1 ELSE 0),
                                !.nested = @ + (IF Len(e.bares) > 1 THEN 1 ELSE 0),
                                !.qualified = @ + (IF \E en \in ens : en.host # "" \/ en.meth # "" THEN 1 ELSE 0),
                                !.withQuery = @ + (IF e.query # "" THEN 1 ELSE 0)]
  /\ l' = l + 1 /\ UNCHANGED <<mounts, req>>
TSpec == TInit /\ [][TMount]_tvars
Report == l > Len(Trace) =>
            PrintT(<<"REPORT", ToJson([consumed |-> l - 1, len |-> Len(Trace), failed |-> failed, stat |-> stat])>>)
=============================================================================
