SPECIFICATION TSpec
CONSTANTS
  GenProtos = {}
  GenShapes = {}
  MaxSteps = 0
  MDs = {}
  TrlMDs = {}
  Codes = {}
  SentChoices = {}
  SendSizes = {}
INVARIANTS Report
CHECK_DEADLOCK FALSE
