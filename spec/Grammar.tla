------------------------------ MODULE Grammar ------------------------------
(***************************************************************************)
(* Path-template grammar (lexer.go header) over a lexeme alphabet, the     *)
(* three-way classification of rules that C16 needs, and an                *)
(* implementation-shaped model of the recursive-descent template lexer.    *)
(*                                                                         *)
(*   Template  = "/" Segments [ Verb ] ;                                   *)
(*   Segments  = Segment { "/" Segment } ;                                 *)
(*   Segment   = "*" | "**" | LITERAL | Variable ;                         *)
(*   Variable  = "{" FieldPath [ "=" Segments ] "}" ;                      *)
(*   FieldPath = IDENT { "." IDENT } ;                                     *)
(*   Verb      = ":" LITERAL ;                                             *)
(*                                                                         *)
(* A template is a sequence of lexemes.  Punctuation: "/", "*", "{", "}",  *)
(* "=", ".", ":".  Text classes: "L" letters that name no field, "s" the   *)
(* name of a string field, "i" of an int32 field, "n" of a message field   *)
(* (with sub-fields s and i), "9" a run of digits, "%" a character no      *)
(* class contains.  The driver renders each lexeme to concrete text; two   *)
(* adjacent "*" are "**", adjacent text lexemes are one longer word.       *)
(***************************************************************************)
EXTENDS Naturals, Sequences, FiniteSets, TLC

Alphabet == {"/", "*", "{", "}", "=", ".", ":", "L", "s", "i", "n", "9", "%"}
Letters  == {"L", "s", "i", "n"}
WordCh   == Letters \cup {"9"}            \* IDENT characters (letters, digits, '-', '_')
LitCh    == WordCh \cup {"."}             \* LITERAL characters

Sub(x, a, b) == SubSeq(x, a, b)
AllIn(x, S)  == \A k \in DOMAIN x : x[k] \in S

-----------------------------------------------------------------------------
(* Declarative derivability.  Lenient = every reading of the grammar       *)
(* (LITERAL / IDENT may start with a digit); Strict = letter-first words.  *)

IsLiteral(x, strict) == x # <<>> /\ AllIn(x, LitCh) /\ (strict => x[1] \in Letters)
IsIdent(x, strict)   == x # <<>> /\ AllIn(x, WordCh) /\ (strict => x[1] \in Letters)

RECURSIVE IsFieldPath(_, _)
IsFieldPath(x, strict) ==
  \/ IsIdent(x, strict)
  \/ \E k \in 2..(Len(x) - 1) : x[k] = "." /\ IsIdent(Sub(x, 1, k - 1), strict)
                                 /\ IsFieldPath(Sub(x, k + 1, Len(x)), strict)

RECURSIVE IsSegments(_, _), IsSegment(_, _), IsVariable(_, _)
IsSegments(x, strict) ==
  \/ IsSegment(x, strict)
  \/ \E k \in 2..(Len(x) - 1) : x[k] = "/" /\ IsSegment(Sub(x, 1, k - 1), strict)
                                 /\ IsSegments(Sub(x, k + 1, Len(x)), strict)
IsSegment(x, strict) ==
  \/ x = <<"*">> \/ x = <<"*", "*">>
  \/ IsLiteral(x, strict)
  \/ IsVariable(x, strict)
IsVariable(x, strict) ==
  /\ Len(x) >= 3 /\ x[1] = "{" /\ x[Len(x)] = "}"
  /\ LET inner == Sub(x, 2, Len(x) - 1) IN
       \/ IsFieldPath(inner, strict)
       \/ \E k \in 2..(Len(inner) - 1) : inner[k] = "=" /\ IsFieldPath(Sub(inner, 1, k - 1), strict)
                                          /\ IsSegments(Sub(inner, k + 1, Len(inner)), strict)

Derivable(x, strict) ==
  /\ Len(x) >= 2 /\ x[1] = "/"
  /\ LET body == Tail(x) IN
       \/ IsSegments(body, strict)
       \/ \E k \in 2..(Len(body) - 1) : body[k] = ":" /\ IsSegments(Sub(body, 1, k - 1), strict)
                                         /\ IsLiteral(Sub(body, k + 1, Len(body)), strict)

-----------------------------------------------------------------------------
(* Structure of a derivable template (used for the classification).        *)

Depth(x, k) == Cardinality({j \in 1..k : x[j] = "{"}) - Cardinality({j \in 1..k : x[j] = "}"})
Nested(x)   == \E k \in DOMAIN x : Depth(x, k) >= 2
\* "**" somewhere other than the end of the segments (before an optional verb / closing braces)
RECURSIVE DropTailClosers(_)
DropTailClosers(x) == IF x # <<>> /\ x[Len(x)] = "}" THEN DropTailClosers(Sub(x, 1, Len(x) - 1)) ELSE x
VerbAt(x) == LET ks == {k \in DOMAIN x : x[k] = ":" /\ Depth(x, k) = 0} IN
             IF ks = {} THEN Len(x) + 1 ELSE CHOOSE k \in ks : \A k2 \in ks : k <= k2
SSNotLast(x) ==
  LET b == DropTailClosers(Sub(x, 1, VerbAt(x) - 1)) IN
  \E k \in 1..(Len(b) - 1) : b[k] = "*" /\ b[k + 1] = "*" /\ k + 1 < Len(b)
DigitFirst(x) == ~Derivable(x, TRUE)   \* derivable only when words may start with a digit

\* field paths of the variables, as sequences of words (each word a sequence of lexemes)
RECURSIVE Words(_)
Words(fp) == LET ks == {k \in DOMAIN fp : fp[k] = "."} IN
             IF ks = {} THEN <<fp>>
             ELSE LET k == CHOOSE k \in ks : \A k2 \in ks : k <= k2 IN
                  <<Sub(fp, 1, k - 1)>> \o Words(Sub(fp, k + 1, Len(fp)))
FieldPathsOf(x) ==
  {LET ends == {j \in (k + 1)..Len(x) : x[j] \in {"=", "}"}}
       e == CHOOSE j \in ends : \A j2 \in ends : j <= j2
   IN Words(Sub(x, k + 1, e - 1)) : k \in {k \in DOMAIN x : x[k] = "{"}}
KnownLeaf  == {<< <<"s">> >>, << <<"i">> >>, << <<"n">>, <<"s">> >>, << <<"n">>, <<"i">> >>}
KnownMsg   == {<< <<"n">> >>}                       \* resolves, but to a message: unspecified
Resolves(fp) == fp \in KnownLeaf
NVars(x) == Cardinality({k \in DOMAIN x : x[k] = "{"})
DupField(x) == Cardinality(FieldPathsOf(x)) < NVars(x)

\* Classification of a template (registered for a fresh method, no conflicts)
Class(x) ==
  IF ~Derivable(x, FALSE) THEN "reject"
  ELSE IF \E fp \in FieldPathsOf(x) : fp \notin KnownLeaf \cup KnownMsg THEN "reject"   \* unknown field
  ELSE IF Nested(x) \/ SSNotLast(x) \/ DigitFirst(x) \/ DupField(x)
          \/ (\E fp \in FieldPathsOf(x) : fp \in KnownMsg) \/ Len(x) > 40
       THEN "unspecified"
  ELSE "accept"

-----------------------------------------------------------------------------
(* Mechanism: the recursive-descent lexer of lexer.go on lexeme sequences.  *)
(* Each function returns the position after what it consumed, or 0.         *)

Run(x, p, S) == LET ends == {j \in p..(Len(x) + 1) : j = Len(x) + 1 \/ x[j] \notin S} IN
                CHOOSE j \in ends : \A j2 \in ends : j <= j2      \* first position not in S

LexIdent(x, p)   == LET e == Run(x, p, WordCh) IN IF e = p THEN 0 ELSE e
LexLiteral(x, p) == LET e == Run(x, p, LitCh) IN IF e = p THEN 0 ELSE e
RECURSIVE LexFieldPath(_, _)
LexFieldPath(x, p) ==
  LET e == LexIdent(x, p) IN
  IF e = 0 THEN 0
  ELSE IF e <= Len(x) /\ x[e] = "." THEN LexFieldPath(x, e + 1) ELSE e

RECURSIVE LexSegments(_, _, _), LexSegment(_, _, _), LexVariable(_, _, _)
\* d bounds the recursion depth (lexer.go recurses through lexVariable)
LexSegment(x, p, d) ==
  IF p > Len(x) THEN 0
  ELSE CASE x[p] \in Letters -> LexLiteral(x, p)
         [] x[p] = "*" -> IF p + 1 <= Len(x) /\ x[p + 1] = "*" THEN p + 2 ELSE p + 1
         [] x[p] = "{" -> IF d = 0 THEN 0 ELSE LexVariable(x, p, d - 1)
         [] OTHER -> 0
LexSegments(x, p, d) ==
  LET e == LexSegment(x, p, d) IN
  IF e = 0 THEN 0
  ELSE IF e <= Len(x) /\ x[e] = "/" THEN LexSegments(x, e + 1, d) ELSE e
LexVariable(x, p, d) ==
  LET f == LexFieldPath(x, p + 1) IN
  IF f = 0 \/ f > Len(x) THEN 0
  ELSE IF x[f] = "=" THEN LET g == LexSegments(x, f + 1, d) IN
                          IF g = 0 \/ g > Len(x) \/ x[g] # "}" THEN 0 ELSE g + 1
       ELSE IF x[f] = "}" THEN f + 1 ELSE 0

LexTemplate(x) ==
  /\ x # <<>> /\ x[1] = "/"
  /\ LET e == LexSegments(x, 2, 8) IN
       /\ e # 0
       /\ \/ e = Len(x) + 1
          \/ /\ e <= Len(x) /\ x[e] = ":"
             /\ LexLiteral(x, e + 1) = Len(x) + 1
=============================================================================
