SPECIFICATION Spec
CONSTANTS
  Codec = "proto"
  Streams <- NoStreams
  Limit = 3
  MaxChunk = 6
  EofDropsData = FALSE
  PhantomOnEof = FALSE
  CountCarry = TRUE
  Sizes = {0, 1, 2, 3, 4}
  MaxFrames = 3
  Trunc = TRUE
CHECK_DEADLOCK FALSE
