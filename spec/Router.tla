------------------------------- MODULE Router -------------------------------
(***************************************************************************)
(* Routing: registration of HTTP rules and lookup of a request.            *)
(*                                                                         *)
(* Property-level layer: LookupAny -- any outcome the properties C01/C02   *)
(* allow, defined with Template.tla only.                                  *)
(* Mechanism-level layer: the path trie (literal edges, variable edges     *)
(* kept in a canonical order, per-kind method table with "*" fallback)     *)
(* and the depth-first search with backtracking, written as the code is    *)
(* meant to work (rules.go addRule / search / variable.index).             *)
(* TLC checks that every mechanism outcome is an allowed outcome, for      *)
(* every rule sequence and every derived request within the constants.     *)
(***************************************************************************)
EXTENDS Template

CONSTANTS
  Elems,        \* top-level template elements used to build templates
  MaxSegs,      \* templates have 1..MaxSegs elements
  Verbs,        \* template verbs ("" = none)
  RuleKinds,    \* kinds of rules: "GET", "POST", "*", custom
  ReqKinds,     \* kinds of requests
  Methods,      \* method ids
  MaxRules,     \* length of rule sequences
  Fill,         \* segments used to instantiate wildcards
  VarsSorted,   \* mechanism switch: variable edges kept in canonical order
  SlashBeforeVar, \* mechanism switch: a variable edge is only entered after "/"
  RelIndex,     \* mechanism switch: capture lengths relative to the current token
  LitFirst      \* mechanism switch: the literal edge is tried before the variable edges

VARIABLES rules,  \* sequence of accepted rules, registration order
          look    \* last lookup: [kind, path, out] or [kind |-> "none"]

vars == <<rules, look>>

DocOf(seg) == seg \notin {"", "u"}     \* "u": a segment with an undocumented character
IntOf(seg) == seg = "7"
MkTok(sep, seg) == Tk(sep, seg, DocOf(seg), IntOf(seg))

-----------------------------------------------------------------------------
(* Template and rule universes *)

RECURSIVE SeqsOfLen(_, _)
SeqsOfLen(S, n) == IF n = 0 THEN {<<>>} ELSE {<<x>> \o s : x \in S, s \in SeqsOfLen(S, n - 1)}
SeqsUpTo(S, n) == UNION {SeqsOfLen(S, k) : k \in 1..n}

Templates == {tm \in [segs : SeqsUpTo(Elems, MaxSegs), verb : Verbs] : Plain(tm)}
RuleUniverse == [kind : RuleKinds, tmpl : Templates, m : Methods]

-----------------------------------------------------------------------------
(* Mechanism: edges, trie-as-entries, insertion with duplicate check *)

\* canonical byte order of pattern names ("*" < "/" < letters), as sort.Sort on names gives
Code(ch) == CASE ch = "*" -> 42 [] ch = "/" -> 47 [] ch = "a" -> 97 [] ch = "b" -> 98
              [] ch = "c" -> 99 [] OTHER -> 120
RECURSIVE NameCodes(_)
NameCodes(pat) ==
  IF pat = <<>> THEN <<>>
  ELSE LET e == Head(pat)
           me == CASE e.t = "lit" -> <<Code(e.v)>> [] e.t = "star" -> <<42>> [] OTHER -> <<42, 42>>
       IN me \o (IF Tail(pat) = <<>> THEN <<>> ELSE <<47>> \o NameCodes(Tail(pat)))
RECURSIVE LexLess(_, _)
LexLess(s, t) == IF t = <<>> THEN FALSE ELSE IF s = <<>> THEN TRUE
                 ELSE IF Head(s) # Head(t) THEN Head(s) < Head(t) ELSE LexLess(Tail(s), Tail(t))

LitEdge(sep, seg) == [e |-> "lit", sep |-> sep, seg |-> seg, pat |-> <<>>]
VarEdge(pat)      == [e |-> "var", sep |-> "", seg |-> "", pat |-> pat]

ElemEdge(el) == CASE el.t = "lit"  -> LitEdge("/", el.v)
                  [] el.t = "star" -> VarEdge(<<Star>>)
                  [] el.t = "ss"   -> VarEdge(<<SS>>)
                  [] OTHER         -> VarEdge(el.pat)
EdgesOf(tm) == [k \in DOMAIN tm.segs |-> ElemEdge(tm.segs[k])]
                 \o (IF tm.verb = "" THEN <<>> ELSE <<LitEdge(":", tm.verb)>>)

\* a rule conflicts with an accepted one when they end at the same trie node with
\* overlapping kinds but belong to different methods (addRule's duplicate check)
SameNode(r1, r2)  == EdgesOf(r1.tmpl) = EdgesOf(r2.tmpl)
Conflicts(r1, r2) == SameNode(r1, r2) /\ r1.m # r2.m
                     /\ (r1.kind = r2.kind \/ r1.kind = "*" \/ r2.kind = "*")
\* same node, same method, overlapping kind: "already registered", the new rule is ignored
Shadowed(r1, r2)  == SameNode(r1, r2) /\ r1.m = r2.m
                     /\ (r1.kind = r2.kind \/ r1.kind = "*" \/ r2.kind = "*")

Acceptable(rs, r) == \A k \in DOMAIN rs : ~Conflicts(rs[k], r)

-----------------------------------------------------------------------------
(* Mechanism: search *)

IsPrefixOf(n, es) == Len(n) <= Len(es) /\ SubSeq(es, 1, Len(n)) = n

\* entries that pass through node n, in registration order
Through(rs, n) == SelectSeq(rs, LAMBDA r : IsPrefixOf(n, EdgesOf(r.tmpl)))

\* variable edges at node n, in the order the trie keeps them
RECURSIVE InsertSorted(_, _)
InsertSorted(s, v) ==
  IF s = <<>> THEN <<v>>
  ELSE IF LexLess(NameCodes(v.pat), NameCodes(Head(s).pat)) THEN <<v>> \o s
       ELSE <<Head(s)>> \o InsertSorted(Tail(s), v)
RECURSIVE VarEdgesFrom(_, _, _)
VarEdgesFrom(th, n, acc) ==
  IF th = <<>> THEN acc
  ELSE LET es == EdgesOf(Head(th).tmpl) IN
       IF Len(es) > Len(n) /\ es[Len(n) + 1].e = "var" /\ es[Len(n) + 1] \notin Range(acc)
       THEN VarEdgesFrom(Tail(th), n,
              IF VarsSorted THEN InsertSorted(acc, es[Len(n) + 1]) ELSE Append(acc, es[Len(n) + 1]))
       ELSE VarEdgesFrom(Tail(th), n, acc)
VarEdgesAt(rs, n) == VarEdgesFrom(Through(rs, n), n, <<>>)

HasChild(rs, n, edge) == \E k \in DOMAIN rs : IsPrefixOf(Append(n, edge), EdgesOf(rs[k].tmpl))

\* capture length of a variable pattern against toks (0 = no match); rules.go variable.index.
\* Tokens are (sep, seg) pairs, so the '/' between two pattern atoms is the sep of the
\* token the second atom starts at.  i = tokens consumed so far.
RECURSIVE IndexFrom(_, _, _, _)
IndexFrom(pat, k, toks, i) ==
  IF k > Len(pat) THEN i
  ELSE IF i >= Len(toks) THEN 0
  ELSE LET e == pat[k]  t == toks[i + 1]
           sepOK == t.sep = "/" \/ (k = 1 /\ ~SlashBeforeVar)
       IN
       IF ~sepOK THEN 0
       ELSE CASE e.t = "lit"  -> IF t.seg = e.v THEN IndexFrom(pat, k + 1, toks, i + 1) ELSE 0
              [] e.t = "star" -> IndexFrom(pat, k + 1, toks, i + 1)
              [] OTHER -> \* "**": up to the first ':' token at or after the current one, else to the end
                   LET from == IF RelIndex THEN i + 2 ELSE 2   \* Neg model: offset counted from the start
                       colons == {j \in from..Len(toks) : toks[j].sep = ":"}
                       first == CHOOSE j \in colons : \A j2 \in colons : j <= j2
                       cnt == IF colons = {} THEN Len(toks)
                              ELSE IF RelIndex THEN first - 1 ELSE i + first - 1
                   IN IF cnt <= i \/ cnt > Len(toks) THEN 0 ELSE IndexFrom(pat, k + 1, toks, cnt)
Index(pat, toks) == IF toks = <<>> THEN 0 ELSE IndexFrom(pat, 1, toks, 0)

Fail(why) == [k |-> "reject", why |-> why, m |-> "", caps |-> {}]

\* the rule that answers kind at terminal node n: exact kind first, then "*"
Terminal(rs, n, kind) ==
  LET here == SelectSeq(rs, LAMBDA r : EdgesOf(r.tmpl) = n)
      exact == SelectSeq(here, LAMBDA r : r.kind = kind)
      all == SelectSeq(here, LAMBDA r : r.kind = "*")
  IN IF exact # <<>> THEN <<exact[1]>> ELSE IF all # <<>> THEN <<all[1]>> ELSE <<>>

\* the top-level elements of a template that become variable edges, in order
Wild(r) == SelectSeq([k \in DOMAIN r.tmpl.segs |-> k], LAMBDA k : r.tmpl.segs[k].t # "lit")

\* captured token runs (in path order) -> [fp, val] per variable element of the rule
CapsFor(r, runs) ==
  LET wild == Wild(r)
  IN {[fp |-> r.tmpl.segs[wild[j]].fp, val |-> Blank1(Bare(runs[j]))] :
        j \in {j \in DOMAIN wild : r.tmpl.segs[wild[j]].t = "var"}}

\* Depth-first search.  Result: [k |-> "hit", rule, runs] or Fail(why).  As in rules.go the
\* capture of a variable edge is converted when its sub-search returns: a text that does
\* not convert ends the search of that node ("convert"), and a caller treats any failure
\* of a sub-search as a dead branch and goes on with its next alternative.
Hit(r, runs) == [k |-> "hit", why |-> "", rule |-> r, runs |-> runs]
RECURSIVE Search(_, _, _, _, _), TryVars(_, _, _, _, _, _)
Search(rs, n, toks, kind, runs) ==
  IF toks = <<>>
  THEN LET t == Terminal(rs, n, kind) IN
       IF t = <<>> THEN Fail("method") ELSE Hit(t[1], runs)
  ELSE LET le == LitEdge(toks[1].sep, toks[1].seg)
           viaLit == IF HasChild(rs, n, le) THEN Search(rs, Append(n, le), Tail(toks), kind, runs)
                     ELSE Fail("notfound")
           viaVar == TryVars(rs, n, VarEdgesAt(rs, n), toks, kind, runs)
       IN IF LitFirst
          THEN (IF viaLit.k = "hit" THEN viaLit ELSE viaVar)
          ELSE (IF viaVar.k = "hit" \/ viaVar.why = "convert" THEN viaVar ELSE viaLit)
TryVars(rs, n, vs, toks, kind, runs) ==
  IF vs = <<>> THEN Fail("notfound")
  ELSE LET l == Index(Head(vs).pat, toks) IN
       IF l = 0 THEN TryVars(rs, n, Tail(vs), toks, kind, runs)
       ELSE LET mine == SubSeq(toks, 1, l)
                sub == Search(rs, Append(n, Head(vs)), SubSeq(toks, l + 1, Len(toks)), kind,
                              Append(runs, mine))
            IN IF sub.k # "hit" THEN TryVars(rs, n, Tail(vs), toks, kind, runs)
               ELSE LET el == sub.rule.tmpl.segs[Wild(sub.rule)[Len(runs) + 1]] IN
                    IF el.t = "var" /\ ~ConvertibleToks(el.fp, mine) THEN Fail("convert") ELSE sub

\* requests larking's path lexer refuses: empty segment, undocumented character, too many tokens
Lexable(p) == \A k \in DOMAIN p : p[k].seg # "" /\ p[k].doc

MechLookup(rs, kind, p0) ==
  LET p == DropTrailingSlash(p0) IN
  IF ~Lexable(p) THEN Fail("lex")
  ELSE LET h == Search(rs, <<>>, p, kind, <<>>) IN
       IF h.k # "hit" THEN h
       ELSE [k |-> "dispatch", why |-> "", m |-> h.rule.m, caps |-> CapsFor(h.rule, h.runs)]

-----------------------------------------------------------------------------
(* Property-level layer *)

RulesOf(rs, m) == {rs[k] : k \in {j \in DOMAIN rs : rs[j].m = m}}

\* C01: a dispatch is allowed only to a method one of whose rules covers the request
Sound(rs, kind, p, out) ==
  out.k = "dispatch" =>
    \E r \in RulesOf(rs, out.m) :
      /\ KindOK(r.kind, kind)
      /\ \E cs \in CaptureSetsLenient(r.tmpl, p) :
           out.caps = {[fp |-> c.fp, val |-> c.val] : c \in cs}

MatchingStrict(rs, kind, p) ==
  {rs[k] : k \in {j \in DOMAIN rs : KindOK(rs[j].kind, kind) /\ MatchesStrict(rs[j].tmpl, p)}}

AllConvertible(R, p) ==
  \A r \in R : \A cs \in CaptureSetsStrict(r.tmpl, p) : \A c \in cs : c.conv

\* C02 completeness: a strictly matching rule with convertible captures means a dispatch
Complete(rs, kind, p, out) ==
  LET R == MatchingStrict(rs, kind, p) IN
  (R # {} /\ AllConvertible(R, p) /\ Len(p) <= 10) => out.k = "dispatch"

\* C02 literal precedence.  r2 is dominated by r1 at path p when their templates agree
\* element for element up to some position and there r1 spells the segment as a
\* top-level literal while r2 covers it with a wildcard or variable.
Dominates(r1, r2) ==
  \E k \in DOMAIN r1.tmpl.segs :
    /\ k \in DOMAIN r2.tmpl.segs
    /\ SubSeq(r1.tmpl.segs, 1, k - 1) = SubSeq(r2.tmpl.segs, 1, k - 1)
    /\ r1.tmpl.segs[k].t = "lit" /\ r2.tmpl.segs[k].t # "lit"
\* Two-sided: the dispatched method must own a rule that covers the request (lenient
\* reading) and that no strictly matching rule dominates.
MatchingLenient(rs, kind, p) ==
  {rs[k] : k \in {j \in DOMAIN rs : KindOK(rs[j].kind, kind) /\ MatchesLenient(rs[j].tmpl, p)}}
LiteralFirst(rs, kind, p, out) ==
  LET R == MatchingStrict(rs, kind, p)
      U == {r \in MatchingLenient(rs, kind, p) : ~\E r1 \in R : Dominates(r1, r)}
  IN (out.k = "dispatch" /\ R # {} /\ AllConvertible(R, p)) => out.m \in {r.m : r \in U}

Allowed(rs, kind, p, out) ==
  Sound(rs, kind, p, out) /\ Complete(rs, kind, p, out) /\ LiteralFirst(rs, kind, p, out)

-----------------------------------------------------------------------------
(* Requests derived from a rule set: instantiations and single-edit near misses *)

FillsFor(el) == Fill   \* every wildcard is filled with every Fill segment

RECURSIVE InstAtoms(_, _)
\* set of token sequences instantiating atoms[k..]
InstAtoms(a, k) ==
  IF k > Len(a) THEN {<<>>}
  ELSE LET rest == InstAtoms(a, k + 1)
           mine == CASE a[k].t = "lit"  -> {<<MkTok("/", a[k].v)>>}
                     [] a[k].t = "star" -> {<<MkTok("/", f)>> : f \in Fill}
                     [] OTHER -> {<<MkTok("/", f)>> : f \in Fill}
                                 \cup {<<MkTok("/", f), MkTok("/", "p")>> : f \in Fill}
       IN {x \o y : x \in mine, y \in rest}
Instances(tm) ==
  {b \o (IF tm.verb = "" THEN <<>> ELSE <<MkTok(":", tm.verb)>>) : b \in InstAtoms(Atoms(tm), 1)}

Flip(t) == MkTok(IF t.sep = "/" THEN ":" ELSE "/", t.seg)
NearMisses(p) ==
  {SubSeq(p, 1, k - 1) \o SubSeq(p, k + 1, Len(p)) : k \in DOMAIN p}                 \* drop one
  \cup {SubSeq(p, 1, k) \o <<MkTok("/", "q")>> \o SubSeq(p, k + 1, Len(p)) : k \in 0..Len(p)} \* insert
  \cup {[p EXCEPT ![k] = MkTok(p[k].sep, "q")] : k \in DOMAIN p}                      \* replace
  \cup {[p EXCEPT ![k] = Flip(p[k])] : k \in DOMAIN p}                                \* '/' <-> ':'
  \cup {p \o <<MkTok(":", "v")>>, p \o <<MkTok(":", "w")>>, p \o <<MkTok("/", "")>>,
        p \o <<MkTok("/", "u")>>, <<MkTok("/", "")>> \o p,
        \* more than the one trailing slash the mux forgives, and an empty segment inside
        p \o <<MkTok("/", ""), MkTok("/", "")>>, p \o <<MkTok("/", ""), MkTok("/", ""), MkTok("/", "")>>}
  \cup {SubSeq(p, 1, k) \o <<MkTok("/", "")>> \o SubSeq(p, k + 1, Len(p)) : k \in 1..(Len(p) - 1)}
Canon(tm) == CHOOSE p \in Instances(tm) : TRUE
Paths(rs) == UNION {Instances(rs[k].tmpl) \cup NearMisses(Canon(rs[k].tmpl)) : k \in DOMAIN rs} \ {<<>>}

-----------------------------------------------------------------------------
(* Actions *)

Init == rules = <<>> /\ look = [kind |-> "none"]

AddRule(r) ==
  /\ look.kind = "none"
  /\ Len(rules) < MaxRules
  /\ Acceptable(rules, r)
  /\ ~\E k \in DOMAIN rules : Shadowed(rules[k], r)   \* re-declarations are a no-op; not explored
  /\ rules' = Append(rules, r)
  /\ look' = [kind |-> "none"]

\* mechanism lookup
Lookup(kind, p) ==
  /\ look.kind = "none"     \* lookups do not change the routing state: explored from the base state only
  /\ rules # <<>>
  /\ look' = [kind |-> kind, path |-> p, out |-> MechLookup(rules, kind, p)]
  /\ UNCHANGED rules

\* property-level lookup: any allowed outcome (used by the trace specification)
LookupAny(kind, p, out) ==
  /\ Allowed(rules, kind, p, out)
  /\ look' = [kind |-> kind, path |-> p, out |-> out]
  /\ UNCHANGED rules

Next == \/ \E r \in RuleUniverse : AddRule(r)
        \/ \E kind \in ReqKinds : \E p \in Paths(rules) : Lookup(kind, p)

Spec == Init /\ [][Next]_vars

-----------------------------------------------------------------------------
(* Invariants: the mechanism refines the property layer *)

Soundness    == look.kind # "none" => Sound(rules, look.kind, look.path, look.out)
Completeness == look.kind # "none" => Complete(rules, look.kind, look.path, look.out)
LiteralWins  == look.kind # "none" => LiteralFirst(rules, look.kind, look.path, look.out)

\* all registration orders of the same rule set answer alike (2-safety by self-composition)
Perms(s) == {t \in [DOMAIN s -> DOMAIN s] : \A i, j \in DOMAIN s : i # j => t[i] # t[j]}
OrderIndependent ==
  look.kind # "none" =>
    \A pi \in Perms(rules) :
      LET rs2 == [k \in DOMAIN rules |-> rules[pi[k]]] IN
      \* only orders that registration accepts as a whole
      (\A k \in DOMAIN rs2 : Acceptable(SubSeq(rs2, 1, k - 1), rs2[k]))
        => MechLookup(rs2, look.kind, look.path) = look.out

\* rule sets whose acceptance depends on the order are outside the obligations
OrderFreeAcceptance ==
  \A pi \in Perms(rules) :
    LET rs2 == [k \in DOMAIN rules |-> rules[pi[k]]] IN
    \A k \in DOMAIN rs2 : Acceptable(SubSeq(rs2, 1, k - 1), rs2[k])
=============================================================================
