SPECIFICATION TSpec
INVARIANTS Report
CHECK_DEADLOCK FALSE
