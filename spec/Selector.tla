------------------------------ MODULE Selector ------------------------------
(***************************************************************************)
(* Service-config rule selectors (C19) and the healthz scenario.           *)
(* A name is a sequence of components; a selector is [path, wild]:         *)
(*   "a.b.C" = [path |-> <<a,b,C>>, wild |-> FALSE]                         *)
(*   "a.b.*" = [path |-> <<a,b>>,   wild |-> TRUE],  "*" = [<<>>, TRUE]     *)
(* Declarative: Covers.  Mechanism: the selector trie of mux.go (setRules  *)
(* stores a rule at the node its selector walks to; getRules collects      *)
(* along the walk of the method name).                                     *)
(***************************************************************************)
EXTENDS Naturals, Sequences, FiniteSets, TLC

IsPrefix(p, n) == Len(p) <= Len(n) /\ SubSeq(n, 1, Len(p)) = p

\* a wildcard matches one or more further components
Covers(sel, name) == IF sel.wild THEN Len(name) > Len(sel.path) /\ IsPrefix(sel.path, name)
                     ELSE name = sel.path

CONSTANTS Comps, MaxDepth, MaxSels,
          SeparateExact   \* mechanism switch: exact selectors only apply at the end of the walk

RECURSIVE SeqsOfLen(_, _)
SeqsOfLen(S, n) == IF n = 0 THEN {<<>>} ELSE {<<x>> \o s : x \in S, s \in SeqsOfLen(S, n - 1)}
Names == UNION {SeqsOfLen(Comps, k) : k \in 1..MaxDepth}
Sels  == [path : Names, wild : BOOLEAN] \cup {[path |-> <<>>, wild |-> TRUE]}

VARIABLES sels,    \* set of selectors configured
          name,    \* method name looked up
          got      \* selectors whose rules the lookup returned
svars == <<sels, name, got>>

\* Mechanism.  The trie node of a selector is its path; getRules(name) visits the
\* nodes <<>>, name[1..1], ... name[1..Len(name)] while they exist and collects:
\*   - wildcard rules of every node visited before the last component is consumed,
\*   - exact rules of the node reached when the whole name is consumed.
NodeExists(S, p) == p = <<>> \/ \E s \in S : IsPrefix(p, s.path)
Collected(S, n) ==
  LET reach == {k \in 0..Len(n) : \A j \in 0..k : NodeExists(S, SubSeq(n, 1, j))}
  IN {s \in S : \E k \in reach :
        /\ s.path = SubSeq(n, 1, k)
        /\ IF SeparateExact THEN (IF s.wild THEN k < Len(n) ELSE k = Len(n))
           ELSE TRUE}

Init == sels = {} /\ name = <<>> /\ got = {}
AddSel(s) == /\ name = <<>> /\ Cardinality(sels) < MaxSels /\ s \notin sels
             /\ sels' = sels \cup {s} /\ UNCHANGED <<name, got>>
Get(n) == /\ name = <<>> /\ sels # {}
          /\ name' = n /\ got' = Collected(sels, n) /\ UNCHANGED sels
Next == (\E s \in Sels : AddSel(s)) \/ (\E n \in Names : Get(n))
Spec == Init /\ [][Next]_svars

SelectorIff == name # <<>> => got = {s \in sels : Covers(s, name)}
=============================================================================
