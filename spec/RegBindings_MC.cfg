SPECIFICATION Spec
CONSTANTS
  Backends = {"c1", "c2", "c3"}
  Methods = {"m0", "m1", "m2"}
  Extras <- MCExtras
  Serves <- MCServes
  DelAll = TRUE
INVARIANTS TypeOK Reachable NoLeftover
