------------------------------ MODULE Template ------------------------------
(***************************************************************************)
(* Declarative layer for routing: google.api.http path templates, request  *)
(* paths and what it means for a template to match a path.  No algorithm   *)
(* of larking appears here; Router.tla holds the implementation-shaped     *)
(* trie and search and TLC checks that it refines this module.             *)
(*                                                                         *)
(* Elem  == [t: {"lit","star","ss","var"}, v: STRING, fp: Seq(STRING),     *)
(*           pat: Seq(Elem)]          (uniform records so sets are typed)  *)
(* Tmpl  == [segs: Seq(Elem), verb: STRING]          ("" = no verb)        *)
(* Tok   == [sep: {"/",":"}, seg: STRING, doc: BOOLEAN, int: BOOLEAN]      *)
(*   doc = every character is one larking documents as a path character;   *)
(*   int = seg is the canonical decimal text of an int32.                  *)
(* Path  == Seq(Tok): the request path cut at every '/' and ':'.           *)
(***************************************************************************)
EXTENDS Naturals, Sequences, FiniteSets, TLC

Lit(v)      == [t |-> "lit",  v |-> v,  fp |-> <<>>, pat |-> <<>>]
Star        == [t |-> "star", v |-> "", fp |-> <<>>, pat |-> <<>>]
SS          == [t |-> "ss",   v |-> "", fp |-> <<>>, pat |-> <<>>]
Var(fp,pat) == [t |-> "var",  v |-> "", fp |-> fp,   pat |-> pat]

Tk(sep, seg, doc, int) == [sep |-> sep, seg |-> seg, doc |-> doc, int |-> int]

Range(s) == {s[i] : i \in DOMAIN s}

RECURSIVE SeqSum(_)
SeqSum(s) == IF s = <<>> THEN 0 ELSE Head(s) + SeqSum(Tail(s))

RECURSIVE FlattenSeq(_)
FlattenSeq(ss) == IF ss = <<>> THEN <<>> ELSE Head(ss) \o FlattenSeq(Tail(ss))

(***************************************************************************)
(* Atoms: the template flattened to lit/star/ss atoms, each tagged with    *)
(* the index of the top-level element it came from (so a variable's        *)
(* capture is what the atoms with its index cover).                        *)
(***************************************************************************)
RECURSIVE AtomsFrom(_, _)
AtomsFrom(segs, k) ==
  IF k > Len(segs) THEN <<>>
  ELSE LET e == segs[k] IN
       (IF e.t = "var"
        THEN [j \in 1..Len(e.pat) |-> [t |-> e.pat[j].t, v |-> e.pat[j].v, el |-> k]]
        ELSE << [t |-> e.t, v |-> e.v, el |-> k] >>) \o AtomsFrom(segs, k + 1)

Atoms(tm) == AtomsFrom(tm.segs, 1)

(***************************************************************************)
(* Well-formedness classes of templates (see DESIGN 3.1).                  *)
(***************************************************************************)
NoNestedVar(tm) == \A k \in DOMAIN tm.segs :
                     tm.segs[k].t = "var" => \A j \in DOMAIN tm.segs[k].pat : tm.segs[k].pat[j].t # "var"
SSOnlyLast(tm)  == LET a == Atoms(tm) IN \A k \in DOMAIN a : a[k].t = "ss" => k = Len(a)
VarFields(tm)   == {tm.segs[k].fp : k \in {j \in DOMAIN tm.segs : tm.segs[j].t = "var"}}
DistinctFields(tm) == Cardinality(VarFields(tm)) = Cardinality({j \in DOMAIN tm.segs : tm.segs[j].t = "var"})
NonEmptyPats(tm) == \A k \in DOMAIN tm.segs : tm.segs[k].t = "var" => tm.segs[k].pat # <<>>
\* the class for which "must" obligations are stated
Plain(tm) == /\ tm.segs # <<>> /\ NoNestedVar(tm) /\ NonEmptyPats(tm)
             /\ SSOnlyLast(tm) /\ DistinctFields(tm)

(***************************************************************************)
(* Readings of a path.  A reading is [groups: Seq(Seq(Tok)), ok: BOOLEAN]. *)
(* Strict: every token is its own segment, every separator is "/" except   *)
(* that the last one is ":" exactly when the template has that verb.       *)
(* Lenient: ':' may also be an ordinary character of a segment (AIP        *)
(* reading: only the last ':' of the last segment starts the verb), one    *)
(* trailing '/' may be ignored, and "**" may cover zero segments.          *)
(***************************************************************************)
AllSlash(p) == \A k \in DOMAIN p : p[k].sep = "/"
AllDoc(p)   == \A k \in DOMAIN p : p[k].doc /\ p[k].seg # ""

\* strict: [ok, body] where body is the token sequence the segments must cover
StrictBody(tm, p) ==
  IF tm.verb = ""
  THEN [ok |-> p # <<>> /\ AllSlash(p), body |-> p]
  ELSE IF Len(p) >= 2
       THEN [ok |-> p[Len(p)].sep = ":" /\ p[Len(p)].seg = tm.verb
                    /\ AllSlash(SubSeq(p, 1, Len(p) - 1)),
             body |-> SubSeq(p, 1, Len(p) - 1)]
       ELSE [ok |-> FALSE, body |-> <<>>]

RECURSIVE GroupFrom(_, _)
\* cut p[k..] into groups, each starting at a "/" token
GroupFrom(p, k) ==
  IF k > Len(p) THEN <<>>
  ELSE LET RECURSIVE End(_)
           End(j) == IF j + 1 <= Len(p) /\ p[j + 1].sep = ":" THEN End(j + 1) ELSE j
           e == End(k)
       IN << SubSeq(p, k, e) >> \o GroupFrom(p, e + 1)

DropTrailingSlash(p) ==
  IF p # <<>> /\ p[Len(p)].sep = "/" /\ p[Len(p)].seg = "" THEN SubSeq(p, 1, Len(p) - 1) ELSE p

\* lenient: set of group sequences (each group a non-empty token sequence)
LenientBodies(tm, p0) ==
  LET One(p) ==
        IF p = <<>> \/ p[1].sep # "/" THEN {}
        ELSE LET g == GroupFrom(p, 1) IN
             IF tm.verb = "" THEN {g}
             ELSE LET lg == g[Len(g)] IN
                  IF Len(lg) >= 2 /\ lg[Len(lg)].seg = tm.verb
                  THEN {[g EXCEPT ![Len(g)] = SubSeq(lg, 1, Len(lg) - 1)]}
                  ELSE {}
  IN One(p0) \cup One(DropTrailingSlash(p0))

(***************************************************************************)
(* Covers(atoms, groups, minSS): set of sequences c, Len(c) = Len(atoms),  *)
(* c[k] = number of groups atom k covers, such that the atoms match the    *)
(* groups exactly.  A "lit" matches a group that is the single token with  *)
(* that text.                                                              *)
(***************************************************************************)
RECURSIVE CoversFrom(_, _, _, _, _)
CoversFrom(a, i, g, j, minSS) ==
  IF i > Len(a) THEN (IF j > Len(g) THEN {<<>>} ELSE {})
  ELSE CASE a[i].t = "lit" ->
              IF j <= Len(g) /\ Len(g[j]) = 1 /\ g[j][1].seg = a[i].v
              THEN {<<1>> \o c : c \in CoversFrom(a, i + 1, g, j + 1, minSS)} ELSE {}
         [] a[i].t = "star" ->
              IF j <= Len(g)
              THEN {<<1>> \o c : c \in CoversFrom(a, i + 1, g, j + 1, minSS)} ELSE {}
         [] a[i].t = "ss" ->
              UNION {{<<n>> \o c : c \in CoversFrom(a, i + 1, g, j + n, minSS)} :
                       n \in minSS..(Len(g) - j + 1)}
         [] OTHER -> {}

(***************************************************************************)
(* Field kinds of the request type used by the routing cases, and          *)
(* convertibility of a capture to the bound field's kind, decided on the   *)
(* covered tokens (which carry the int flag).                              *)
(***************************************************************************)
FieldKind(fp) == IF fp[Len(fp)] = "i" THEN "int32" ELSE "string"
ConvertibleToks(fp, toks) ==
  FieldKind(fp) = "string" \/ (Len(toks) = 1 /\ toks[1].int)

\* A capture is the token sequence covered, with the leading separator blanked.
Blank1(toks) == IF toks = <<>> THEN <<>> ELSE [toks EXCEPT ![1] = [sep |-> "", seg |-> toks[1].seg]]
Bare(toks)   == [k \in DOMAIN toks |-> [sep |-> toks[k].sep, seg |-> toks[k].seg]]

\* captures of one cover: set of [fp, val] records, one per variable element
CapturesOf(tm, a, g, c) ==
  LET start(k) == 1 + SeqSum(SubSeq(c, 1, k - 1))   \* first group of atom k
      VarEls == {k \in DOMAIN tm.segs : tm.segs[k].t = "var"}
      GroupsOf(el) == LET ks == {k \in DOMAIN a : a[k].el = el}
                          lo == start(CHOOSE k \in ks : \A k2 \in ks : k <= k2)
                          hiK == CHOOSE k \in ks : \A k2 \in ks : k >= k2
                          hi == start(hiK) + c[hiK] - 1
                      IN SubSeq(g, lo, hi)
  IN {[fp |-> tm.segs[el].fp, val |-> Blank1(Bare(FlattenSeq(GroupsOf(el)))),
        conv |-> ConvertibleToks(tm.segs[el].fp, FlattenSeq(GroupsOf(el)))] : el \in VarEls}

SingleGroups(p) == [k \in DOMAIN p |-> <<p[k]>>]

MatchesStrict(tm, p) ==
  /\ Plain(tm)
  /\ LET b == StrictBody(tm, p) IN
       /\ b.ok /\ AllDoc(p)
       /\ CoversFrom(Atoms(tm), 1, SingleGroups(b.body), 1, 1) # {}

\* set of capture sets, one per (reading, cover)
CaptureSetsLenient(tm, p) ==
  LET a == Atoms(tm) IN
  UNION {{CapturesOf(tm, a, g, c) : c \in CoversFrom(a, 1, g, 1, 0)} : g \in LenientBodies(tm, p)}

MatchesLenient(tm, p) == CaptureSetsLenient(tm, p) # {}

CaptureSetsStrict(tm, p) ==
  LET a == Atoms(tm)  b == StrictBody(tm, p) IN
  IF ~b.ok THEN {} ELSE
  {CapturesOf(tm, a, SingleGroups(b.body), c) : c \in CoversFrom(a, 1, SingleGroups(b.body), 1, 1)}

KindOK(ruleKind, reqKind) == ruleKind = reqKind \/ ruleKind = "*"
=============================================================================
