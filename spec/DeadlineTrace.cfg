SPECIFICATION TSpec
CONSTANTS
  Shapes = {}
  Points = {}
  Vias = {}
  DetachBackend = FALSE
INVARIANTS Report
CHECK_DEADLOCK FALSE
