SPECIFICATION TSpec
CONSTANTS
  Shapes = {}
  Points = {}
INVARIANTS Report
CHECK_DEADLOCK FALSE
