SPECIFICATION Spec
CONSTANTS
  Scripts <- BigScripts
  Direct = FALSE
  ForwardHalfClose = TRUE
  JoinBeforeError = FALSE
  NeedFirstMessage = FALSE
INVARIANTS TranscriptEquivalence BackendSawPrefix BackendSawAll NoPumpOutlivesHandler
PROPERTY Finishes
