SPECIFICATION Spec
CONSTANTS
  Bodies = {"*", "b", "none"}
  ParamOrder = "path-last"
INVARIANTS Reassembly PathAuthoritative OthersIntact
CHECK_DEADLOCK FALSE
