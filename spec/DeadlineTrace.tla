---------------------------- MODULE DeadlineTrace ----------------------------
(***************************************************************************)
(* Trace validation for C15: Timeout events (one gRPC / gRPC-web request   *)
(* with a grpc-timeout header) and Cancel events (a client cancel or       *)
(* disconnect issued while a gated handler is in a known position).        *)
(***************************************************************************)
EXTENDS Deadline, Json, IOUtils
Trace == ndJsonDeserialize(IOEnv.TRACE)
VARIABLES l, failed, stat
tvars == <<l, failed, stat, hpos, ctxDone, cancelled, released, via, fdone>>
Stat0 == [timeouts |-> 0, wellformed |-> 0, malformed |-> 0, unspecified |-> 0, cancels |-> 0, blocked |-> 0, proxied |-> 0]
TInit == l = 1 /\ failed = {} /\ stat = Stat0 /\ hpos = "running" /\ ctxDone = FALSE /\ cancelled = FALSE /\ released = FALSE /\ via = "local" /\ fdone = FALSE

TTimeout ==
  /\ l <= Len(Trace) /\ Trace[l].ev = "Timeout"
  /\ LET e == Trace[l]
         s == e.shape
         bad == IF e.crash # "" THEN {"Crash"}
                ELSE IF WellFormed(s) THEN
                  \* a duration under 200 ms may run out before the handler is entered: then nothing is observable
                  (IF e.small /\ ~e.invoked THEN {}
                   ELSE IF ~e.invoked \/ ~e.has \/ e.delta > 250 THEN {"DeadlineSet"} ELSE {})
                ELSE IF Unspecified(s) THEN {}
                ELSE (IF e.invoked THEN {"MalformedRefused"} ELSE {})
     IN /\ failed' = failed \cup {<<e.case, l, f>> : f \in bad}
        /\ stat' = [stat EXCEPT !.timeouts = @ + 1, !.wellformed = @ + (IF WellFormed(s) THEN 1 ELSE 0),
                                !.malformed = @ + (IF ~WellFormed(s) /\ ~Unspecified(s) THEN 1 ELSE 0),
                                !.unspecified = @ + (IF Unspecified(s) THEN 1 ELSE 0)]
  /\ l' = l + 1 /\ UNCHANGED <<hpos, ctxDone, cancelled, released, via, fdone>>

\* the observed run must be a behaviour of CSpec that reaches the goal of CancelReleases within the wait; the blocked call
\* must return an error that is not io.EOF (io.EOF tells the handler the client finished its stream: it would go on and
\* commit a partial upload)
TCancel ==
  /\ l <= Len(Trace) /\ Trace[l].ev = "Cancel"
  /\ LET e == Trace[l]
         \* On HTTP/1.1 net/http only notices a closed connection while somebody reads it: with an unfinished
         \* request body and a handler that is not in Recv the disconnect is not observable (third-party contract).
         \* The same holds while the terminating chunk of a chunked body has not been consumed: a streaming handler that
         \* has read its one message frame but written nothing yet (lateend) cannot be told.
         observable == /\ (e.client = "grpc-cancel" \/ e.shape \in {"unary", "sstream"} \/ e.point \in {"blockedRecv", "blockedFirstRecv"})
                       /\ (e.lateend => \/ e.point \in {"idleAfterSend", "returned"}             \* a reply write drained the body
                                         \/ (e.point = "blockedSend" /\ e.shape \in {"sstream", "bidi"})
                                         \/ (e.client = "http-disconnect" /\ e.shape = "unary"))  \* the unary body is read to its end
         bad == IF e.crash # "" THEN {"Crash"}
                ELSE IF ~observable THEN {}
                ELSE (IF ~e.ctxdone THEN {"CancelReachesContext"} ELSE {})
                     \cup (IF e.point \in {"blockedRecv", "blockedFirstRecv", "blockedSend"} /\ e.reached /\ ~(e.released /\ e.relerr /\ ~e.releof) THEN {"CancelReleases"} ELSE {})
                     \cup (IF e.donebefore THEN {"SpuriousDone"} ELSE {})
                     \* a reply sent after the client's cancellation reached the handler is not reported as delivered (gRPC and
                     \* gRPC-web clients that cancel; on a local handler - the forwarder's backend stream has its own rules)
                     \cup (IF e.point = "idleAfterSend" /\ e.client = "grpc-cancel" /\ e.via = "local" /\ e.latesend = "nil" THEN {"SendAfterCancelFails"} ELSE {})
     IN /\ failed' = failed \cup {<<e.case, l, f>> : f \in bad}
        /\ stat' = [stat EXCEPT !.cancels = @ + 1, !.blocked = @ + (IF e.point \in {"blockedRecv", "blockedFirstRecv", "blockedSend"} /\ e.reached THEN 1 ELSE 0),
                                !.proxied = @ + (IF e.via = "proxied" THEN 1 ELSE 0)]
  /\ l' = l + 1 /\ UNCHANGED <<hpos, ctxDone, cancelled, released, via, fdone>>

TSpec == TInit /\ [][TTimeout \/ TCancel]_tvars
Report == l > Len(Trace) =>
            PrintT(<<"REPORT", ToJson([consumed |-> l - 1, len |-> Len(Trace), failed |-> failed, stat |-> stat])>>)
=============================================================================
