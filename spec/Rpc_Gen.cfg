SPECIFICATION Spec
CONSTANTS
  GenProtos = {"http", "twirp", "grpc", "grpcweb", "grpcwebtext"}
  GenShapes = {"unary", "cstream", "sstream", "bidi"}
  MaxSteps = 7
  MDs <- MCMDs
  TrlMDs <- MCTrl
  Codes = {0, 5, 13}
  SentChoices <- MCSent
  SendSizes = {0, 2}
INVARIANTS Emit
CHECK_DEADLOCK FALSE
