-------------------------------- MODULE Entry --------------------------------
(***************************************************************************)
(* How a request enters the mux (C09; mux.go ServeHTTP, grpc.go serveGRPC,  *)
(* web.go serveGRPCWeb, http.go serveHTTP up to the handler call).          *)
(*                                                                         *)
(* The request is an abstract record (HTTP version, content-type class,    *)
(* method, Grpc-Encoding, grpc-timeout, path class, Upgrade header).  Every *)
(* guard of the three entry functions is one action: it either answers the *)
(* request (a plain http.Error with a status, a transcoding error) or moves *)
(* on; the last step calls the handler and the response takes the shape of *)
(* the entry's protocol.  There is no action that panics and no state      *)
(* without a successor short of "done": every request is answered, exactly *)
(* once, and its shape is a function of the request class.                 *)
(*                                                                         *)
(* Entry_Gen prints every abstract request with the response the model     *)
(* gives; the hostile driver concretises each (several spellings, option   *)
(* subsets, byte-level mutations of the body only for the crash oracle) and *)
(* EntryTrace.tla compares the recorded response shape with it.            *)
(***************************************************************************)
EXTENDS Integers, Sequences, FiniteSets, TLC

CONSTANTS WebFirst      \* mechanism switch: the gRPC-web prefix is tested before the gRPC prefix (TRUE: the code since fix F37;
                        \* FALSE: the pinned order, kept as vacuity guard Entry_Neg_GrpcFirst)

\* ("+body" names the internal HttpBody chunk codec, which is not a message codec: it must be refused like "+zz")
CTs == {"grpc", "grpc+proto", "grpc+json", "grpc+zz", "grpc+body", "grpcx",
        "web", "web+json", "webtext", "webtext+json", "web+zz", "web+body", "webx",
        "json", "proto", "none", "junk"}
IsWebCT(ct)  == ct \in {"web", "web+json", "webtext", "webtext+json", "web+zz", "web+body", "webx"}      \* prefix application/grpc-web
IsGrpcCT(ct) == IsWebCT(ct) \/ ct \in {"grpc", "grpc+proto", "grpc+json", "grpc+zz", "grpc+body", "grpcx"} \* prefix application/grpc
\* what strings.Cut(ct, "+") gives
TypOK(ct)    == ct \notin {"grpcx", "webx"}            \* the part before "+" is exactly a protocol name
SubCodec(ct) == CASE ct \in {"grpc", "grpc+proto", "web", "webtext"} -> "proto"
                  [] ct \in {"grpc+json", "web+json", "webtext+json"} -> "json"
                  [] OTHER -> "zz"
Paths == {"rpc", "stream", "rule", "ws", "none"}   \* POST /pkg.Svc/Unary, POST /pkg.Svc/Bidi, GET rule, WEBSOCKET rule, unknown
\* grpc-timeout: absent, well formed, malformed, or well formed but already over when it arrives ("-1S": the decoder
\* takes a sign, as grpc-go's does)
Requests == [h2 : BOOLEAN, ct : CTs, meth : {"POST", "GET"}, genc : {"", "gzip", "zz"}, to : {"", "ok", "bad", "expired"},
             path : Paths, upg : BOOLEAN]

VARIABLES rq, pc, resp, invoked, asWeb
evars == <<rq, pc, resp, invoked, asWeb>>

NoResp == [class |-> "none", status |-> 0]
Plain(st) == [class |-> "plain", status |-> st]       \* http.Error: text/plain, no handler
Init == rq \in Requests /\ pc = "dispatch" /\ resp = NoResp /\ invoked = 0 /\ asWeb = FALSE

Answer(r) == resp' = r /\ pc' = "done"
Goto(p) == pc' = p /\ UNCHANGED resp

\* ---- mux.go ServeHTTP
Dispatch ==
  /\ pc = "dispatch" /\ UNCHANGED <<rq, invoked, resp>>
  /\ LET web == IsWebCT(rq.ct)
         grpc == rq.h2 /\ IsGrpcCT(rq.ct) IN
     IF WebFirst
     THEN IF web THEN pc' = "web.check" /\ asWeb' = TRUE
          ELSE IF grpc THEN pc' = "grpc.method" /\ asWeb' = FALSE
          ELSE pc' = "http.match" /\ asWeb' = FALSE
     ELSE IF grpc THEN pc' = "grpc.method" /\ asWeb' = FALSE
          ELSE IF web THEN pc' = "web.check" /\ asWeb' = TRUE
          ELSE pc' = "http.match" /\ asWeb' = FALSE

\* ---- web.go serveGRPCWeb
WebCheck ==
  /\ pc = "web.check" /\ UNCHANGED <<rq, invoked, asWeb>>
  /\ IF rq.meth # "POST" \/ ~TypOK(rq.ct) THEN Answer(Plain(400))
     ELSE IF rq.upg THEN Answer(Plain(500))
     ELSE Goto("grpc.codec")        \* rewritten to application/grpc+codec, HTTP/2, POST: the first two gRPC guards pass

\* ---- grpc.go serveGRPC (one action per guard, in the order of the code)
GrpcMethod ==
  /\ pc = "grpc.method" /\ UNCHANGED <<rq, invoked, asWeb>>
  /\ IF rq.meth # "POST" THEN Answer(Plain(400)) ELSE Goto("grpc.codec")
GrpcCodec ==
  /\ pc = "grpc.codec" /\ UNCHANGED <<rq, invoked, asWeb>>
  \* without WebFirst a web content type reaches this guard over HTTP/2 and is not "application/grpc"
  /\ IF ~TypOK(rq.ct) \/ SubCodec(rq.ct) = "zz" \/ (IsWebCT(rq.ct) /\ ~asWeb) THEN Answer(Plain(415)) ELSE Goto("grpc.enc")
GrpcEnc ==
  /\ pc = "grpc.enc" /\ UNCHANGED <<rq, invoked, asWeb>>
  /\ IF rq.genc = "zz" THEN Answer(Plain(415)) ELSE Goto("grpc.timeout")
GrpcTimeout ==
  /\ pc = "grpc.timeout" /\ UNCHANGED <<rq, invoked, asWeb>>
  /\ IF rq.to = "bad" THEN Answer(Plain(400)) ELSE Goto("grpc.route")
GrpcRoute ==
  /\ pc = "grpc.route" /\ UNCHANGED <<rq, invoked, asWeb>>
  /\ IF rq.path \notin {"rpc", "stream"} THEN Answer(Plain(404)) ELSE Goto("grpc.call")
\* a call whose deadline is already over may end without any status (grpc.go: "return // ctx canceled"): the client
\* is gone or has reported DeadlineExceeded itself.  Class "expired": HTTP 200, nothing else promised.
GrpcCall ==
  /\ pc = "grpc.call" /\ UNCHANGED <<rq, asWeb>>
  /\ invoked' = invoked + 1
  /\ IF rq.to = "expired" THEN Answer([class |-> "expired", status |-> 200])
     ELSE Answer([class |-> IF asWeb THEN "web" ELSE "grpc", status |-> 200])

\* ---- http.go serveHTTP
\* the verb a rule must be registered under: WEBSOCKET when upgrading (exact header value "websocket")
Verb == IF rq.upg THEN "WEBSOCKET" ELSE rq.meth
\* (the implicit /pkg.Service/Method binding is registered for every verb, WEBSOCKET included)
Routed == \/ rq.path \in {"rpc", "stream"}
          \/ rq.path = "rule" /\ Verb = "GET"
          \/ rq.path = "ws" /\ Verb = "WEBSOCKET"
HttpErr(st) == [class |-> "httperr", status |-> st]       \* a google.rpc.Status body in a registered codec
HttpMatch ==
  /\ pc = "http.match" /\ UNCHANGED <<rq, invoked, asWeb>>
  /\ IF ~Routed THEN Answer(HttpErr(404))
     ELSE IF rq.upg THEN Goto("http.upgrade") ELSE Goto("http.call")
\* the WebSocket upgrade needs a hijackable connection; what happens on it is WsSession.tla's business
HttpUpgrade ==
  /\ pc = "http.upgrade" /\ UNCHANGED <<rq, invoked, asWeb>>
  /\ Answer([class |-> "upgrade", status |-> 0])
\* the handler runs; the codec for the request/reply is looked up inside it (first RecvMsg / SendMsg)
CodecKnown == rq.ct \in {"json", "proto", "none"}
HttpCall ==
  /\ pc = "http.call" /\ UNCHANGED <<rq, asWeb>>
  /\ invoked' = invoked + 1
  /\ IF CodecKnown THEN Answer([class |-> "http", status |-> 200])
     ELSE Answer([class |-> "httperr", status |-> 0])      \* 0: some status >= 400

Next == Dispatch \/ WebCheck \/ GrpcMethod \/ GrpcCodec \/ GrpcEnc \/ GrpcTimeout \/ GrpcRoute \/ GrpcCall
        \/ HttpMatch \/ HttpUpgrade \/ HttpCall
        \/ (pc = "done" /\ UNCHANGED evars)
Spec == Init /\ [][Next]_evars /\ WF_evars(Next)

-----------------------------------------------------------------------------
(* The same decision as a function of the request (used by RobustTrace.tla); FunctionAgrees ties it to the machine. *)
GrpcGuards(r, web) ==
  IF ~TypOK(r.ct) \/ SubCodec(r.ct) = "zz" \/ (IsWebCT(r.ct) /\ ~web) THEN Plain(415)
  ELSE IF r.genc = "zz" THEN Plain(415)
  ELSE IF r.to = "bad" THEN Plain(400)
  ELSE IF r.path \notin {"rpc", "stream"} THEN Plain(404)
  ELSE IF r.to = "expired" THEN [class |-> "expired", status |-> 200]
  ELSE [class |-> IF web THEN "web" ELSE "grpc", status |-> 200]
WebResp(r) == IF r.meth # "POST" \/ ~TypOK(r.ct) THEN Plain(400) ELSE IF r.upg THEN Plain(500) ELSE GrpcGuards(r, TRUE)
GrpcResp(r) == IF r.meth # "POST" THEN Plain(400) ELSE GrpcGuards(r, FALSE)
HttpResp(r) ==
  LET verb == IF r.upg THEN "WEBSOCKET" ELSE r.meth
      routed == r.path \in {"rpc", "stream"} \/ (r.path = "rule" /\ verb = "GET") \/ (r.path = "ws" /\ verb = "WEBSOCKET") IN
  IF ~routed THEN HttpErr(404)
  ELSE IF r.upg THEN [class |-> "upgrade", status |-> 0]
  ELSE IF r.ct \in {"json", "proto", "none"} THEN [class |-> "http", status |-> 200]
  ELSE [class |-> "httperr", status |-> 0]
Resp(r) ==
  LET web == IsWebCT(r.ct)  grpc == r.h2 /\ IsGrpcCT(r.ct) IN
  IF WebFirst THEN (IF web THEN WebResp(r) ELSE IF grpc THEN GrpcResp(r) ELSE HttpResp(r))
  ELSE (IF grpc THEN GrpcResp(r) ELSE IF web THEN WebResp(r) ELSE HttpResp(r))
FunctionAgrees == pc = "done" => resp = Resp(rq)

TypeOK == /\ rq \in Requests /\ invoked \in 0..1
          /\ resp.class \in {"none", "plain", "grpc", "web", "http", "httperr", "upgrade", "expired"}
\* C09: every request is answered (no stuck state; liveness under weak fairness)
Answered == <>(pc = "done")
AnsweredOnce == (pc = "done") <=> (resp # NoResp)
\* a handler only runs for requests that passed every guard of their entry
HandlerGuarded == invoked = 1 => resp.class \in {"grpc", "web", "http", "httperr", "expired"}
\* gRPC proper needs HTTP/2
GrpcNeedsH2 == resp.class = "grpc" => rq.h2
\* a well-formed gRPC-web request is served as gRPC-web whatever the HTTP version
WebWellFormed == /\ rq.ct \in {"web", "web+json", "webtext", "webtext+json"} /\ rq.meth = "POST" /\ ~rq.upg
                 /\ rq.genc # "zz" /\ rq.to \in {"", "ok"} /\ rq.path \in {"rpc", "stream"}
WebServed == (pc = "done" /\ WebWellFormed) => resp.class = "web"
=============================================================================
