SPECIFICATION Spec
CONSTANTS
  Pats <- MCPats
  Extras <- MCExtras
  Paths <- MCReqs
INVARIANTS PrefixReachesMux ExtraKept QualifiedExtraIsNarrow
CHECK_DEADLOCK FALSE
