SPECIFICATION Spec
CONSTANTS
  Pats <- MCPats
  Extras <- MCExtras
  Paths <- MCPaths
INVARIANTS PrefixReachesMux ExtraKept
CHECK_DEADLOCK FALSE
