SPECIFICATION Spec
CONSTANTS
  MaxLen = 4
  ContNeedsStart = FALSE
  CloseEndsLatched = TRUE
INVARIANTS TypeOK NoPhantom Ordered NoDrop EndJustified
PROPERTIES Latched
CHECK_DEADLOCK FALSE
