SPECIFICATION Spec
CONSTANTS WebFirst = TRUE
INVARIANTS Emit
