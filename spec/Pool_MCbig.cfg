SPECIFICATION Spec
CONSTANTS
  Reqs = {"r1", "r2", "r3", "r4"}
  Bufs = {"b1", "b2", "b3"}
  CopyOut = TRUE
  PutOnce = TRUE
INVARIANTS SingleOwner RetainedStable
CHECK_DEADLOCK FALSE
