SPECIFICATION TSpec
CONSTANTS MaxLen = 0
INVARIANTS Report
CHECK_DEADLOCK FALSE
