-------------------------------- MODULE Mount --------------------------------
(***************************************************************************)
(* NewServer with MuxHandleOption / HTTPHandlerOption (C20).               *)
(* A pattern is [segs: Seq(STRING), slash: BOOLEAN] ("/x/" = <<"x">>,TRUE; *)
(* "/" = <<>>,TRUE; "/x" = <<"x">>,FALSE).  net/http.ServeMux picks the    *)
(* longest registered pattern matching the path; a mux mount strips its    *)
(* prefix before the Mux sees the request.                                 *)
(***************************************************************************)
EXTENDS Integers, Sequences, FiniteSets, TLC

IsPrefix(p, s) == Len(p) <= Len(s) /\ SubSeq(s, 1, Len(p)) = p

\* how NewServer registers a mux pattern: the prefix without trailing slash, as a subtree
MountEntry(pat) == [segs |-> pat.segs, slash |-> TRUE, kind |-> "mux", tag |-> ""]
ExtraEntry(pat, tag) == [segs |-> pat.segs, slash |-> pat.slash, kind |-> "extra", tag |-> tag]

\* ServeMux: a subtree pattern ("/a/") matches every path below it, an exact pattern only itself
Matches(en, path) == IF en.slash THEN IsPrefix(en.segs, path) /\ (Len(path) > Len(en.segs) \/ en.segs = <<>>)
                     ELSE path = en.segs
Selected(entries, path) ==
  LET ms == {en \in entries : Matches(en, path)} IN
  IF ms = {} THEN [kind |-> "none", segs |-> <<>>, slash |-> FALSE, tag |-> ""]
  ELSE CHOOSE en \in ms : \A e2 \in ms : Len(en.segs) >= Len(e2.segs)

\* exploration for the design check: nested mounts never shadow an extra handler on a disjoint pattern, etc.
CONSTANTS Pats, Extras, Paths
VARIABLES mounts, req
mvars == <<mounts, req>>
NoDup(ms) == \A a, b \in ms : a.segs = b.segs => a = b
Init == /\ mounts \in {ms \in SUBSET Pats : ms # {} /\ Cardinality(ms) <= 3 /\ NoDup(ms)} /\ req \in Paths
Next == UNCHANGED mvars
Spec == Init /\ [][Next]_mvars
Entries(ms) == {MountEntry(p) : p \in ms} \cup {ExtraEntry(e.pat, e.tag) : e \in Extras}
\* a path under a mount prefix reaches the mux unless a longer registered pattern owns it
PrefixReachesMux ==
  LET sel == Selected(Entries(mounts), req) IN
  (\E m \in mounts : IsPrefix(m.segs, req) /\ Len(req) > Len(m.segs)) => sel.kind \in {"mux", "extra"}
\* extra handlers keep their own patterns whenever no mount is at least as specific
ExtraKept ==
  \A e \in Extras : Matches(ExtraEntry(e.pat, e.tag), req) /\ (\A m \in mounts : Len(m.segs) < Len(e.pat.segs))
                    => Selected(Entries(mounts), req).kind = "extra"
=============================================================================
