-------------------------------- MODULE Mount --------------------------------
(***************************************************************************)
(* NewServer with MuxHandleOption / HTTPHandlerOption (C20).               *)
(* A pattern is [segs: Seq(STRING), slash: BOOLEAN] ("/x/" = <<"x">>,TRUE; *)
(* "/" = <<>>,TRUE; "/x" = <<"x">>,FALSE).  net/http.ServeMux picks the    *)
(* longest registered pattern matching the path; a mux mount strips its    *)
(* prefix before the Mux sees the request.                                 *)
(***************************************************************************)
EXTENDS Integers, Sequences, FiniteSets, TLC

IsPrefix(p, s) == Len(p) <= Len(s) /\ SubSeq(s, 1, Len(p)) = p

\* how NewServer registers a mux pattern: the prefix without trailing slash, as a subtree
MountEntry(pat) == [segs |-> pat.segs, slash |-> TRUE, kind |-> "mux", tag |-> "", host |-> "", meth |-> ""]
\* an extra handler's pattern may name a host and a method ("GET admin.test/debug/", Go 1.22 ServeMux patterns)
ExtraEntry(e) == [segs |-> e.pat.segs, slash |-> e.pat.slash, kind |-> "extra", tag |-> e.tag, host |-> e.host, meth |-> e.meth]

\* ServeMux: a subtree pattern ("/a/") matches every path below it, an exact pattern only itself
\* A request is [path, host, meth].
PathMatches(en, path) == IF en.slash THEN IsPrefix(en.segs, path) /\ (Len(path) > Len(en.segs) \/ en.segs = <<>>)
                         ELSE path = en.segs
HostMatches(en, rq) == en.host = "" \/ en.host = rq.host
Matches(en, rq) == PathMatches(en, rq.path) /\ HostMatches(en, rq) /\ (en.meth = "" \/ en.meth = rq.meth)
\* precedence among the matching patterns: patterns naming the host first, then the longest path, then the one
\* naming the method
Rank(en) == <<IF en.host # "" THEN 1 ELSE 0, Len(en.segs), IF en.meth # "" THEN 1 ELSE 0>>
Before(a, b) == \/ a[1] > b[1] \/ (a[1] = b[1] /\ a[2] > b[2]) \/ (a[1] = b[1] /\ a[2] = b[2] /\ a[3] >= b[3])
None == [kind |-> "none", segs |-> <<>>, slash |-> FALSE, tag |-> "", host |-> "", meth |-> ""]
Selected(entries, rq) ==
  LET ms == {en \in entries : Matches(en, rq)} IN
  IF ms = {} THEN None
  ELSE CHOOSE en \in ms : \A e2 \in ms : Before(Rank(en), Rank(e2))
\* what ServeMux answers itself when nothing matches: 405 when only the method stands in the way, else 404
OwnAnswer(entries, rq) == IF \E en \in entries : PathMatches(en, rq.path) /\ HostMatches(en, rq) THEN "servemux405" ELSE "servemux404"

\* exploration for the design check: nested mounts never shadow an extra handler on a disjoint pattern, etc.
CONSTANTS Pats, Extras, Paths
VARIABLES mounts, req
mvars == <<mounts, req>>
NoDup(ms) == \A a, b \in ms : a.segs = b.segs => a = b
Init == /\ mounts \in {ms \in SUBSET Pats : ms # {} /\ Cardinality(ms) <= 3 /\ NoDup(ms)} /\ req \in Paths
Next == UNCHANGED mvars
Spec == Init /\ [][Next]_mvars
Entries(ms) == {MountEntry(p) : p \in ms} \cup {ExtraEntry(e) : e \in Extras}
\* a path under a mount prefix reaches the mux unless a longer registered pattern owns it
PrefixReachesMux ==
  LET sel == Selected(Entries(mounts), req) IN
  (\E m \in mounts : IsPrefix(m.segs, req.path) /\ Len(req.path) > Len(m.segs)) => sel.kind \in {"mux", "extra"}
\* extra handlers keep their own patterns whenever no mount is at least as specific
ExtraKept ==
  \A e \in Extras : Matches(ExtraEntry(e), req) /\ (\A m \in mounts : Len(m.segs) < Len(e.pat.segs))
                    => Selected(Entries(mounts), req).kind = "extra"
\* a host- or method-qualified extra pattern never takes a request of another host / method away from the mux
QualifiedExtraIsNarrow ==
  LET sel == Selected(Entries(mounts), req) IN
  sel.kind = "extra" => (sel.host \in {"", req.host} /\ sel.meth \in {"", req.meth})
=============================================================================
