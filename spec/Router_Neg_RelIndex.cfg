SPECIFICATION Spec
CONSTANTS
  Elems <- MCElems
  MaxSegs = 1
  Verbs = {"", "v"}
  RuleKinds = {"GET", "*"}
  ReqKinds = {"GET", "POST"}
  Methods = {"M1", "M2"}
  MaxRules = 2
  Fill = {"a", "p", "7"}
  VarsSorted = TRUE
  SlashBeforeVar = TRUE
  RelIndex = FALSE
  LitFirst = TRUE
CONSTRAINT FirstIsM1
INVARIANTS Soundness Completeness LiteralWins OrderIndependent
CHECK_DEADLOCK FALSE
