SPECIFICATION Spec
CONSTANTS
  Codec = "body"
  Streams <- MCStreams
  Limit = 2
  MaxChunk = 6
  EofDropsData = FALSE
  PhantomOnEof = FALSE
  CountCarry = FALSE
  Sizes = {0, 1, 2, 3, 5}
  MaxFrames = 3
  Trunc = TRUE
INVARIANTS FragmentationInvariant AllReturned ByteConservation LimitSafe NoPhantom
CHECK_DEADLOCK FALSE
