SPECIFICATION Spec
CONSTANTS WebFirst = TRUE
INVARIANTS TypeOK AnsweredOnce HandlerGuarded GrpcNeedsH2 WebServed FunctionAgrees
PROPERTY Answered
