SPECIFICATION CSpec
CONSTANTS
  Shapes = {"unary", "cstream", "sstream", "bidi"}
  Points = {"running", "blockedRecv", "blockedFirstRecv", "blockedSend", "returned", "idleAfterSend"}
  Vias = {"local", "proxied"}
  DetachBackend = TRUE
INVARIANTS NoSpuriousDone
PROPERTY CancelReleases
CHECK_DEADLOCK FALSE
