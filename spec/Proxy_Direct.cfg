SPECIFICATION Spec
CONSTANTS
  Scripts <- AllScripts
  Direct = TRUE
  ForwardHalfClose = TRUE
  JoinBeforeError = FALSE
  NeedFirstMessage = FALSE
INVARIANTS TranscriptEquivalence BackendSawPrefix BackendSawAll NoPumpOutlivesHandler
PROPERTY Finishes
