SPECIFICATION Spec
CONSTANTS
  Scripts <- AllScripts
  Direct = TRUE
  ForwardHalfClose = TRUE
  NeedFirstMessage = FALSE
INVARIANTS TranscriptEquivalence BackendSawPrefix BackendSawAll NoPumpOutlivesHandler
PROPERTY Finishes
