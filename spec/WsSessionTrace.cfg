SPECIFICATION TSpec
CONSTANTS
  MaxLen = 0
  ContNeedsStart = TRUE
  CloseEndsLatched = TRUE
INVARIANTS Report
CHECK_DEADLOCK FALSE
