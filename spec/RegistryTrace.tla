---------------------------- MODULE RegistryTrace ----------------------------
(***************************************************************************)
(* Trace validation of registration histories on the real Mux (C11) and    *)
(* of the deterministic snapshot monitor (C12).  Events: Hist (new mux),   *)
(* Op (one public call with its reported result, whether the snapshot      *)
(* captured before it kept its fingerprint, whether the published state    *)
(* changed), Probe (distinct outcomes of N requests for one method).       *)
(***************************************************************************)
EXTENDS Registry_Hist, IOUtils
Trace == ndJsonDeserialize(IOEnv.TRACE)
VARIABLES l, failed, stat, seen   \* seen[m]: outcome kinds on the HTTP bindings of m since the last operation
tvars == <<l, failed, stat, seen, live, conns, localDone, hist>>
Stat0 == [hists |-> 0, ops |-> 0, probes |-> 0, requests |-> 0, served |-> 0, none |-> 0, multi |-> 0, drops |-> 0, failing |-> 0, crashes |-> 0, leftover |-> 0]
Seen0 == [m \in HMethods |-> {}]
TInit == HInit /\ l = 1 /\ failed = {} /\ stat = Stat0 /\ seen = Seen0
IsEv(e) == l <= Len(Trace) /\ Trace[l].ev = e

THist == /\ IsEv("Hist") /\ live' = [m \in HMethods |-> {}] /\ conns' = {} /\ localDone' = FALSE /\ hist' = <<>>
         /\ stat' = [stat EXCEPT !.hists = @ + 1] /\ l' = l + 1 /\ seen' = Seen0 /\ UNCHANGED failed

\* what the public call must report
WantOK(op) == CASE op.op \in {"reglocal", "regconn", "reregister", "dropconn"} -> TRUE
                [] OTHER -> FALSE       \* dropunknown returns false, regfail returns an error
TOp ==
  /\ IsEv("Op")
  /\ LET e == Trace[l]
         op == Op(e.op, e.b)
         eff == Effect(op, live, conns, localDone)
         nochange == op.op \in {"reregister", "dropunknown", "regfail"}
         bad == (IF e.crash # "" THEN {"SafeOps"} ELSE
                 (IF e.ok # WantOK(op) THEN {"OpResult"} ELSE {})
                 \cup (IF ~e.immut THEN {"PublishedImmutable"} ELSE {})
                 \cup (IF nochange /\ ~e.cursame THEN {IF op.op = "regfail" THEN "FailedRegNoChange" ELSE "NoOpChanged"} ELSE {}))
     IN /\ failed' = failed \cup {<<e.case, l, f>> : f \in bad}
        /\ live' = eff.live /\ conns' = eff.conns /\ localDone' = eff.localDone /\ hist' = Append(hist, op)
        /\ stat' = [stat EXCEPT !.ops = @ + 1, !.drops = @ + (IF op.op = "dropconn" THEN 1 ELSE 0),
                                !.failing = @ + (IF op.op = "regfail" THEN 1 ELSE 0),
                                !.crashes = @ + (IF e.crash # "" THEN 1 ELSE 0)]
  /\ l' = l + 1 /\ seen' = Seen0

FullName(m) == CASE m = "A.m1" -> "/vg.A/m1" [] m = "A.m2" -> "/vg.A/m2" [] m = "B.m1" -> "/vg.B/m1" [] m = "B.m2" -> "/vg.B/m2" [] OTHER -> m
TProbe ==
  /\ IsEv("Probe")
  /\ LET e == Trace[l]
         lv == live[e.m]
         kinds == IF e.proto = "grpc" THEN {} ELSE {e.outs[k].k : k \in DOMAIN e.outs}
         sn == seen[e.m] \cup kinds
         bad == (IF \E k \in DOMAIN e.outs : e.outs[k].k = "panic" THEN {"Panic"} ELSE {})
                \* C12 "all together or not at all", for removal: when a method's last backend has left, its bindings (primary,
                \* additional, implicit) are either all gone (404) or all still answering Unimplemented - never a mixture
                \cup (IF lv = {} /\ {"notfound", "unimplemented"} \subseteq sn THEN {"RemovedTogether"} ELSE {})
                \cup (IF \E k \in DOMAIN e.outs : e.outs[k].k = "served" /\ e.outs[k].by \notin lv THEN {"DispatchLive"} ELSE {})
                \* ... and by the handler of the method the request names (C01 as well: a method owning a matching rule)
                \cup (IF \E k \in DOMAIN e.outs : e.outs[k].k = "served" /\ e.outs[k].meth # FullName(e.m) THEN {"DispatchMethod"} ELSE {})
                \cup (IF lv # {} /\ \E k \in DOMAIN e.outs : e.outs[k].k \notin {"served", "panic"} THEN {"NoFalseUnimplemented"} ELSE {})
                \cup (IF lv = {} /\ \E k \in DOMAIN e.outs : e.outs[k].k \notin {"unimplemented", "notfound", "panic"} THEN {"NoneIsUnimplemented"} ELSE {})
     IN /\ failed' = failed \cup {<<e.case, l, f>> : f \in bad}
        /\ stat' = [stat EXCEPT !.probes = @ + 1, !.requests = @ + e.n,
                                !.served = @ + (IF lv # {} THEN 1 ELSE 0), !.none = @ + (IF lv = {} THEN 1 ELSE 0),
                                !.multi = @ + (IF Cardinality(lv) > 1 THEN 1 ELSE 0),
                                \* (informational, RegBindings.tla NoLeftover: a route that outlived its method's backends)
                                !.leftover = @ + (IF lv = {} /\ \E k \in DOMAIN e.outs : e.outs[k].k = "unimplemented" THEN 1 ELSE 0)]
  /\ l' = l + 1 /\ seen' = [seen EXCEPT ![Trace[l].m] = @ \cup (IF Trace[l].proto = "grpc" THEN {} ELSE {Trace[l].outs[k].k : k \in DOMAIN Trace[l].outs})]
  /\ UNCHANGED <<live, conns, localDone, hist>>

TSpec == TInit /\ [][THist \/ TOp \/ TProbe]_tvars
Report == l > Len(Trace) =>
            PrintT(<<"REPORT", ToJson([consumed |-> l - 1, len |-> Len(Trace), failed |-> failed, stat |-> stat])>>)
=============================================================================
