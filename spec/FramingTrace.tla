---------------------------- MODULE FramingTrace ----------------------------
(***************************************************************************)
(* Trace validation for the stream codecs (C17).  Events:                  *)
(*  Stream : codec, limit, frames, cut, and the bytes WriteNext produced   *)
(*  Call   : one ReadNext call on the real codec: carry (buffer passed in), *)
(*           reads (the (k, eof) results of the scripted reader during the  *)
(*           call), and what came back: res, msg = dst[:n], rest = dst[n:]  *)
(* Each Call must be the call the property layer of Framing.tla expects at  *)
(* that point of the stream, and rest must be exactly the over-read bytes.  *)
(***************************************************************************)
EXTENDS FramingLib, Json, IOUtils

Trace == ndJsonDeserialize(IOEnv.TRACE)

VARIABLES l, failed, stat, cur, limit, wire, consumed, rpos, carry, dead
\* cur: codec; wire: bytes of the stream; consumed: bytes of wire accounted for by returned messages;
\* rpos: bytes handed out by the reader; carry: expected buffer for the next call; dead: stream finished
tvars == <<l, failed, stat, cur, limit, wire, consumed, rpos, carry, dead>>

Stat0 == [streams |-> 0, calls |-> 0, msgs |-> 0, errors |-> 0, eofs |-> 0, reads |-> 0, truncated |-> 0,
          overlimit |-> 0, carried |-> 0, panics |-> 0, writes |-> 0]
TInit == /\ l = 1 /\ failed = {} /\ stat = Stat0 /\ cur = "proto" /\ limit = 0 /\ wire = <<>>
         /\ consumed = 0 /\ rpos = 0 /\ carry = <<>> /\ dead = FALSE
IsEv(e) == l <= Len(Trace) /\ Trace[l].ev = e

TStream ==
  /\ IsEv("Stream")
  /\ LET e == Trace[l]
         enc == Flat([k \in DOMAIN e.frames |-> e.frames[k].pre \o e.frames[k].body])
         \* WriteNext of each body must produce the canonical framing (checked when prefixes are minimal)
         wbad == e.minimal /\ e.wrote # enc
     IN /\ cur' = e.codec /\ limit' = e.limit /\ wire' = Take(enc, e.cut)
        /\ failed' = failed \cup (IF wbad THEN {<<e.case, l, "WriteNext">>} ELSE {})
        /\ stat' = [stat EXCEPT !.streams = @ + 1, !.truncated = @ + (IF e.cut < Len(enc) THEN 1 ELSE 0),
                                !.writes = @ + (IF e.minimal THEN Len(e.frames) ELSE 0)]
  /\ consumed' = 0 /\ rpos' = 0 /\ carry' = <<>> /\ dead' = FALSE /\ l' = l + 1

RECURSIVE SumK(_)
SumK(rs) == IF rs = <<>> THEN 0 ELSE rs[1][1] + SumK(Tail(rs))

TCall ==
  /\ IsEv("Call")
  /\ LET e == Trace[l]
         rest == Drop(wire, consumed)                    \* what the stream still owes
         want0 == ExpectedOneP(cur, limit, rest)
         \* "body": a final chunk of exactly limit bytes may arrive together with the end of input
         want == IF cur = "body" /\ want0.k = "msg" /\ Len(rest) = limit /\ e.res = "last"
                 THEN [want0 EXCEPT !.k = "last"] ELSE want0
         got == SumK(e.reads)
         avail == carry \o SubSeq(wire, rpos + 1, rpos + got)   \* everything the codec has seen
         used == IF want.k \in {"msg", "last"} THEN ConsumedP(cur, rest, want) ELSE 0
         bad ==
           IF e.res = "panic" THEN {"Crash"}
           ELSE (IF dead THEN {"CallAfterEnd"} ELSE {})
             \cup (IF e.res = "badn" THEN {"LimitSafe"} ELSE {})
             \cup (IF e.res \in {"msg", "last"} /\ Len(e.msg) > limit THEN {"LimitSafe"} ELSE {})
             \cup (IF e.res # "badn" /\ e.res # want.k
                      \* a JSON stream whose rest is only white space may end cleanly or with an error
                      /\ ~(cur = "json" /\ want.k = "eof" /\ e.res = "error") THEN
                      {IF want.k = "error" /\ e.res \in {"msg", "last"} THEN "Fabricated"
                       ELSE IF want.k = "error" THEN "ErrorExpected"
                       ELSE IF want.k \in {"msg", "last"} /\ e.res \in {"error", "eof"} THEN "SpuriousRefusal"
                       ELSE "Fragmentation"} ELSE {})
             \cup (IF e.res = want.k /\ e.res \in {"msg", "last"} /\ e.msg # want.msg THEN {"Fragmentation"} ELSE {})
             \cup (IF e.res = want.k /\ e.res = "msg" /\ e.rest # Drop(avail, used) THEN {"RemainderExact"} ELSE {})
             \cup (IF e.carry # carry THEN {"Harness"} ELSE {})
     IN /\ failed' = failed \cup {<<e.case, l, f>> : f \in bad}
        /\ consumed' = consumed + (IF e.res \in {"msg", "last"} /\ e.res = want.k THEN used ELSE 0)
        /\ rpos' = rpos + got
        /\ carry' = IF e.res = "msg" THEN e.rest ELSE <<>>
        /\ dead' = (e.res # "msg")
        /\ stat' = [stat EXCEPT !.calls = @ + 1, !.reads = @ + Len(e.reads),
                                !.msgs = @ + (IF e.res \in {"msg", "last"} THEN 1 ELSE 0),
                                !.errors = @ + (IF e.res = "error" THEN 1 ELSE 0),
                                !.eofs = @ + (IF e.res = "eof" THEN 1 ELSE 0),
                                !.overlimit = @ + (IF want.k = "error" /\ rest # <<>> THEN 1 ELSE 0),
                                !.carried = @ + (IF carry # <<>> THEN 1 ELSE 0),
                                !.panics = @ + (IF e.res = "panic" THEN 1 ELSE 0)]
  /\ l' = l + 1 /\ UNCHANGED <<cur, limit, wire>>

TNext == TStream \/ TCall
TSpec == TInit /\ [][TNext]_tvars
Report == l > Len(Trace) =>
            PrintT(<<"REPORT", ToJson([consumed |-> l - 1, len |-> Len(Trace), failed |-> failed, stat |-> stat])>>)
=============================================================================
