SPECIFICATION GenSpec
CONSTANTS
  Bodies = {"*", "b", "none"}
  ParamOrder = "path-last"
CHECK_DEADLOCK FALSE
