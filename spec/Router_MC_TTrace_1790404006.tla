---- MODULE Router_MC_TTrace_1790404006 ----
EXTENDS Router_MC, Sequences, TLCExt, Toolbox, Naturals, TLC

_expression ==
    LET Router_MC_TEExpression == INSTANCE Router_MC_TEExpression
    IN Router_MC_TEExpression!expression
----

_trace ==
    LET Router_MC_TETrace == INSTANCE Router_MC_TETrace
    IN Router_MC_TETrace!trace
----

_inv ==
    ~(
        TLCGet("level") = Len(_TETrace)
        /\
        rules = (<<[m |-> "M1", kind |-> "GET", tmpl |-> [segs |-> <<[v |-> "", pat |-> <<[v |-> "a", pat |-> <<>>, t |-> "lit", fp |-> <<>>], [v |-> "", pat |-> <<>>, t |-> "ss", fp |-> <<>>]>>, t |-> "var", fp |-> <<"s">>]>>, verb |-> "v"]]>>)
        /\
        look = ([kind |-> "GET", out |-> [m |-> "", k |-> "reject", why |-> "notfound", caps |-> {}], path |-> <<[seg |-> "a", sep |-> "/", doc |-> TRUE, int |-> FALSE], [seg |-> "a", sep |-> "/", doc |-> TRUE, int |-> FALSE], [seg |-> "v", sep |-> ":", doc |-> TRUE, int |-> FALSE]>>])
    )
----

_init ==
    /\ rules = _TETrace[1].rules
    /\ look = _TETrace[1].look
----

_next ==
    /\ \E i,j \in DOMAIN _TETrace:
        /\ \/ /\ j = i + 1
              /\ i = TLCGet("level")
        /\ rules  = _TETrace[i].rules
        /\ rules' = _TETrace[j].rules
        /\ look  = _TETrace[i].look
        /\ look' = _TETrace[j].look

\* Uncomment the ASSUME below to write the states of the error trace
\* to the given file in Json format. Note that you can pass any tuple
\* to `JsonSerialize`. For example, a sub-sequence of _TETrace.
    \* ASSUME
    \*     LET J == INSTANCE Json
    \*         IN J!JsonSerialize("Router_MC_TTrace_1790404006.json", _TETrace)

=============================================================================

 Note that you can extract this module `Router_MC_TEExpression`
  to a dedicated file to reuse `expression` (the module in the 
  dedicated `Router_MC_TEExpression.tla` file takes precedence 
  over the module `Router_MC_TEExpression` below).

---- MODULE Router_MC_TEExpression ----
EXTENDS Router_MC, Sequences, TLCExt, Toolbox, Naturals, TLC

expression == 
    [
        \* To hide variables of the `Router_MC` spec from the error trace,
        \* remove the variables below.  The trace will be written in the order
        \* of the fields of this record.
        rules |-> rules
        ,look |-> look
        
        \* Put additional constant-, state-, and action-level expressions here:
        \* ,_stateNumber |-> _TEPosition
        \* ,_rulesUnchanged |-> rules = rules'
        
        \* Format the `rules` variable as Json value.
        \* ,_rulesJson |->
        \*     LET J == INSTANCE Json
        \*     IN J!ToJson(rules)
        
        \* Lastly, you may build expressions over arbitrary sets of states by
        \* leveraging the _TETrace operator.  For example, this is how to
        \* count the number of times a spec variable changed up to the current
        \* state in the trace.
        \* ,_rulesModCount |->
        \*     LET F[s \in DOMAIN _TETrace] ==
        \*         IF s = 1 THEN 0
        \*         ELSE IF _TETrace[s].rules # _TETrace[s-1].rules
        \*             THEN 1 + F[s-1] ELSE F[s-1]
        \*     IN F[_TEPosition - 1]
    ]

=============================================================================



Parsing and semantic processing can take forever if the trace below is long.
 In this case, it is advised to uncomment the module below to deserialize the
 trace from a generated binary file.

\*
\*---- MODULE Router_MC_TETrace ----
\*EXTENDS Router_MC, IOUtils, TLC
\*
\*trace == IODeserialize("Router_MC_TTrace_1790404006.bin", TRUE)
\*
\*=============================================================================
\*

---- MODULE Router_MC_TETrace ----
EXTENDS Router_MC, TLC

trace == 
    <<
    ([rules |-> <<>>,look |-> [kind |-> "none"]]),
    ([rules |-> <<[m |-> "M1", kind |-> "GET", tmpl |-> [segs |-> <<[v |-> "", pat |-> <<[v |-> "a", pat |-> <<>>, t |-> "lit", fp |-> <<>>], [v |-> "", pat |-> <<>>, t |-> "ss", fp |-> <<>>]>>, t |-> "var", fp |-> <<"s">>]>>, verb |-> "v"]]>>,look |-> [kind |-> "none"]]),
    ([rules |-> <<[m |-> "M1", kind |-> "GET", tmpl |-> [segs |-> <<[v |-> "", pat |-> <<[v |-> "a", pat |-> <<>>, t |-> "lit", fp |-> <<>>], [v |-> "", pat |-> <<>>, t |-> "ss", fp |-> <<>>]>>, t |-> "var", fp |-> <<"s">>]>>, verb |-> "v"]]>>,look |-> [kind |-> "GET", out |-> [m |-> "", k |-> "reject", why |-> "notfound", caps |-> {}], path |-> <<[seg |-> "a", sep |-> "/", doc |-> TRUE, int |-> FALSE], [seg |-> "a", sep |-> "/", doc |-> TRUE, int |-> FALSE], [seg |-> "v", sep |-> ":", doc |-> TRUE, int |-> FALSE]>>]])
    >>
----


=============================================================================

---- CONFIG Router_MC_TTrace_1790404006 ----
CONSTANTS
    Elems <- MCElems
    MaxSegs = 1
    Verbs = { "" , "v" }
    RuleKinds = { "GET" , "*" }
    ReqKinds = { "GET" , "POST" }
    Methods = { "M1" , "M2" }
    MaxRules = 2
    Fill = { "a" , "p" , "7" }
    VarsSorted = TRUE
    SlashBeforeVar = TRUE
    RelIndex = FALSE

INVARIANT
    _inv

CHECK_DEADLOCK
    \* CHECK_DEADLOCK off because of PROPERTY or INVARIANT above.
    FALSE

INIT
    _init

NEXT
    _next

CONSTANT
    _TETrace <- _trace

ALIAS
    _expression
=============================================================================
\* Generated on Sat Sep 26 06:26:47 UTC 2026