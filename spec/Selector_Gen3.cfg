SPECIFICATION Spec
CONSTANTS MaxSels = 3
INVARIANTS Emit
CHECK_DEADLOCK FALSE
