---------------------------- MODULE Router_MC ----------------------------
EXTENDS Router
MCElems == {Lit("a"), Lit("b"), Star, SS,
            Var(<<"s">>, <<Star>>), Var(<<"s">>, <<SS>>),
            Var(<<"s">>, <<Lit("a"), Star>>), Var(<<"s">>, <<Lit("a"), SS>>),
            Var(<<"s">>, <<Lit("b"), Star>>),
            Var(<<"s">>, <<Star, Lit("b")>>),
            Var(<<"i">>, <<Star>>), Var(<<"n", "s">>, <<Star>>)}
\* one symmetry-free choice: the first rule always belongs to M1
FirstIsM1 == rules # <<>> => rules[1].m = "M1"
=============================================================================
