---------------------------- MODULE Deadline_Gen ----------------------------
EXTENDS Deadline, Json
TShapes == [n : 0..10, digits : BOOLEAN, unit : Units \cup {"", "x", "s", "h", "ms"}, signed : BOOLEAN]
Clients == {"grpc-cancel", "http-disconnect", "grpcweb-disconnect"}
ASSUME \A s \in TShapes : ((s.signed => s.n >= 1) /\ ~(s.n = 0 /\ s.unit = "")) => PrintT(<<"SHAPE", ToJson(s)>>)
ASSUME \A sh \in {"unary", "cstream", "sstream", "bidi"}, pt \in {"running", "blockedRecv", "blockedSend", "returned"}, cl \in Clients :
         PrintT(<<"SCHED", ToJson([shape |-> sh, point |-> pt, client |-> cl])>>)
NoPoints == {}
=============================================================================
