---------------------------- MODULE Deadline_Gen ----------------------------
EXTENDS Deadline, Json
TShapes == [n : 0..10, digits : BOOLEAN, unit : Units \cup {"", "x", "s", "h", "ms"}, signed : BOOLEAN]
Clients == {"grpc-cancel", "http-disconnect", "grpcweb-disconnect"}
ASSUME \A s \in TShapes : ((s.signed => s.n >= 1) /\ ~(s.n = 0 /\ s.unit = "")) => PrintT(<<"SHAPE", ToJson(s)>>)
\* "idleAfterSend": the handler has sent a reply and waits on its context (a subscription); lateend: the request body of
\* a raw HTTP/1.1 client is chunked and its terminating chunk arrives only after the handler has read the message
ASSUME \A sh \in {"unary", "cstream", "sstream", "bidi"}, pt \in {"running", "blockedRecv", "blockedFirstRecv", "blockedSend", "returned", "idleAfterSend"},
          cl \in Clients, le \in BOOLEAN, gz \in BOOLEAN, vv \in {"local", "proxied"} :
         (le => (cl # "grpc-cancel" /\ sh \in {"unary", "sstream"})) /\ (pt = "idleAfterSend" => sh \in {"sstream", "bidi"}) /\ (pt = "blockedFirstRecv" => sh \in {"cstream", "bidi"})
         \* gzip: the upload of a plain HTTP client is Content-Encoding: gzip and breaks off inside the gzip stream
         /\ (gz => (cl = "http-disconnect" /\ pt = "blockedFirstRecv" /\ ~le /\ vv = "local"))
         \* proxied: the handler runs on a backend behind RegisterConn (the forwarder opens the backend stream only
         \* after the first client message - F31 - so a first receive that blocks is not reachable there)
         /\ (vv = "proxied" => pt # "blockedFirstRecv")
           => PrintT(<<"SCHED", ToJson([shape |-> sh, point |-> pt, client |-> cl, lateend |-> le, gzip |-> gz, via |-> vv])>>)
NoPoints == {}
=============================================================================
