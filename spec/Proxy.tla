-------------------------------- MODULE Proxy --------------------------------
(***************************************************************************)
(* A call through larking to a backend registered with RegisterConn (C10). *)
(*                                                                         *)
(* Processes: the Client (sends n messages, half-closes, reads to the end), *)
(* the Front (larking's stream forwarder: receive the first message, open  *)
(* the backend stream, send it, then an in-pump goroutine client->backend   *)
(* and the out-loop backend->client, join, return), the Backend (a script: *)
(* read r messages or to end-of-stream, send j replies, fail with a status *)
(* at a chosen point).  Channels are FIFO with a half-close marker "EOF"    *)
(* - a small model of an HTTP/2 stream pair.                                *)
(*                                                                         *)
(* Direct == TRUE replaces the Front by the identity (client talks to the   *)
(* backend): the same scripts must end in the same transcripts.             *)
(***************************************************************************)
EXTENDS Integers, Sequences, FiniteSets, TLC

CONSTANTS
  Scripts,       \* set of [n, readN, replyJ, failAt, mode, failK]: client messages; backend reads readN (99 = to end of stream),
                 \* sends replyJ replies, fails at "never" | "before" | "afterReplies" | "afterEOF".
                 \* mode "lockstep": the client sends message i+1 only after reply i and half-closes after reply n; the
                 \* backend answers every message with one reply and fails INSTEAD of answering message failK (0 = never)
  JoinBeforeError,  \* mechanism switch: the front waits for its in-pump also before it reports a backend failure
  Direct,        \* TRUE: no front
  ForwardHalfClose, \* mechanism switch: the in-pump forwards the client's half-close
  NeedFirstMessage, \* mechanism switch: the front waits for the first client message before opening the backend stream
  InterruptibleRecv, \* mechanism switch: when the backend fails, the front interrupts its in-pump's pending receive and waits for
                     \* the pump before it returns (design).  FALSE = as built: it returns at once and the pump goes on using the
                     \* stream until the transport ends it (F51: open; waiting without interrupting hangs, see JoinBeforeError)
  FirstSendEOFFatal \* mechanism switch (with NeedFirstMessage): when the backend has already ended the stream by the time the
                    \* front forwards the first message, SendMsg answers io.EOF; TRUE = the front returns that as its own error
                    \* instead of reading the backend's status (F49)

VARIABLE sc      \* the script of this call
N == sc.n  ReadN == sc.readN  ReplyJ == sc.replyJ  FailAt == sc.failAt
LockStep == sc.mode = "lockstep"  FailK == sc.failK

EOF == 0        \* half-close marker (messages are 1..N, replies 101.., statuses 1000 / 1001)
OKm == 1000  ERRm == 1001  FERRm == 1002   \* FERR: an error of the front's own making, not the backend's status
Finals == {OKm, ERRm, FERRm}
StatusOf(x) == IF x = OKm THEN "OK" ELSE IF x = ERRm THEN "ERR" ELSE "FERR"
VARIABLES c2f, f2b, b2f, f2c,   \* channels (sequences); f2b/b2f unused when Direct
          cpc, csent, cgot, cstatus,
          fpc, inpump, fstatus,
          bpc, bgot, bsent, bstatus
pvars == <<sc, c2f, f2b, b2f, f2c, cpc, csent, cgot, cstatus, fpc, inpump, fstatus, bpc, bgot, bsent, bstatus>>

\* what the client writes to / reads from: the front, or the backend directly
Up   == IF Direct THEN f2b ELSE c2f
Init ==
  /\ sc \in Scripts
  /\ c2f = <<>> /\ f2b = <<>> /\ b2f = <<>> /\ f2c = <<>>
  /\ cpc = "send" /\ csent = 0 /\ cgot = <<>> /\ cstatus = "none"
  /\ fpc = (IF Direct THEN "off" ELSE "recvFirst") /\ inpump = "off" /\ fstatus = "none"
  /\ bpc = "wait" /\ bgot = <<>> /\ bsent = 0 /\ bstatus = "none"

\* ---- client ----
CSend == /\ cpc = "send" /\ csent < N /\ (LockStep => Len(cgot) >= csent)
         /\ IF Direct THEN f2b' = Append(f2b, csent + 1) /\ UNCHANGED c2f ELSE c2f' = Append(c2f, csent + 1) /\ UNCHANGED f2b
         /\ csent' = csent + 1
         /\ UNCHANGED <<b2f, f2c, cpc, cgot, cstatus, fpc, inpump, fstatus, bpc, bgot, bsent, bstatus>>
CHalfClose == /\ cpc = "send" /\ csent = N /\ (LockStep => Len(cgot) >= N)
              /\ IF Direct THEN f2b' = Append(f2b, EOF) /\ UNCHANGED c2f ELSE c2f' = Append(c2f, EOF) /\ UNCHANGED f2b
              /\ cpc' = "read"
              /\ UNCHANGED <<b2f, f2c, csent, cgot, cstatus, fpc, inpump, fstatus, bpc, bgot, bsent, bstatus>>
\* replies and the final status arrive on f2c (proxied) or b2f (direct)
\* (a lock-step client also reads between its sends)
CRead == /\ (cpc = "read" \/ (LockStep /\ cpc = "send"))
         /\ LET ch == IF Direct THEN b2f ELSE f2c IN
            /\ ch # <<>>
            /\ IF Head(ch) \in Finals THEN cstatus' = StatusOf(Head(ch)) /\ cpc' = "done" /\ UNCHANGED cgot
               ELSE cgot' = Append(cgot, Head(ch)) /\ UNCHANGED <<cstatus, cpc>>
            \* lock-step: only one reply is awaited at a time (replies never outrun the sends)
            /\ (LockStep /\ cpc = "send") => (csent > Len(cgot) \/ Head(ch) \in Finals)
            /\ IF Direct THEN b2f' = Tail(b2f) /\ UNCHANGED f2c ELSE f2c' = Tail(f2c) /\ UNCHANGED b2f
         /\ UNCHANGED <<c2f, f2b, csent, fpc, inpump, fstatus, bpc, bgot, bsent, bstatus>>

\* ---- backend (script) ----
BStart == /\ bpc = "wait"
          /\ (Direct \/ fpc \notin {"recvFirst", "off"})     \* the stream has been opened
          /\ bpc' = IF LockStep THEN "echo" ELSE IF FailAt = "before" THEN "fail" ELSE "read"
          /\ UNCHANGED <<c2f, f2b, b2f, f2c, cpc, csent, cgot, cstatus, fpc, inpump, fstatus, bgot, bsent, bstatus>>
WantsMore == IF ReadN = 99 THEN TRUE ELSE Len(bgot) < ReadN
BRead == /\ bpc = "read" /\ WantsMore /\ f2b # <<>>
         /\ IF Head(f2b) = EOF THEN bpc' = "replyE" /\ UNCHANGED bgot      \* "replyE": end of stream already seen
            ELSE bgot' = Append(bgot, Head(f2b)) /\ UNCHANGED bpc
         /\ f2b' = Tail(f2b)
         /\ UNCHANGED <<c2f, b2f, f2c, cpc, csent, cgot, cstatus, fpc, inpump, fstatus, bsent, bstatus>>
BReadDone == /\ bpc = "read" /\ ~WantsMore /\ bpc' = "reply"
             /\ UNCHANGED <<c2f, f2b, b2f, f2c, cpc, csent, cgot, cstatus, fpc, inpump, fstatus, bgot, bsent, bstatus>>
BReply == /\ bpc \in {"reply", "replyE"} /\ bsent < ReplyJ
          /\ b2f' = Append(b2f, 100 + bsent + 1) /\ bsent' = bsent + 1
          /\ UNCHANGED <<c2f, f2b, f2c, cpc, csent, cgot, cstatus, fpc, inpump, fstatus, bpc, bgot, bstatus>>
BAfterReplies == /\ bpc \in {"reply", "replyE"} /\ bsent = ReplyJ
                 /\ bpc' = CASE FailAt = "afterReplies" -> "fail"
                             [] FailAt = "afterEOF" -> (IF bpc = "replyE" THEN "fail" ELSE "drain")
                             [] OTHER -> "ok"
                 /\ UNCHANGED <<c2f, f2b, b2f, f2c, cpc, csent, cgot, cstatus, fpc, inpump, fstatus, bgot, bsent, bstatus>>
BDrain == /\ bpc = "drain" /\ f2b # <<>>
          /\ IF Head(f2b) = EOF THEN bpc' = "fail" /\ UNCHANGED bgot ELSE bgot' = Append(bgot, Head(f2b)) /\ UNCHANGED bpc
          /\ f2b' = Tail(f2b)
          /\ UNCHANGED <<c2f, b2f, f2c, cpc, csent, cgot, cstatus, fpc, inpump, fstatus, bsent, bstatus>>
\* echo backend (lock-step scripts): one reply per message, failure instead of reply number FailK
BEchoRead == /\ bpc = "echo" /\ f2b # <<>>
             /\ IF Head(f2b) = EOF THEN bpc' = "ok" /\ UNCHANGED bgot
                ELSE /\ bgot' = Append(bgot, Head(f2b))
                     /\ bpc' = IF Len(bgot) + 1 = FailK THEN "fail" ELSE "echoReply"
             /\ f2b' = Tail(f2b)
             /\ UNCHANGED <<c2f, b2f, f2c, cpc, csent, cgot, cstatus, fpc, inpump, fstatus, bsent, bstatus>>
BEchoReply == /\ bpc = "echoReply"
              /\ b2f' = Append(b2f, 100 + bsent + 1) /\ bsent' = bsent + 1 /\ bpc' = "echo"
              /\ UNCHANGED <<c2f, f2b, f2c, cpc, csent, cgot, cstatus, fpc, inpump, fstatus, bgot, bstatus>>
BFinish == /\ bpc \in {"ok", "fail"}
           /\ bstatus' = IF bpc = "ok" THEN "OK" ELSE "ERR"
           /\ b2f' = Append(b2f, (IF bpc = "ok" THEN OKm ELSE ERRm)) /\ bpc' = "done"
           /\ UNCHANGED <<c2f, f2b, f2c, cpc, csent, cgot, cstatus, fpc, inpump, fstatus, bgot, bsent>>

\* ---- front (mux.go createConnHandler, streaming branch) ----
FRecvFirst == /\ fpc = "recvFirst"
              /\ IF NeedFirstMessage
                 THEN /\ c2f # <<>>
                      /\ IF Head(c2f) = EOF
                         THEN /\ fpc' = "return" /\ fstatus' = "ERR" /\ UNCHANGED f2b   \* RecvMsg -> io.EOF -> handler error
                         ELSE /\ fpc' = "sendFirst" /\ UNCHANGED <<f2b, fstatus>>   \* cc.NewStream: the backend may start now
                      /\ c2f' = Tail(c2f)
                 ELSE /\ fpc' = "loop" /\ UNCHANGED <<c2f, f2b, fstatus>>
              /\ inpump' = IF fpc' = "loop" THEN "run" ELSE inpump
              /\ UNCHANGED <<b2f, f2c, cpc, csent, cgot, cstatus, bpc, bgot, bsent, bstatus>>
\* clientStream.SendMsg(first message): a step of its own, the backend runs meanwhile.  Once the backend has ended the
\* stream the send may answer io.EOF (when the trailers have reached the front's transport; otherwise the message is
\* written and dropped): the status is then to be had from RecvMsg, i.e. from the out-loop
FSendFirst == /\ fpc = "sendFirst"
              /\ \/ /\ f2b' = Append(f2b, 1) /\ fpc' = "loop" /\ inpump' = "run" /\ UNCHANGED fstatus
                 \/ /\ bpc = "done"
                    /\ IF FirstSendEOFFatal THEN fpc' = "return" /\ fstatus' = "FERR" /\ UNCHANGED inpump
                       ELSE fpc' = "loop" /\ inpump' = "run" /\ UNCHANGED fstatus
                    /\ UNCHANGED f2b
              /\ UNCHANGED <<c2f, b2f, f2c, cpc, csent, cgot, cstatus, bpc, bgot, bsent, bstatus>>
\* in-pump goroutine: client -> backend
FPump == /\ inpump = "run" /\ c2f # <<>>
         /\ IF Head(c2f) = EOF
            THEN /\ inpump' = "done"
                 /\ f2b' = IF ForwardHalfClose THEN Append(f2b, EOF) ELSE f2b
            ELSE /\ f2b' = Append(f2b, Head(c2f)) /\ UNCHANGED inpump
         /\ c2f' = Tail(c2f)
         /\ UNCHANGED <<b2f, f2c, cpc, csent, cgot, cstatus, fpc, fstatus, bpc, bgot, bsent, bstatus>>
\* out-loop: backend -> client, until the backend's status
FOut == /\ fpc = "loop" /\ b2f # <<>>
        /\ IF Head(b2f) \in Finals
           THEN /\ fstatus' = StatusOf(Head(b2f))
                /\ fpc' = (IF Head(b2f) = ERRm /\ ~JoinBeforeError THEN (IF InterruptibleRecv THEN "cancelpump" ELSE "return") ELSE "join")
                /\ UNCHANGED f2c
           ELSE /\ f2c' = Append(f2c, Head(b2f)) /\ UNCHANGED <<fstatus, fpc>>
        /\ b2f' = Tail(b2f)
        /\ UNCHANGED <<c2f, f2b, cpc, csent, cgot, cstatus, inpump, bpc, bgot, bsent, bstatus>>
\* on success the handler waits for the in-pump (wg.Wait)
FJoin == /\ fpc = "join" /\ inpump \in {"done", "off"} /\ fpc' = "return"
         /\ UNCHANGED <<c2f, f2b, b2f, f2c, cpc, csent, cgot, cstatus, inpump, fstatus, bpc, bgot, bsent, bstatus>>
\* design: the pump's receive is interrupted, then the handler may return
FCancelPump == /\ fpc = "cancelpump" /\ fpc' = "return"
               /\ inpump' = IF inpump = "run" THEN "cancelled" ELSE inpump
               /\ UNCHANGED <<c2f, f2b, b2f, f2c, cpc, csent, cgot, cstatus, fstatus, bpc, bgot, bsent, bstatus>>
FReturn == /\ fpc = "return" /\ f2c' = Append(f2c, (IF fstatus = "OK" THEN OKm ELSE IF fstatus = "ERR" THEN ERRm ELSE FERRm)) /\ fpc' = "done"
           /\ UNCHANGED <<c2f, f2b, b2f, cpc, csent, cgot, cstatus, inpump, fstatus, bpc, bgot, bsent, bstatus>>
\* as built: a pump that is still running when the handler has returned ends when the transport ends the stream context
\* (until then FPump may still move client messages)
FPumpEnds == /\ fpc = "done" /\ inpump = "run" /\ inpump' = "cancelled"
             /\ UNCHANGED <<sc, c2f, f2b, b2f, f2c, cpc, csent, cgot, cstatus, fpc, fstatus, bpc, bgot, bsent, bstatus>>

Done == cpc = "done"
Next == \/ /\ UNCHANGED sc
           /\ (CSend \/ CHalfClose \/ CRead \/ BStart \/ BRead \/ BReadDone \/ BReply \/ BAfterReplies \/ BDrain \/ BFinish
               \/ BEchoRead \/ BEchoReply
               \/ FRecvFirst \/ FSendFirst \/ FPump \/ FOut \/ FJoin \/ FCancelPump \/ FReturn)
        \/ FPumpEnds
        \/ (Done /\ UNCHANGED pvars)
Spec == Init /\ [][Next]_pvars /\ WF_pvars(Next)

-----------------------------------------------------------------------------
(* What a direct call gives (schedule independent): the oracle *)
BackendReads == IF LockStep THEN (IF FailK = 0 THEN N ELSE FailK)
                ELSE IF FailAt = "before" THEN 0
                ELSE IF ReadN = 99 \/ FailAt = "afterEOF" THEN N
                ELSE IF ReadN < N THEN ReadN ELSE N
WantReplies == IF LockStep THEN [k \in 1..(IF FailK = 0 THEN N ELSE FailK - 1) |-> 100 + k]
               ELSE IF FailAt = "before" THEN <<>> ELSE [k \in 1..ReplyJ |-> 100 + k]
WantStatus == IF LockStep THEN (IF FailK = 0 THEN "OK" ELSE "ERR") ELSE IF FailAt = "never" THEN "OK" ELSE "ERR"

\* C10: when the call has finished, the client saw what a direct call shows
TranscriptEquivalence == Done => cgot = WantReplies /\ cstatus = WantStatus
\* ... and the backend got a prefix of the client's messages, of the length a direct call delivers
BackendSawPrefix == bgot = [k \in 1..Len(bgot) |-> k]
BackendSawAll == (Done /\ bpc = "done" /\ FailAt # "before") => Len(bgot) >= BackendReads
\* the call always finishes (TLC: deadlock check on, every terminal state is Done; and as liveness)
Finishes == <>Done
NoPumpOutlivesHandler == fpc = "done" => inpump # "run"
=============================================================================
