"""C03, C04, C07: Transcode.tla design check; TLC-enumerated request shapes concretised with fields of every
kind and boundary / random values, and Accept-negotiation cases, executed through the real Mux; validated
by TLC against TranscodeTrace.tla."""
import json, os, time, random, collections, itertools, concurrent.futures as cf
from . import common as C

FORMULAS = {
    "C03": ["Reassembly", "OthersIntact", "RejectInvalid", "Undelivered"],
    # (RejectInvalid in C07's cases: a path text that cannot be the field's value must not make way for the competing one)
    "C07": ["PathAuthoritative", "RejectInvalid"],
    "C04": ["AcceptAdmits", "ResponseDecodable", "HttpBodyRaw", "ResponseBodySelects", "EncodingTruthful"],
}


def design_check(scratch):
    mc = C.tlc(scratch, "Transcode.tla", "Transcode_MC.cfg", workers=4, timeout=600, tag="tcmc")
    C.tlc_ok(mc, "Transcode_MC")
    if C.tlc_violated(mc):
        raise C.Infra("Transcode design check violated:\n" + mc["out"][-2000:])
    neg = C.tlc(scratch, "Transcode.tla", "Transcode_Neg_QueryLast.cfg", workers=2, timeout=600, tag="tcneg")
    v = C.tlc_violated(neg)
    if not v or "PathAuthoritative" not in v:
        raise C.Infra("vacuity guard Transcode_Neg_QueryLast did not violate PathAuthoritative")
    return dict(states=mc["distinct"], transitions=mc["generated"], neg_guards=1)


def gen_abstract(scratch):
    g = C.tlc(scratch, "Transcode_Gen.tla", "Transcode_Gen.cfg", workers=1, timeout=600, tag="tcgen")
    cases = list(C.printed(g["out"], "CASE"))
    if not cases:
        raise C.Infra("Transcode_Gen produced no cases:\n" + g["out"][-1500:])
    return cases


def req_cases(prop, abstract, rnd, tier):
    out = []
    draws = 6 if tier == "quick" else 1500
    for a in abstract:
        competing = a["compQ"] or a["compB"]
        if prop == "C07" and not competing:
            continue
        if prop == "C03" and competing:
            continue
        for d in range(draws if prop == "C03" else (3 if tier == "quick" else 600)):
            c = dict(a)
            c.update(codec=rnd.choice(["json", "proto"]), gzip=rnd.random() < 0.25, spell=rnd.choice(["json", "proto"]),
                     invalid="", table=(d % 2 == 0), stream=rnd.random() < 0.15, fam="tc", zeropath=(prop == "C07" and d % 3 == 2),
                     framing=rnd.choice(["", "", "unsized", "chunked"]), compsub=False, ws=False,
                     accept=rnd.choice(["", "", "*/*", "other", "other", "same"]), manyq=(rnd.random() < 0.3), sibling=(rnd.random() < 0.25), rev=(rnd.random() < 0.25))
            out.append(c)
        if prop == "C07":
            # a query key that names a sub-field of the path-bound field (takes effect when that field is a wrapper,
            # Timestamp or Duration), and the same competition on a WebSocket session (the body is the first frame)
            c = dict(a)
            c.update(codec="json", gzip=False, spell=rnd.choice(["json", "proto"]), invalid="", table=True, stream=False, fam="tc",
                     zeropath=False, framing="", compsub=True, ws=False)
            out.append(c)
            c = dict(a)
            c.update(codec="json", gzip=False, spell=rnd.choice(["json", "proto"]), invalid="", table=rnd.random() < 0.5, stream=False, fam="tc",
                     zeropath=False, framing="", compsub=rnd.random() < 0.3, ws=True)
            out.append(c)
        if prop == "C07":
            # the path text is not valid for the field (an unknown enum name, a numeral out of range, ...): the request is
            # refused - the capture is not dropped in favour of the competing value
            for k in range(2):
                c = dict(a)
                c.update(codec=rnd.choice(["json", "proto"]), gzip=False, spell=rnd.choice(["json", "proto"]), invalid="p1", table=True, stream=False, fam="tc",
                         zeropath=False, framing="", compsub=False, ws=False, accept="", manyq=False, sibling=False, rev=False)
                out.append(c)
        if prop == "C03":
            # one invalid text per shape, in a path-bound or query-carried scalar
            cands = ["p1"] + (["p2"] if a["npath"] == 2 else [])
            for role in ("q1", "q2", "n"):
                if role in a["present"] and a["body"] != "*":
                    cands.append(role)
            c = dict(a)
            c.update(codec="json", gzip=False, spell="proto", invalid=rnd.choice(cands), table=True, stream=False, fam="tc", zeropath=False, framing="", compsub=False, ws=False)
            out.append(c)
    if prop == "C07":
        # HttpBody uploads read with AsHTTPBodyReader: the header message's path-bound field against a query parameter
        for k in range(24 if tier == "quick" else 400):
            out.append(dict(body="b", npath=1, present=["p1"], compQ=True, compB=False, codec="json", gzip=False, spell="proto", invalid="", table=False,
                            stream=False, fam="tc", zeropath=False, framing="", compsub=False, ws=False, accept="", manyq=False, sibling=False, rev=False,
                            upload=True))
    return out


def resp_cases(rnd, tier):
    types = ["application/json", "application/protobuf", "application/octet-stream", "application/x-verif", "application/*", "*/*", "text/html", "image/*"]
    ranges = [dict(type=t, q=q) for t in types for q in (10, 5, 0)]
    accepts = [[]] + [[r] for r in ranges] + [list(p) for p in itertools.product(ranges, repeat=2)]
    accepts += [list(p) for p in rnd.sample(list(itertools.product(ranges, repeat=3)), 400 if tier == "quick" else 12000)]
    out = []
    for acc in accepts:
        for reqct in ["application/json", "application/protobuf", "application/octet-stream", "application/x-verif"]:
            kinds = ["msg", "empty", "large", "httpbody"] if tier != "quick" else [rnd.choice(["msg", "msg", "empty", "large", "httpbody"])]
            for kind in kinds:
                rb = rnd.choice(["", "", "sub", "echo"]) if kind in ("msg", "large") else ""
                out.append(dict(fam="resp", accept=acc, lines=rnd.choice([1, 1, 2]), reqct=reqct, kind=kind, respbody=rb,
                                acceptenc=rnd.choice(["", "", "gzip", "gzip, deflate", "identity", "*", "br;q=1, gzip;q=0.5"]),
                                junk=rnd.choice(["", "", "", ";;;", "q=0.5", "text/", "\"quoted\""]),
                                hdr=rnd.choice(["", "", "set", "send"])))
    # requests that name a content type nobody registered (body-less GET): the reply codec comes from Accept alone
    for acc in rnd.sample(accepts, 150 if tier == "quick" else 3000) + [[dict(type="*/*", q=10)], [dict(type="application/*", q=5)],
                                                                       [dict(type="text/html", q=10), dict(type="*/*", q=8)]]:
        for reqct in ["text/plain", "application/x-www-form-urlencoded", "application/json; charset=utf-8", "image/png"]:
            out.append(dict(fam="resp", accept=acc, lines=1, reqct=reqct, kind=rnd.choice(["msg", "empty"]), respbody="",
                            acceptenc="", junk="", hdr=""))
    # the unregistered pseudo type larking keeps in its codec table
    for reqct in ["application/json", "application/protobuf"]:
        for kind in ["msg", "httpbody"]:
            out.append(dict(fam="resp", accept=[dict(type="google.api.HttpBody", q=10)], lines=1, reqct=reqct, kind=kind, respbody="",
                            acceptenc="", junk="", hdr=""))
    rnd.shuffle(out)
    always = []
    # raw replies (google.api.HttpBody as the reply, or as a field of the reply selected by response_body) to requests
    # of every content type, registered or not, with and without an Accept header
    for reqct in ["application/json", "application/protobuf", "image/jpeg", "text/plain", "application/x-www-form-urlencoded"]:
        for acc in [[], [dict(type="*/*", q=10)], [dict(type="image/png", q=10)], [dict(type="application/json", q=10)], [dict(type="text/html", q=10), dict(type="image/*", q=5)]]:
            for rb in ["", "hb"]:
                always.append(dict(fam="resp", accept=acc, lines=1, reqct=reqct, kind="httpbody", respbody=rb, acceptenc=rnd.choice(["", "gzip"]), junk="", hdr=rnd.choice(["", "set"])))
    # uploads into an HttpBody field whose handler answers with an ordinary message carrying the uploaded bytes
    for reqct in ["application/json", "application/protobuf", "application/octet-stream", "application/x-verif"]:
        for acc in [[], [dict(type="application/json", q=10)], [dict(type="application/protobuf", q=10)], [dict(type="*/*", q=10)]]:
            for k in range(3):
                always.append(dict(fam="resp", accept=acc, lines=1, reqct=reqct, kind="upecho", respbody="", acceptenc=rnd.choice(["", "gzip"]), junk="", hdr=""))
    return out[: (3000 if tier == "quick" else 400000)] + always


def run(prop, tier, replay=None):
    t0 = time.time()
    seed = C.seed()
    rnd = random.Random(seed)
    scratch = C.Scratch(prop.lower())
    try:
        harness = C.build_harness(scratch)
        cpath = scratch.path("cases.jsonl")
        if replay:
            rp = json.load(open(replay))
            seed = rp.get("seed", seed)
            cases = rp["cases"]
            design = dict(states=0, transitions=0, neg_guards=0)
        else:
            design = design_check(scratch)
            if prop == "C04":
                cases = resp_cases(rnd, tier)
            else:
                cases = req_cases(prop, gen_abstract(scratch), rnd, tier)
            for i, c in enumerate(cases):
                c["id"] = i + 1
        with open(cpath, "w") as f:
            for c in cases:
                f.write(json.dumps(c) + "\n")
        trace = scratch.path("trace.ndjson")
        p, _ = C.run([harness, "transcode", "-cases", cpath, "-out", trace, "-seed", str(seed)], timeout=3000)
        if p.returncode != 0:
            raise C.Infra("transcode driver failed:\n" + p.stdout[-3000:])
        shards = C.split_trace(trace, 16, scratch.path("shards"), lambda l: True)
        reps = C.validate_shards(scratch, "TranscodeTrace.tla", "TranscodeTrace.cfg", shards, timeout=3000)
        stat = collections.Counter()
        failed = []
        for r in reps:
            for k, v in r["stat"].items():
                stat[k] += v
            for f in r["failed"]:
                failed.append((r["_shard"], f[0], f[1], f[2]))
        by_id = {c["id"]: c for c in cases}
        findings = C.load_findings()
        cache, viol, known = {}, {}, collections.Counter()
        crashes = 0
        for sh, case, line, formula in failed:
            if formula == "Crash":
                crashes += 1          # C09's
                continue
            if formula not in FORMULAS[prop]:
                continue
            if sh not in cache:
                cache[sh] = open(sh).read().splitlines()
            ev = json.loads(cache[sh][line - 1])
            if ev["ev"] == "Tc":
                inv = ev["c"]["invalid"]
                kinds = sorted(v.split(":")[1] for k, v in ev["fields"].items() if k in ev["c"]["present"] or k in ("p1",))
                sig = dict(module="Transcode", formula=formula, body=ev["c"]["body"], codec=ev["c"]["codec"], stream=ev["c"]["stream"],
                           invalid_kind=(ev["fields"].get(inv, ":").split(":")[1] if inv else ""), status=ev["status"])
                what = "%s: %s body=%s codec=%s%s fields=%s -> delivered=%s status=%s equal=%s tags=%s %s" % (
                    formula, ev["url"][:160], ev["bodytext"][:120], ev["c"]["codec"], "+gzip" if ev["c"]["gzip"] else "",
                    {k: v for k, v in ev["fields"].items() if k in ev["c"]["present"]}, ev["delivered"], ev["status"], ev["equal"],
                    {k: v for k, v in ev["tags"].items() if v != "absent"}, (ev.get("got") or "")[:200])
                key = (formula, sig["body"], sig["invalid_kind"], ev["c"]["stream"], ev["c"]["codec"])
            else:
                sig = dict(module="Negotiate", formula=formula, kind=ev["kind"], respbody=ev["respbody"], crash=bool(ev["crash"]),
                           accept_types=sorted(set(r["type"] for r in ev["accept"])), status=ev["status"])
                what = "%s: Accept=%r reqct=%s kind=%s response_body=%r -> status=%s ct=%r ce=%r decoded=%s %s" % (
                    formula, ev["header"], ev["reqct"], ev["kind"], ev["respbody"], ev["status"], ev["ct"], ev["ce"], ev["decoded"], ev["crash"][:80])
                key = (formula, ev["kind"], ev["respbody"], bool(ev["crash"]), ev["status"])
            kf = C.match_finding(findings, prop, sig)
            if kf:
                known[kf["id"]] += 1
                continue
            if key in viol:
                viol[key]["more"] += 1
                continue
            viol[key] = dict(property=prop, formula=formula, seed=seed, cases=[by_id[case]], observed=ev, signature=sig, what=what, more=0,
                             replay_driver="transcode")
        for fid, n in sorted(known.items()):
            f = next(x for x in findings if x["id"] == fid)
            print("KNOWN-FINDING: property=%s %s (%d observations this run)" % (prop, f["what"], n))
        for i, (key, v) in enumerate(sorted(viol.items(), key=str)):
            if i >= 40:
                break
            rp = C.write_replay(prop, "%s-%d" % (key[0], abs(hash(str(key))) % 100000), v)
            print("VIOLATION property=%s replay=%s  (%s; +%d similar)" % (prop, rp, v["what"][:700], v["more"]))
        nviol = len(viol)
        samples = []
        with open(trace) as f:
            for i, line in enumerate(f):
                if i < 3:
                    e = json.loads(line)
                    samples.append({k: e[k] for k in e if k in ("url", "bodytext", "fields", "tags", "equal", "delivered", "header", "ct", "kind", "respbody", "decoded", "status")})
        nontrivial = {"C03": stat["delivered"] + stat["invalid"], "C07": stat["competing"], "C04": stat["negotiated"] + stat["httpbody"]}[prop]
        cov = dict(states=design["states"], transitions=design["transitions"], traces_validated_against_impl=stat["tcs"] + stat["resps"],
                   evaluations=stat["tcs"] + stat["resps"], distinct_nontrivial=nontrivial,
                   rule=("request shapes: every (body selector, 1-2 path variables, presence pattern over 8 roles, competing value in query/body) "
                         "that Transcode.tla admits (1,024, enumerated by TLC), each concretised with seeded fields of every scalar kind, enum, bytes "
                         "(all base64 alphabets/paddings), repeated, nested, oneof, wrappers, Timestamp/Duration/FieldMask, boundary tables and "
                         "random values, JSON/protobuf bodies, gzip, JSON-name / proto-name query keys, first message of a stream; C03 adds one "
                         "invalid text per shape; C04: Accept headers of <=3 ranges over 7 types x q in {1,0.5,0} x request content type x reply "
                         "kind x response_body. Non-trivial: C03 delivered-or-invalid cases, C07 cases with a competing value, C04 cases in which "
                         "negotiation has an admitted type or the reply is an HttpBody."),
                   samples=samples, exhaustive=False, crashes_left_to_C09=crashes, **{k: v for k, v in stat.items()},
                   neg_guards_violated=design.get("neg_guards"), known_findings=dict(known))
        C.write_evidence(prop, tier, "model_checking", cov,
                         ["the text form of each value is its proto3 JSON text; the identity on the driver's own generated message is the value oracle",
                          "permissive Accept reading (a type is admitted if some range with q>0 matches it); q=0 shadowing unspecified",
                          "non-canonical texts (1.0 for ints, True, NaN spellings) and content types with parameters are unspecified"],
                         time.time() - t0, nviol)
        print("%s %s: design states=%d, cases=%d, nontrivial=%d, violations=%d (classes), known=%d, wall=%.0fs" % (
            prop, tier, design["states"], stat["tcs"] + stat["resps"], nontrivial, nviol, sum(known.values()), time.time() - t0))
        return 1 if nviol else 0
    finally:
        scratch.cleanup()
