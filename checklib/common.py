"""Shared machinery behind every MANIFEST command: scratch space, harness build,
TLC invocation, parsing of TLC's printed tuples, known findings, evidence."""
import json, os, re, shutil, subprocess, sys, tempfile, time, hashlib

VERIF = os.path.dirname(os.path.dirname(os.path.abspath(__file__)))
REPO = os.environ.get("VERIF_REPO", "/repo")
SPEC = os.path.join(VERIF, "spec")
HARNESS_SRC = os.path.join(VERIF, "harness")
NCPU = os.cpu_count() or 4

GOENV = dict(os.environ, GOFLAGS="-mod=mod", GOPROXY="off", GOSUMDB="off", GOTOOLCHAIN="local",
             CGO_ENABLED=os.environ.get("CGO_ENABLED", "0"))


class Infra(Exception):
    """Infrastructure failure: exit 2, never a violation."""


class Scratch:
    def __init__(self, tag):
        base = os.environ.get("VERIF_SCRATCH") or tempfile.gettempdir()
        self.dir = tempfile.mkdtemp(prefix="verif-%s-" % tag, dir=base)

    def path(self, *p):
        return os.path.join(self.dir, *p)

    def cleanup(self):
        if os.environ.get("VERIF_KEEP"):
            print("scratch kept:", self.dir)
            return
        shutil.rmtree(self.dir, ignore_errors=True)


def seed():
    try:
        return int(os.environ.get("VERIF_SEED", "1"))
    except ValueError:
        return 1


def run(cmd, timeout=None, env=None, cwd=None, stdout=None, check=False, inp=None):
    t0 = time.time()
    try:
        p = subprocess.run(cmd, cwd=cwd, env=env, timeout=timeout, input=inp,
                           stdout=stdout or subprocess.PIPE, stderr=subprocess.STDOUT, text=True)
    except subprocess.TimeoutExpired as e:
        raise Infra("timeout after %ss: %s" % (timeout, " ".join(cmd[:6])))
    if check and p.returncode != 0:
        raise Infra("command failed (%d): %s\n%s" % (p.returncode, " ".join(cmd[:8]), (p.stdout or "")[-3000:]))
    return p, time.time() - t0


_built = {}


def build_harness(scratch, race=False):
    """Builds the Go harness against /repo's current working tree (tag verif)."""
    key = (scratch.dir, race)
    if key in _built:
        return _built[key]
    src = scratch.path("harness-src")
    if not os.path.isdir(src):
        shutil.copytree(HARNESS_SRC, src, ignore=shutil.ignore_patterns("harness", "harness-race"))
        # go.sum comes from the repository; the replace directive points at REPO
        shutil.copy(os.path.join(REPO, "go.sum"), os.path.join(src, "go.sum"))
        gm = open(os.path.join(src, "go.mod")).read().replace("=> /repo", "=> " + REPO)
        open(os.path.join(src, "go.mod"), "w").write(gm)
    out = scratch.path("harness-race" if race else "harness")
    cmd = ["go", "build", "-tags", "verif", "-o", out]
    env = dict(GOENV)
    if race:
        cmd.insert(2, "-race")
        env["CGO_ENABLED"] = "1"
    cmd.append(".")
    p, dt = run(cmd, cwd=src, env=env, timeout=900)
    if p.returncode != 0:
        raise Infra("harness build failed (hooks or API changed?):\n" + p.stdout[-4000:])
    _built[key] = out
    return out


TLC_STATS = re.compile(r"(\d+) states generated, (\d+) distinct states found")


def tlc(scratch, module, cfg, workers=1, env_extra=None, timeout=1200, simulate=None, depth=None,
        tag=None, extra=None, heap=None):
    """Runs TLC in a private copy of the spec directory; returns dict(out, rc, generated, distinct, wall)."""
    tag = tag or (cfg.replace(".cfg", "") + "-" + hashlib.md5(repr((env_extra, simulate, extra)).encode()).hexdigest()[:6])
    wd = scratch.path("tlc-" + tag)
    os.makedirs(wd, exist_ok=True)
    for f in os.listdir(SPEC):
        if f.endswith(".tla") or f.endswith(".cfg"):
            shutil.copy(os.path.join(SPEC, f), wd)
    tmp = os.path.join(wd, "tmp")
    os.makedirs(tmp, exist_ok=True)
    env = dict(os.environ)
    jto = "-Djava.io.tmpdir=" + tmp + " -Xss64m"
    if heap:
        jto += " -Xmx" + heap
    env["JAVA_TOOL_OPTIONS"] = (env.get("JAVA_TOOL_OPTIONS", "") + " " + jto).strip()
    if env_extra:
        env.update(env_extra)
    cmd = ["tlc", "-workers", str(workers), "-metadir", os.path.join(wd, "meta"), "-config", cfg]
    if simulate:
        cmd += ["-simulate", simulate]
    if depth:
        cmd += ["-depth", str(depth)]
    if extra:
        cmd += extra
    cmd.append(module)
    outp = os.path.join(wd, "tlc.out")
    t0 = time.time()
    with open(outp, "w") as fo:
        try:
            p = subprocess.run(cmd, cwd=wd, env=env, timeout=timeout, stdout=fo, stderr=subprocess.STDOUT)
            rc = p.returncode
        except subprocess.TimeoutExpired:
            subprocess.run(["pkill", "-f", wd], check=False)
            raise Infra("TLC timeout after %ss on %s/%s" % (timeout, module, cfg))
    wall = time.time() - t0
    text = open(outp, errors="replace").read()
    gen = dist = 0
    for m in TLC_STATS.finditer(text):
        gen, dist = int(m.group(1)), int(m.group(2))
    return dict(out=text, rc=rc, generated=gen, distinct=dist, wall=wall, path=outp)


def printed(text, tag):
    """Yields the JSON payloads of lines TLC printed as <<"TAG", "json">>."""
    pre = '<<"%s", ' % tag
    for line in text.splitlines():
        if line.startswith(pre):
            inner = line[len(pre):].rstrip()
            if inner.endswith(">>"):
                inner = inner[:-2]
            try:
                yield json.loads(json.loads(inner))
            except Exception as e:
                raise Infra("cannot parse TLC output line: %s (%s)" % (line[:200], e))


def tlc_ok(res, what):
    """A design-level run must finish without TLC error."""
    t = res["out"]
    if "Model checking completed. No error has been found." in t or "Finished in" in t and "Error:" not in t:
        return
    raise Infra("TLC did not complete cleanly for %s (rc=%s):\n%s" % (what, res["rc"], t[-3000:]))


def tlc_violated(res):
    m = re.search(r"Error: Invariant (\w+) is violated|Error: Action property (\w+) is violated|Error: Deadlock reached|Temporal properties were violated|Temporal property \w+ was violated", res["out"])
    return m.group(0) if m else None


def larking_panic(text):
    """If text holds a Go panic of a driver process whose panicking goroutine is inside larking (a larking frame comes before
    any frame of the harness), returns a short description; else None.  A server that dies is a verdict (C09), a harness that
    dies is not."""
    m = re.search(r"^panic: (.*)$", text, re.M)
    if not m:
        return None
    for blk in re.findall(r"goroutine \d+ \[running\]:\n((?:.+\n?)+)", text):
        for line in blk.splitlines():
            if line.startswith("larking.io/larking."):
                return "panic: %s (in %s)" % (m.group(1)[:200], line.split("(")[0])
            if line.startswith("main."):
                break
    return None


# ---- known findings --------------------------------------------------------------

def load_findings():
    p = os.path.join(VERIF, "known_findings.json")
    if not os.path.exists(p):
        return []
    return json.load(open(p)).get("findings", [])


def match_finding(findings, prop, sig):
    """sig: dict describing the abstract failing case. A finding matches when it is open,
    for this property, and every key of its 'signature' equals the case's value
    (lists in the signature mean 'one of')."""
    for f in findings:
        if f.get("status") != "open" or f.get("property") != prop:
            continue
        ok = True
        for k, v in f.get("signature", {}).items():
            cv = sig.get(k)
            if isinstance(v, list):
                if cv not in v:
                    ok = False
            elif cv != v:
                ok = False
            if not ok:
                break
        if ok:
            return f
    return None


# ---- evidence ----------------------------------------------------------------------

def write_evidence(prop, tier, level, coverage, assumptions, wall, violations, extra=None):
    ev = dict(property_id=prop, tier=tier, seed=seed(), level=level, coverage=coverage,
              assumptions=assumptions, wall_s=round(wall, 2), violations=violations)
    if extra:
        ev.update(extra)
    # (runs against a scratch worktree - VERIF_REPO - write their evidence elsewhere: evidence/ describes /repo)
    evdir = os.environ.get("VERIF_EVIDENCE_DIR") or (os.path.join(VERIF, "evidence") if "VERIF_REPO" not in os.environ
                                                       else os.path.join(VERIF, ".scratch", "evidence-other-tree"))
    os.makedirs(evdir, exist_ok=True)
    p = os.path.join(evdir, prop + ".json")
    with open(p + ".tmp", "w") as f:
        json.dump(ev, f, indent=1, sort_keys=True, default=str)
    os.replace(p + ".tmp", p)
    return p


_cleaned = set()


def write_replay(prop, name, obj):
    d = os.path.join(VERIF, "replays", "found")
    os.makedirs(d, exist_ok=True)
    if prop not in _cleaned:   # the directory reflects the last run of each property
        _cleaned.add(prop)
        for f in os.listdir(d):
            if f.startswith(prop + "-"):
                os.remove(os.path.join(d, f))
    p = os.path.join(d, "%s-%s.json" % (prop, name))
    with open(p, "w") as f:
        json.dump(obj, f, indent=1, default=str)
    return p


def split_trace(path, nshards, outdir, is_boundary):
    """Splits an ndjson trace into shards at case boundaries (lines for which is_boundary is true)."""
    os.makedirs(outdir, exist_ok=True)
    outs = [open(os.path.join(outdir, "shard%02d.ndjson" % i), "w") for i in range(nshards)]
    counts = [0] * nshards
    cur = 0
    ncase = 0
    with open(path) as f:
        for line in f:
            if is_boundary(line):
                cur = ncase % nshards
                ncase += 1
            outs[cur].write(line)
            counts[cur] += 1
    for o in outs:
        o.close()
    return [(os.path.join(outdir, "shard%02d.ndjson" % i), counts[i]) for i in range(nshards) if counts[i] > 0]


def validate_shards(scratch, module, cfg, shards, timeout=1500, par=None):
    """Runs the trace specification on every shard in parallel; returns list of REPORT payloads."""
    import concurrent.futures as cf
    par = par or max(1, min(NCPU, len(shards)))

    def one(sh):
        path, n = sh
        res = tlc(scratch, module, cfg, workers=1, env_extra={"TRACE": path}, timeout=timeout,
                  tag="tv-" + os.path.basename(path).replace(".ndjson", ""), heap="3g")
        reps = list(printed(res["out"], "REPORT"))
        if not reps:
            raise Infra("trace validation produced no REPORT for %s:\n%s" % (path, res["out"][-3000:]))
        rep = reps[-1]
        if rep["consumed"] != n or rep["len"] != n:
            raise Infra("trace not fully consumed (%s of %s lines) in %s" % (rep["consumed"], n, path))
        rep["_tlc"] = dict(generated=res["generated"], distinct=res["distinct"], wall=res["wall"])
        rep["_shard"] = path
        return rep

    with cf.ThreadPoolExecutor(max_workers=par) as ex:
        return list(ex.map(one, shards))
