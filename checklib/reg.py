"""C16: Grammar.tla design check (lexer vs documented grammar), TLC-generated templates /
mutants / rule cases registered on real muxes, trace validated by RegTrace.tla; plus the
Router pipeline on single-rule sets (accepted templates must route their instantiations)."""
import json, os, time, random, collections, itertools, concurrent.futures as cf
from . import common as C
from . import router as R

BODY = ["", "*", "b", "n", "zz", "s.x", "b.zz", "s", "r", "mp", "mp.value", "mp.key", "rn.s", "r.x"]
RESP = ["", "sub", "echo", "echo.n", "zz", "id.x", "sub.zz", "id", "echo.mp.value", "echo.rn.s", "*", "echo.*"]
VARFP = ["", "", "", "n.s", "b.s", "n.deep.s", "zz", "s.x", "n.zz", "mp.value", "mp.key", "rn.s", "r.x", "n", "r", "mp"]
CONFLICT = ["none", "same", "samevar", "implicit", "implicitOther", "starOnConcrete", "concreteOnStar", "leafThenBad", "belowLeafThenBad", "verbLeafThenBad"]
NAMES = [("vs", "X", "Mx"), ("vs", "Svc", "M"), ("v", "Svc", "Mx"), ("a.b", "S1", "Get_2"), ("vs", "S_x", "M9"),
         ("", "Top", "Call"), ("x.y.z", "A", "B"), ("vs", "Svc", "Aa")]


def design_check(scratch, tier):
    mc = C.tlc(scratch, "Grammar_MC.tla", "Grammar_MC.cfg" if tier == "quick" else "Grammar_MCbig.cfg", workers=16, timeout=1500, tag="gmc")
    C.tlc_ok(mc, "Grammar_MC")
    if C.tlc_violated(mc):
        raise C.Infra("Grammar design check violated (specification error):\n" + mc["out"][-2000:])
    neg = C.tlc(scratch, "Grammar_MC.tla", "Grammar_Neg_OneLetter.cfg", workers=4, timeout=600, tag="gneg")
    v = C.tlc_violated(neg)
    if not v or "LexerComplete" not in v:
        raise C.Infra("vacuity guard Grammar_Neg_OneLetter did not violate LexerComplete")
    return dict(states=mc["distinct"], transitions=mc["generated"], neg_guards=1)


def gen_cases(scratch, tier, seed, path):
    res = C.tlc(scratch, "Grammar_Gen.tla", "Grammar_Gen.cfg", workers=1, timeout=900, tag="ggen")
    C.tlc_ok(res, "Grammar_Gen")
    xs = []
    for line in res["out"].splitlines():
        if line.startswith('<<"X", "'):
            xs.append(line[len('<<"X", "'):-3].split(" "))
    total = len(xs)
    rnd = random.Random(seed)
    if tier == "quick":
        short = [x for x in xs if len(x) <= 3]
        rest = [x for x in xs if len(x) > 3]
        xs = short + rnd.sample(rest, min(len(rest), 30000))
    cases = []
    for x in xs:
        cases.append(dict(id=len(cases) + 1, kind="tmpl", x=x, onto="base" if rnd.random() < 0.5 else "empty",
                          body="", resp="", nested=False, conflict="none", varfp=""))
    # long templates around the lexer's token buffer (64): accepted or refused with an error, never a crash
    for nseg in [20, 30, 31, 32, 33, 34, 40, 63, 64, 65, 100]:
        for tail in [[], [":", "L"], ["/", "*"], ["/", "{", "s", "}"]]:
            for onto in ("base", "empty"):
                cases.append(dict(id=len(cases) + 1, kind="tmpl", x=["/", "L"] * nseg + tail, onto=onto, body="", resp="", nested=False,
                                  conflict="none", varfp=""))
    for b, r, n, cfl, onto in itertools.product(BODY, RESP, [False, True], CONFLICT, ["base", "empty"]):
        if onto == "empty" and cfl not in ("none", "implicit"):
            continue
        cases.append(dict(id=len(cases) + 1, kind="rule", x=[], onto=onto, body=b, resp=r, nested=n, conflict=cfl, varfp=""))
    for vf, b, cfl, onto in itertools.product(VARFP[3:], ["", "*", "b"], ["none", "leafThenBad"], ["base", "empty"]):
        if onto == "empty" and cfl != "none":
            continue
        cases.append(dict(id=len(cases) + 1, kind="rule", x=[], onto=onto, body=b, resp="", nested=False, conflict=cfl, varfp=vf))
    for pkg, svc, m in NAMES:
        for onto in ("base", "empty"):
            cases.append(dict(id=len(cases) + 1, kind="name", x=[], onto=onto, body="", resp="", nested=False,
                              conflict="none", varfp="", pkg=pkg, svc=svc, method=m))
    with open(path, "w") as f:
        for c in cases:
            f.write(json.dumps(c) + "\n")
    return cases, total


def sig_of(ev, formula):
    return dict(module="Grammar", formula=formula, ev=ev["ev"], body=ev.get("body"), resp=ev.get("resp"),
                nested=ev.get("nested"), conflict=ev.get("conflict"), out=ev["out"],
                has_nested_var=(lambda x: any(sum(1 for a in x[:k + 1] if a == "{") - sum(1 for a in x[:k + 1] if a == "}") >= 2 for k in range(len(x))))(ev.get("x") or []),
                resp_set=bool(ev.get("resp")))


def run(prop, tier, replay=None):
    t0 = time.time()
    seed = C.seed()
    scratch = C.Scratch("c16")
    try:
        harness = C.build_harness(scratch)
        cpath = scratch.path("regcases.jsonl")
        rcases = scratch.path("rcases.jsonl")
        if replay:
            rp = json.load(open(replay))
            seed = rp.get("seed", seed)
            design = dict(states=0, transitions=0, neg_guards=0)
            if rp.get("replay_driver") == "router":
                open(rcases, "w").write(json.dumps(rp["case"]) + "\n")
                open(cpath, "w").write("")
                cases, total, router_cases = [], 0, [rp["case"]]
            else:
                open(cpath, "w").write(json.dumps(rp["case"]) + "\n")
                open(rcases, "w").write("")
                cases, total, router_cases = [rp["case"]], 0, []
        else:
            with cf.ThreadPoolExecutor(max_workers=3) as ex:
                fd = ex.submit(design_check, scratch, tier)
                fg = ex.submit(gen_cases, scratch, tier, seed, cpath)
                fr = ex.submit(R.generate_cases, scratch, tier, seed, scratch.path("allrouter.jsonl"))
                design = fd.result()
                cases, total = fg.result()
                allr, _ = fr.result()
            router_cases = [c for c in allr if len(c["rules"]) == 1]
            with open(rcases, "w") as f:
                for c in router_cases:
                    f.write(json.dumps(c) + "\n")
        failed = []   # (source, shard, case, line, formula)
        stat = collections.Counter()
        if cases:
            trace = scratch.path("regtrace.ndjson")
            p, _ = C.run([harness, "reg", "-cases", cpath, "-out", trace, "-seed", str(seed)], timeout=1800)
            if p.returncode != 0:
                raise C.Infra("reg driver failed:\n" + p.stdout[-3000:])
            shards = C.split_trace(trace, 16, scratch.path("regshards"), lambda l: True)
            for r in C.validate_shards(scratch, "RegTrace.tla", "RegTrace.cfg", shards):
                for k, v in r["stat"].items():
                    stat[k] += v
                for f in r["failed"]:
                    failed.append(("reg", r["_shard"], f[0], f[1], f[2]))
        rstat = collections.Counter()
        if router_cases:
            rtrace = scratch.path("rtrace.ndjson")
            p, _ = C.run([harness, "router", "-cases", rcases, "-out", rtrace, "-side", scratch.path("rside.jsonl"),
                          "-seed", str(seed)], timeout=1800)
            if p.returncode != 0:
                raise C.Infra("router driver failed:\n" + p.stdout[-3000:])
            shards = C.split_trace(rtrace, 16, scratch.path("rshards"), lambda l: l.startswith('{"ev":"Reset"'))
            for r in C.validate_shards(scratch, "RouterTrace.tla", "RouterTrace.cfg", shards):
                for k, v in r["stat"].items():
                    rstat[k] += v
                for f in r["failed"]:
                    if f[2] in ("RejectedPlain", "RegPanic", "Complete"):
                        failed.append(("router", r["_shard"], f[0], f[1], f[2]))
        findings = C.load_findings()
        by_id = {c["id"]: c for c in cases}
        rby_id = {c["id"]: c for c in router_cases}
        cache = {}
        viol = {}
        known = collections.Counter()
        for src, sh, case, line, formula in failed:
            if sh not in cache:
                cache[sh] = open(sh).read().splitlines()
            ev = json.loads(cache[sh][line - 1])
            if src == "reg":
                sig = sig_of(ev, formula)
                desc = "%s %s -> %s %s" % (ev["ev"], ev.get("text"), ev["out"], ev.get("err", "")[:80])
                rcase = by_id.get(case)
                drv = "reg"
            else:
                k = line - 1
                while not cache[sh][k].startswith('{"ev":"Reset"'):
                    k -= 1
                rs = json.loads(cache[sh][k])
                sig = dict(module="Router", formula=formula,
                           shapes=sorted(set(R.shape_tmpl(r["tmpl"]) for r in rs["rules"][:rs["nuser"]])))
                desc = "%s rules %s: %s" % (formula, [r["kind"] + " " + R.tmpl_text(r["tmpl"]) for r in rs["rules"][:rs["nuser"]]],
                                            (rs["errs"] or [R.path_text(ev.get("path", []))])[0][:100])
                rcase = rby_id.get(case)
                drv = "router"
            kf = C.match_finding(findings, prop, sig)
            if kf:
                known[kf["id"]] += 1
                continue
            key = (src, case, formula)
            if key in viol:
                continue
            viol[key] = dict(property=prop, formula=formula, seed=seed, case=rcase, observed=ev, signature=sig,
                             what=desc, replay_driver=drv)
        for fid, n in sorted(known.items()):
            f = next(x for x in findings if x["id"] == fid)
            print("KNOWN-FINDING: property=%s %s (%d observations this run)" % (prop, f["what"], n))
        shown = collections.Counter()
        for key, v in sorted(viol.items(), key=lambda kv: (kv[0][2], kv[0][0], kv[0][1])):
            shown[key[2]] += 1
            if shown[key[2]] > 8:
                continue
            rp = C.write_replay(prop, "%s-%s%d-seed%d" % (key[2], key[0], key[1], seed), v)
            print("VIOLATION property=%s replay=%s  (%s)" % (prop, rp, v["what"]))
        nviol = len(viol)
        samples = [dict(kind=c["kind"], x=" ".join(c["x"]), onto=c["onto"], body=c["body"], resp=c["resp"],
                        nested=c["nested"], conflict=c["conflict"]) for c in (cases[:2] + cases[-20:-18])]
        cov = dict(states=design["states"], transitions=design["transitions"],
                   traces_validated_against_impl=stat["regs"] + rstat["cases"],
                   evaluations=stat["regs"] + rstat["lookups"],
                   distinct_nontrivial=stat["mustAccept"] + stat["mustReject"],
                   rule=("TLC enumerates every lexeme sequence up to length 4 and 1,386 grammar-derived templates with all their "
                         "single-edit mutants (%d distinct in all; quick tier replays all of length<=3 and a seeded sample of the rest); "
                         "rule-level cases = body x response_body x nesting x conflict x onto product; name shapes; each registered "
                         "on a fresh real mux (empty or with a base service), classification accept/reject/unspecified computed by "
                         "TLC from Grammar.tla. Non-trivial = cases classified must-accept or must-reject." % total),
                   samples=samples, exhaustive=(tier != "quick"),
                   must_accept=stat["mustAccept"], must_reject=stat["mustReject"], unspecified=stat["unspecified"],
                   accepted=stat["accepted"], rejected=stat["rejected"], panics=stat["panics"],
                   rule_cases=stat["rules"], name_cases=stat["names"], onto_base=stat["ontoBase"],
                   router_single_rule_sets=rstat["cases"], router_lookups=rstat["lookups"], router_must_dispatch=rstat["must"],
                   neg_guards_violated=design.get("neg_guards"), known_findings=dict(known))
        C.write_evidence(prop, tier, "model_checking", cov,
                         ["documented template grammar as formalised in spec/Grammar.tla; nested variables, '**' not last, digit-first words, "
                          "message-typed path variables and '*'-kind overlaps are unspecified (accept or reject, never crash)",
                          "a conflict is: same kind and same template already bound to another method"],
                         time.time() - t0, nviol)
        print("C16 %s: design states=%d, registrations=%d (must-accept %d, must-reject %d, unspecified %d), router sets=%d, violations=%d, known=%d, wall=%.0fs" % (
            tier, design["states"], stat["regs"], stat["mustAccept"], stat["mustReject"], stat["unspecified"], rstat["cases"],
            nviol, sum(known.values()), time.time() - t0))
        return 1 if nviol else 0
    finally:
        scratch.cleanup()
