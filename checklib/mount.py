"""C20: Mount.tla (ServeMux longest-pattern selection, prefix stripping) design check; every mount-pattern set TLC
enumerates installed with NewServer on a real Mux and probed on transcoding, Twirp, gRPC and gRPC-web; validated
by TLC against MountTrace.tla."""
import json, os, time, collections
from . import common as C

FORMULAS = ["PrefixTransparent", "OutsideNotServed", "ExtraHandlersKept"]


def run(prop, tier, replay=None):
    t0 = time.time()
    seed = C.seed()
    scratch = C.Scratch("c20")
    try:
        harness = C.build_harness(scratch)
        cpath = scratch.path("cases.jsonl")
        if replay:
            rp = json.load(open(replay))
            cases = rp["cases"]
            design = dict(states=0, transitions=0)
        else:
            mc = C.tlc(scratch, "Mount_MC.tla", "Mount_MC.cfg", workers=4, timeout=600, tag="mmc")
            C.tlc_ok(mc, "Mount_MC")
            if C.tlc_violated(mc):
                raise C.Infra("Mount design check violated:\n" + mc["out"][-2000:])
            design = dict(states=mc["distinct"], transitions=mc["generated"])
            g = C.tlc(scratch, "Mount_Gen.tla", "Mount_Gen.cfg", workers=1, timeout=600, tag="mgen")
            cases = list(C.printed(g["out"], "CASE"))
            if not cases:
                raise C.Infra("Mount_Gen produced no cases:\n" + g["out"][-1500:])
        with open(cpath, "w") as f:
            for c in cases:
                f.write(json.dumps(c) + "\n")
        trace = scratch.path("trace.ndjson")
        # every pattern set is concretised with seeded segment texts and requests: the thorough tier draws 12 times
        with open(trace, "w") as tf:
            for k in range(1 if (tier == "quick" or replay) else 100):
                part = scratch.path("trace%d.ndjson" % k)
                p, _ = C.run([harness, "mount", "-cases", cpath, "-out", part, "-seed", str(seed + 1000 * k)], timeout=1800)
                if p.returncode != 0:
                    raise C.Infra("mount driver failed:\n" + p.stdout[-3000:])
                tf.write(open(part).read())
        shards = C.split_trace(trace, 8, scratch.path("shards"), lambda l: True)
        reps = C.validate_shards(scratch, "MountTrace.tla", "MountTrace.cfg", shards, timeout=1800)
        stat = collections.Counter()
        failed = []
        for r in reps:
            for k, v in r["stat"].items():
                stat[k] += v
            for f in r["failed"]:
                failed.append((r["_shard"], f[0], f[1], f[2]))
        findings = C.load_findings()
        cache, viol, known = {}, {}, collections.Counter()
        crashes = 0
        for sh, case, line, formula in failed:
            if formula == "Crash":
                crashes += 1
            if formula not in FORMULAS and formula != "Crash":
                continue
            if sh not in cache:
                cache[sh] = open(sh).read().splitlines()
            ev = json.loads(cache[sh][line - 1])
            pats = ["/" + "/".join(p["segs"]) + ("/" if p["slash"] and p["segs"] else "") for p in ev["patterns"]]
            sig = dict(module="Mount", formula=formula, proto=ev["proto"], patterns=sorted(pats))
            kf = C.match_finding(findings, prop, sig)
            if kf:
                known[kf["id"]] += 1
                continue
            key = (formula, ev["proto"], tuple(sorted(pats)) if formula == "Crash" else None)
            if key in viol:
                viol[key]["more"] += 1
                continue
            viol[key] = dict(property=prop, formula=formula, seed=seed, cases=[cases[case - 1]], observed=ev, signature=sig, more=0,
                             what="%s: patterns %s extras %d request %s /%s -> %s (tag %r) %s" % (formula, pats, len(ev["extras"]), ev["proto"], "/".join(ev["path"]), ev["text"], ev["gottag"], ev["crash"][:80]))
        for fid, n in sorted(known.items()):
            f = next(x for x in findings if x["id"] == fid)
            print("KNOWN-FINDING: property=%s %s (%d observations this run)" % (prop, f["what"], n))
        for i, (key, v) in enumerate(sorted(viol.items(), key=str)):
            if i >= 30:
                break
            rp = C.write_replay(prop, "%s-%d" % (key[0], abs(hash(str(key))) % 100000), v)
            print("VIOLATION property=%s replay=%s  (%s; +%d similar)" % (prop, rp, v["what"], v["more"]))
        nviol = len(viol)
        samples = []
        with open(trace) as f:
            for i, line in enumerate(f):
                if i in (0, 40, 400):
                    e = json.loads(line)
                    samples.append(dict(patterns=e["patterns"], path=e["path"], proto=e["proto"], response=e["text"], bares=e["bares"]))
        cov = dict(states=design["states"], transitions=design["transitions"], traces_validated_against_impl=len(cases),
                   evaluations=stat["reqs"], distinct_nontrivial=stat["viaMux"],
                   rule=("every set of <=3 mount patterns from {/, /x, /x/, /x/y, /twirp, /api/} without duplicates (enumerated by TLC), with and without "
                         "two extra handlers (/metrics, /static/); request paths = {each mount prefix, no prefix, a look-alike prefix /xx, a foreign "
                         "prefix} x 10 probes over transcoding GET/POST, Twirp, gRPC (unary, bidi) and gRPC-web, plus the extra handlers' own paths. "
                         "Non-trivial = requests the specification routes to the mux through a stripped prefix."),
                   samples=samples, exhaustive=True, **{k: v for k, v in stat.items()}, known_findings=dict(known))
        C.write_evidence(prop, tier, "model_checking", cov,
                         ["net/http.ServeMux longest-pattern selection as in spec/Mount.tla; unclean paths (//, .., the exact prefix without a "
                          "trailing slash) are redirected by ServeMux and unspecified",
                          "the response comparison is a digest of status, headers (minus Date), trailers and body"],
                         time.time() - t0, nviol)
        print("C20 %s: design states=%d, pattern sets=%d, requests=%d (via mux %d, extra %d, outside %d), violations=%d (classes), known=%d, wall=%.0fs" % (
            tier, design["states"], len(cases), stat["reqs"], stat["viaMux"], stat["viaExtra"], stat["outside"], nviol, sum(known.values()), time.time() - t0))
        return 1 if nviol else 0
    finally:
        scratch.cleanup()
