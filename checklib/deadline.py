"""C15: Deadline.tla (timeout grammar classes; cancellation state machine with a liveness property checked by TLC);
TLC-enumerated timeout-string shapes through the real Mux and cancel / disconnect schedules against gated handlers
over real loopback sockets (grpc-go client, raw HTTP/1.1 connections); validated by TLC against DeadlineTrace.tla."""
import json, os, time, random, collections
from . import common as C

FORMULAS = ["DeadlineSet", "MalformedRefused", "CancelReachesContext", "CancelReleases", "SpuriousDone", "SendAfterCancelFails"]


def run(prop, tier, replay=None):
    t0 = time.time()
    seed = C.seed()
    rnd = random.Random(seed)
    scratch = C.Scratch("c15")
    try:
        harness = C.build_harness(scratch)
        cpath = scratch.path("cases.jsonl")
        if replay:
            rp = json.load(open(replay))
            cases = rp["cases"]
            design = dict(states=0, transitions=0)
        else:
            mc = C.tlc(scratch, "Deadline.tla", "Deadline_MC.cfg", workers=2, timeout=600, tag="dlmc")
            C.tlc_ok(mc, "Deadline_MC")
            if C.tlc_violated(mc):
                raise C.Infra("Deadline design check violated:\n" + mc["out"][-2000:])
            design = dict(states=mc["distinct"], transitions=mc["generated"])
            ng = C.tlc(scratch, "Deadline.tla", "Deadline_Neg_Detach.cfg", workers=2, timeout=600, tag="dlneg")
            if not C.tlc_violated(ng):
                raise C.Infra("vacuity guard Deadline_Neg_Detach found no violation")
            g = C.tlc(scratch, "Deadline_Gen.tla", "Deadline_Gen.cfg", workers=1, timeout=600, tag="dlgen")
            shapes = list(C.printed(g["out"], "SHAPE"))
            scheds = list(C.printed(g["out"], "SCHED"))
            if not shapes or not scheds:
                raise C.Infra("Deadline_Gen produced nothing:\n" + g["out"][-1500:])
            cases = []
            draws = 2 if tier == "quick" else 30
            for s in shapes:
                for d in range(draws if (s["digits"] and 1 <= s["n"] <= 9 and s["unit"] in "HMSmun" and s["unit"]) else 1):
                    cases.append(dict(fam="timeout", shape=s, proto=rnd.choice(["grpc", "grpcweb", "grpcwebtext"]), value=""))
            # boundary values: overflowing hours, leading zeros, extremes of 8 digits
            for unit in "HMSmun":
                for v in ["0", "1", "00000001", "99999999", "2562047", "2562048", "5124096", "7686143", "10248192", "12345678", "153722867", "01", "0001",
                          # zero-padded values that an octal reading would change or refuse
                          "010", "08", "09", "0100", "019", "00000019", "077", "01000000"]:
                    if len(v) <= 8:
                        cases.append(dict(fam="timeout", shape=dict(n=len(v), digits=True, unit=unit, signed=False), proto="grpc", value=v))
                    else:
                        cases.append(dict(fam="timeout", shape=dict(n=len(v), digits=True, unit=unit, signed=False), proto="grpcweb", value=v))
            # digits mixed with what other number syntaxes allow: all malformed
            for unit in "SmH":
                for v in ["0x10", "0b101", "0o17", "1_0", "1e3", "0X1F", "1.5", " 5", "5 "]:
                    cases.append(dict(fam="timeout", shape=dict(n=len(v), digits=False, unit=unit, signed=False), proto=rnd.choice(["grpc", "grpcweb"]), value=v))
            extra_h = 60 if tier == "quick" else 3000
            for k in range(extra_h):     # 7-8 digit hour values: the overflow / clamp band
                v = str(rnd.randint(1000000, 99999999))
                cases.append(dict(fam="timeout", shape=dict(n=len(v), digits=True, unit="H", signed=False), proto="grpc", value=v))
            reps = 1 if tier == "quick" else 12
            for s in scheds:
                for k in range(reps * (3 if s.get("gzip") else 1)):     # (gzip: the place of the break is drawn per case)
                    c = dict(s)
                    c["fam"] = "cancel"
                    cases.append(c)
            for i, c in enumerate(cases):
                c["id"] = i + 1
        with open(cpath, "w") as f:
            for c in cases:
                f.write(json.dumps(c) + "\n")
        trace = scratch.path("trace.ndjson")
        p, _ = C.run([harness, "deadline", "-cases", cpath, "-out", trace, "-seed", str(seed)], timeout=3000)
        if p.returncode != 0:
            raise C.Infra("deadline driver failed:\n" + p.stdout[-3000:])
        shards = C.split_trace(trace, 4, scratch.path("shards"), lambda l: True)
        reps_ = C.validate_shards(scratch, "DeadlineTrace.tla", "DeadlineTrace.cfg", shards, timeout=1800)
        stat = collections.Counter()
        failed = []
        for r in reps_:
            for k, v in r["stat"].items():
                stat[k] += v
            for f in r["failed"]:
                failed.append((r["_shard"], f[0], f[1], f[2]))
        by_id = {c["id"]: c for c in cases}
        findings = C.load_findings()
        cache, viol, known = {}, {}, collections.Counter()
        retry = []
        for sh, case, line, formula in failed:
            if formula not in FORMULAS:
                continue
            if sh not in cache:
                cache[sh] = open(sh).read().splitlines()
            ev = json.loads(cache[sh][line - 1])
            if ev["ev"] == "Cancel":
                retry.append((case, formula, ev))
                continue
            sig = dict(module="Deadline", formula=formula, unit=ev["shape"]["unit"], n=ev["shape"]["n"], digits=ev["shape"]["digits"], signed=ev["shape"]["signed"])
            kf = C.match_finding(findings, prop, sig)
            if kf:
                known[kf["id"]] += 1
                continue
            key = (formula, ev["shape"]["unit"], ev["shape"]["n"], ev["shape"]["digits"])
            if key in viol:
                viol[key]["more"] += 1
                continue
            viol[key] = dict(property=prop, formula=formula, seed=seed, cases=[by_id[case]], observed=ev, signature=sig, more=0,
                             what="%s: grpc-timeout %r over %s -> invoked=%s http=%s deadline=%s delta=%sms" % (formula, ev["text"], ev["proto"], ev["invoked"], ev["http"], ev["has"], ev["delta"]))
        # timing-dependent observations: a rejected cancel schedule counts only if it reproduces (DESIGN 5.3)
        unreproduced = 0
        if retry:
            rpath = scratch.path("retry.jsonl")
            with open(rpath, "w") as f:
                for case, formula, ev in retry:
                    for k in range(2):
                        f.write(json.dumps(by_id[case]) + "\n")
            rtrace = scratch.path("retry.ndjson")
            p, _ = C.run([harness, "deadline", "-cases", rpath, "-out", rtrace, "-seed", str(seed)], timeout=3000)
            rr = C.validate_shards(scratch, "DeadlineTrace.tla", "DeadlineTrace.cfg", [(rtrace, sum(1 for _ in open(rtrace)))], timeout=1800)
            again = collections.Counter((f[0], f[2]) for f in rr[0]["failed"])
            for case, formula, ev in retry:
                if again[(case, formula)] >= 2:
                    key = (formula, ev["shape"], ev["point"], ev["client"], bool(ev.get("gzip")), ev.get("via", "local"))
                    viol[key] = dict(property=prop, formula=formula, seed=seed, cases=[by_id[case]], observed=ev, more=0,
                                     signature=dict(module="Deadline", formula=formula, shape=ev["shape"], point=ev["point"], client=ev["client"]),
                                     what="%s: %s handler %s, client %s%s -> ctx done %s, released %s (error %s, io.EOF %s) within 5 s; reproduced twice" % (
                                         formula, ev["shape"], ev["point"], ev["client"], (" (gzip upload breaks off)" if ev.get("gzip") else "") + (" (handler on a backend behind RegisterConn)" if ev.get("via") == "proxied" else ""),
                                         ev["ctxdone"], ev["released"], ev["relerr"], ev.get("releof")))
                else:
                    unreproduced += 1
        for fid, n in sorted(known.items()):
            f = next(x for x in findings if x["id"] == fid)
            print("KNOWN-FINDING: property=%s %s (%d observations this run)" % (prop, f["what"], n))
        if not replay:
            # a plain HTTP upload (HttpBody chunks read with Recv) whose connection breaks inside a chunk: the handler blocked in
            # Recv is released with an error, not with a partial chunk followed by a clean end (PoolTrace: BrokenUploadIsError)
            ups = [dict(fam="upload", id=i + 1, len=n, limit=L, mode=m) for i, (L, n, m) in enumerate(
                (L, n, m) for L in (16, 64) for n in (3, L - 1, L, L + 1, 2 * L + 5, 5 * L) for m in ("broken", "brokendata"))]
            up, ut = scratch.path("brokenups.jsonl"), scratch.path("brokenups.ndjson")
            with open(up, "w") as f:
                for u in ups:
                    f.write(json.dumps(u) + "\n")
            p, _ = C.run([harness, "conc", "-cases", up, "-out", ut, "-seed", str(seed), "-workers", "4"], timeout=900)
            if p.returncode != 0:
                raise C.Infra("upload driver failed:\n" + p.stdout[-3000:])
            pr = C.validate_shards(scratch, "PoolTrace.tla", "PoolTrace.cfg", [(ut, sum(1 for _ in open(ut)))], timeout=900)[0]
            ulines = open(ut).read().splitlines()
            for f in pr["failed"]:
                if f[2] not in ("BrokenUploadIsError", "Crash"):
                    continue
                ev = json.loads(ulines[f[1] - 1])
                key = (f[2], "upload", ev["mode"])
                if key in viol:
                    viol[key]["more"] += 1
                    continue
                viol[key] = dict(property=prop, formula=f[2], seed=seed, cases=[ups[ev["case"] - 1]], observed=ev, more=0, replay_driver="conc",
                                 signature=dict(module="Pool", formula=f[2], mode=ev["mode"]),
                                 what="%s: HttpBody upload of %d bytes (chunk %d) that breaks off inside a chunk (%s): the handler's receive loop ended with %r after %d chunks %s" % (
                                     f[2], ev["len"], ev["limit"], ev["mode"], ev.get("end"), ev["chunks"], ev["crash"][:80]))
        for i, (key, v) in enumerate(sorted(viol.items(), key=str)):
            if i >= 30:
                break
            rp = C.write_replay(prop, "%s-%d" % (key[0], abs(hash(str(key))) % 100000), v)
            print("VIOLATION property=%s replay=%s  (%s; +%d similar)" % (prop, rp, v["what"], v["more"]))
        nviol = len(viol)
        samples = []
        with open(trace) as f:
            for i, line in enumerate(f):
                if i in (0, 1, 2) or '"ev":"Cancel"' in line and len(samples) < 6:
                    samples.append(json.loads(line))
        cov = dict(states=design["states"], transitions=design["transitions"], traces_validated_against_impl=stat["timeouts"] + stat["cancels"],
                   evaluations=stat["timeouts"] + stat["cancels"], distinct_nontrivial=stat["wellformed"] + stat["blocked"],
                   rule=("timeout strings: every shape (0..10 value characters x all-digits or not x 6 legal units, missing, unknown and wrong-case "
                         "units x signed) enumerated by TLC, concretised with seeded digits, plus boundary values (0, leading zeros, 99999999, the "
                         "overflowing-hours band, 9 digits) on gRPC and gRPC-web; the expected duration is value x unit in arbitrary precision "
                         "clamped to MaxInt64 ns. Cancel schedules: 4 shapes x handler position {running, blocked in Recv, blocked in Send on a "
                         "full window, returned} x {grpc-go cancel, plain-HTTP disconnect, gRPC-web disconnect} over loopback sockets with gated "
                         "handlers. Non-trivial = well-formed timeouts + schedules in which the handler really was blocked."),
                   samples=samples[:6], exhaustive=False, unreproduced_timing_misses=unreproduced, **{k: v for k, v in stat.items()}, known_findings=dict(known))
        C.write_evidence(prop, tier, "model_checking", cov,
                         ["'promptly' is a 5 s bound (observed release times are a few ms); a schedule that is rejected but does not reproduce twice is an infrastructure note, not a verdict",
                          "grpc-go client, net/http and x/net/http2 are trusted", "signed timeout values are unspecified"],
                         time.time() - t0, nviol)
        print("C15 %s: design states=%d, timeouts=%d (well-formed %d, malformed %d), cancel schedules=%d (blocked %d), violations=%d (classes), unreproduced=%d, wall=%.0fs" % (
            tier, design["states"], stat["timeouts"], stat["wellformed"], stat["malformed"], stat["cancels"], stat["blocked"], nviol, unreproduced, time.time() - t0))
        return 1 if nviol else 0
    finally:
        scratch.cleanup()
