"""C17: Framing.tla design check (every chunk schedule), TLC-generated streams read back through the
real stream codecs with enumerated / sampled read schedules, each call validated by FramingTrace.tla."""
import json, os, time, random, collections, concurrent.futures as cf
from . import common as C

CODECS = ["proto", "json", "body"]
NEGS = {"EofDropsData": "FragmentationInvariant", "Phantom": "FragmentationInvariant",
        "CountCarry": "FragmentationInvariant", "EofDropsJson": "ByteConservation"}
FORMULAS = {"C17": ["Fragmentation", "RemainderExact", "LimitSafe", "Crash", "Fabricated", "SpuriousRefusal",
                    "ErrorExpected", "WriteNext", "CallAfterEnd"]}


def design_check(scratch, tier):
    jobs = {}
    with cf.ThreadPoolExecutor(max_workers=8) as ex:
        for c in CODECS:
            jobs["mc-" + c] = ex.submit(C.tlc, scratch, "Framing_MC.tla", "Framing_MC_%s.cfg" % c, 5, None, 1500, None, None, "fmc-" + c)
        for n in NEGS:
            jobs["neg-" + n] = ex.submit(C.tlc, scratch, "Framing_MC.tla", "Framing_Neg_%s.cfg" % n, 2, None, 900, None, None, "fneg-" + n)
        res = {k: f.result() for k, f in jobs.items()}
    states = trans = 0
    for c in CODECS:
        r = res["mc-" + c]
        C.tlc_ok(r, "Framing_MC_" + c)
        if C.tlc_violated(r):
            raise C.Infra("Framing design check violated for %s:\n%s" % (c, r["out"][-2000:]))
        states += r["distinct"]
        trans += r["generated"]
    for n, inv in NEGS.items():
        v = C.tlc_violated(res["neg-" + n])
        if not v:
            raise C.Infra("vacuity guard Framing_Neg_%s found no violation" % n)
    return dict(states=states, transitions=trans, neg_guards=len(NEGS))


def gen_streams(scratch, tier, seed, path):
    rnd = random.Random(seed)
    out = []
    with cf.ThreadPoolExecutor(max_workers=3) as ex:
        futs = {c: ex.submit(C.tlc, scratch, "Framing_Gen.tla", "Framing_Gen_%s.cfg" % c, 1, None, 900, None, None, "fgen-" + c) for c in CODECS}
        for c, f in futs.items():
            r = f.result()
            ss = list(C.printed(r["out"], "STREAM"))
            if not ss:
                raise C.Infra("Framing_Gen produced no streams for " + c)
            if tier == "quick":
                small = [s for s in ss if len(s["frames"]) <= 1]
                rest = [s for s in ss if len(s["frames"]) > 1]
                ss = small + rnd.sample(rest, min(len(rest), 500))
            out += ss
    total = len(out)
    # the same streams under other limits (limit-1 / limit+1 around each size)
    extra = []
    for s in out:
        if rnd.random() < (0.3 if tier == "quick" else 1.0):
            for lim in ({1, 2, 4, 7} - {s["limit"]}):
                if rnd.random() < 0.5:
                    t = dict(s)
                    t["limit"] = lim
                    extra.append(t)
    out += extra
    with open(path, "w") as f:
        for s in out:
            f.write(json.dumps(s) + "\n")
    return out, total


def judge(prop, reps_failed, cache_lines, findings, seed, streams_of_case):
    viol, known = {}, collections.Counter()
    for sh, case, line, formula in reps_failed:
        if formula not in FORMULAS[prop]:
            continue
        lines = cache_lines(sh)
        ev = json.loads(lines[line - 1])
        k = line - 1
        while not lines[k].startswith('{"ev":"Stream"'):
            k -= 1
        se = json.loads(lines[k])
        enc_len = sum(len(f["pre"]) + len(f["body"]) for f in se["frames"])
        eof_with = any(r[1] == 1 and r[0] > 0 for r in ev.get("reads", []))
        sig = dict(module="Framing", formula=formula, codec=se["codec"], truncated=se["cut"] < enc_len,
                   res=ev.get("res"), data_with_eof=eof_with, carry=len(ev.get("carry", [])) > 0,
                   huge_prefix=any(len(f["pre"]) >= 5 for f in se["frames"]))
        kf = C.match_finding(findings, prop, sig)
        if kf:
            known[kf["id"]] += 1
            continue
        key = (formula, se["codec"], sig["truncated"], sig["res"], eof_with, sig["carry"])
        if key in viol:
            viol[key]["more"] += 1
            continue
        # gather the whole case for replay
        calls = []
        j = k + 1
        while j < len(lines) and lines[j].startswith('{"ev":"Call"'):
            calls.append(json.loads(lines[j]))
            j += 1
        viol[key] = dict(property=prop, formula=formula, seed=seed, stream=se, calls=calls, failing_call=ev,
                         signature=sig, more=0, replay_driver="framing",
                         case=dict(codec=se["codec"], limit=se["limit"], frames=se["frames"], cut=se["cut"]))
    return viol, known


def run(prop, tier, replay=None):
    t0 = time.time()
    seed = C.seed()
    scratch = C.Scratch(prop.lower())
    try:
        harness = C.build_harness(scratch)
        spath = scratch.path("streams.jsonl")
        if replay:
            rp = json.load(open(replay))
            seed = rp.get("seed", seed)
            open(spath, "w").write(json.dumps(rp["case"]) + "\n")
            design = dict(states=0, transitions=0, neg_guards=0)
            streams, total = [rp["case"]], 1
            exh, ns = 12, 40
        else:
            with cf.ThreadPoolExecutor(max_workers=2) as ex:
                fd = ex.submit(design_check, scratch, tier)
                fg = ex.submit(gen_streams, scratch, tier, seed, spath)
                design = fd.result()
                streams, total = fg.result()
            exh, ns = (6, 4) if tier == "quick" else (10, 30)
        trace = scratch.path("trace.ndjson")
        p, _ = C.run([harness, "framing", "-cases", spath, "-out", trace, "-seed", str(seed), "-exhaustive", str(exh), "-n", str(ns)], timeout=3000)
        if p.returncode != 0:
            raise C.Infra("framing driver failed:\n" + p.stdout[-3000:])
        shards = C.split_trace(trace, 16, scratch.path("shards"), lambda l: l.startswith('{"ev":"Stream"'))
        reps = C.validate_shards(scratch, "FramingTrace.tla", "FramingTrace.cfg", shards, timeout=3000)
        stat = collections.Counter()
        failed = []
        for r in reps:
            for k, v in r["stat"].items():
                stat[k] += v
            for f in r["failed"]:
                failed.append((r["_shard"], f[0], f[1], f[2]))
        cache = {}

        def cache_lines(sh):
            if sh not in cache:
                cache[sh] = open(sh).read().splitlines()
            return cache[sh]
        findings = C.load_findings()
        viol, known = judge(prop, failed, cache_lines, findings, seed, None)
        harness_bad = [f for f in failed if f[3] == "Harness"]
        if harness_bad:
            raise C.Infra("driver/trace bookkeeping mismatch (carry) at %s" % (harness_bad[0],))
        for fid, n in sorted(known.items()):
            f = next(x for x in findings if x["id"] == fid)
            print("KNOWN-FINDING: property=%s %s (%d observations this run)" % (prop, f["what"], n))
        for key, v in sorted(viol.items(), key=str):
            rp = C.write_replay(prop, "%s-%s-%s" % (key[0], key[1], abs(hash(key)) % 100000), v)
            fc = v["failing_call"]
            # (the rejected line may be a read call or another event of the stream's case, e.g. a write-side round trip)
            print("VIOLATION property=%s replay=%s  (%s: codec %s limit %d wire %d/%d bytes %s reads %s carry %d -> %s n=%s %s; +%d similar)" % (
                prop, rp, key[0], key[1], v["stream"]["limit"], v["stream"]["cut"],
                sum(len(f["pre"]) + len(f["body"]) for f in v["stream"]["frames"]), fc.get("ev", ""), fc.get("reads", [])[:6], len(fc.get("carry", [])),
                fc.get("res"), fc.get("n"), str(fc.get("err", ""))[:60], v["more"]))
        nviol = len(viol)
        samples = []
        with open(trace) as f:
            for i, line in enumerate(f):
                if i < 4:
                    samples.append(json.loads(line))
        cov = dict(states=design["states"], transitions=design["transitions"],
                   traces_validated_against_impl=stat["streams"],
                   evaluations=stat["calls"], distinct_nontrivial=stat["msgs"] + stat["errors"],
                   rule=("streams: every sequence of <=3 frames over sizes {0..4} (proto: canonical and non-minimal prefixes; json: objects with "
                         "braces/escaped quotes inside strings; body: raw), every truncation offset, several limits (%d streams from TLC, quick tier "
                         "samples the 2-3 frame ones) plus boundary streams (127/128-byte messages, 1..10-byte prefixes up to 2^64-1, sizes around "
                         "the limit); schedules: every composition of the wire into reads for wires <=%d bytes, each with and without (n, io.EOF) on "
                         "the last read, seeded samples beyond; carry-over arises from over-reads with varied spare capacity. Non-trivial = calls "
                         "that returned a message or an error.") % (total, exh),
                   samples=samples, exhaustive=False, reads=stat["reads"], truncated_streams=stat["truncated"],
                   calls_with_carry=stat["carried"], overlimit_or_malformed_calls=stat["overlimit"], panics=stat["panics"],
                   writenext_roundtrips=stat["writes"], neg_guards_violated=design.get("neg_guards"), known_findings=dict(known))
        C.write_evidence(prop, tier, "model_checking", cov,
                         ["StreamCodec contract as in codec.go and spec/FramingLib.tla: dst[:n] is the message, dst[n:] exactly the over-read bytes; "
                          "a stream that ends inside a message is an error; whitespace-only rest of a JSON stream is a clean end",
                          "the scripted io.Reader is trusted to deliver the wire in the logged chunks"],
                         time.time() - t0, nviol)
        print("%s %s: design states=%d, streams x schedules=%d, calls=%d, reads=%d, violations=%d (classes), known=%d, wall=%.0fs" % (
            prop, tier, design["states"], stat["streams"], stat["calls"], stat["reads"], nviol, sum(known.values()), time.time() - t0))
        return 1 if nviol else 0
    finally:
        scratch.cleanup()
