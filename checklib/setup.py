"""setup: parse every specification (tla-sany) and build the harness once (warms the Go build cache)."""
import os, shutil
from . import common as C


def run():
    sc = C.Scratch("setup")
    try:
        wd = sc.path("sany")
        shutil.copytree(C.SPEC, wd)
        bad = 0
        for f in sorted(os.listdir(wd)):
            if not f.endswith(".tla"):
                continue
            p, _ = C.run(["tla-sany", f], cwd=wd, timeout=120,
                         env=dict(os.environ, JAVA_TOOL_OPTIONS="-Djava.io.tmpdir=" + wd))
            if p.returncode != 0 or "*** Errors" in p.stdout or "Fatal errors" in p.stdout:
                print("SANY failed on", f)
                print(p.stdout[-1500:])
                bad += 1
        C.build_harness(sc)
        print("setup: specs parsed, harness built" if not bad else "setup: %d specs failed" % bad)
        return 0 if not bad else 2
    finally:
        sc.cleanup()
