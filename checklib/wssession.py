"""WebSocket sessions (C06 on the WebSocket transport, the close code of C05, the crash formula of C09).
WsSession.tla: the RFC 6455 receive machine as larking's streamWS shows it to a handler; design check over every
frame sequence up to MaxLen with two vacuity guards; WsSession_Gen prints the sessions; the `wssession` driver
writes each to a real loopback server in front of the mux; WsSessionTrace.tla folds the recorded frame sequence
through WsSession!Step and compares what the real handler and the real client saw."""
import json, collections
from . import common as C

FORMULAS = {
    "C06": ("WsRecvSeq", "WsEnd", "WsLatched", "WsEcho", "WsPong", "WsServerFrames"),
    "C05": ("WsClose",),
    "C09": ("Crash", "WsUpgrade"),
    # on a binding with a path variable the path sets its field on the first message of the session and on no other
    "C01": ("WsRecvSeq",),
    # a WEBSOCKET binding declared through the service configuration with a response_body: each frame is the selected field
    "C19": ("WsEcho",),
}
BIND_ONLY = {"C01": "pathvar", "C19": "respbody"}
BINDS = ["", "pathvar", "respbody"]
OPTSETS = [[], ["stats"], ["streamInt"], ["stats", "streamInt"]]


def design(scratch, tier):
    mc = C.tlc(scratch, "WsSession.tla", "WsSession_MC.cfg" if tier == "quick" else "WsSession_MCbig.cfg", workers=8, timeout=1500, tag="wsmc")
    C.tlc_ok(mc, "WsSession_MC")
    if C.tlc_violated(mc):
        raise C.Infra("WsSession design check violated:\n" + mc["out"][-2000:])
    for neg in ("WsSession_Neg_ContAlone.cfg", "WsSession_Neg_Unlatched.cfg"):
        r = C.tlc(scratch, "WsSession.tla", neg, workers=2, timeout=600, tag="wsneg-" + neg[14:-4])
        if not C.tlc_violated(r):
            raise C.Infra("vacuity guard %s was not violated" % neg)
    return dict(states=mc["distinct"], transitions=mc["generated"])


def violations(prop, tier, scratch, harness, seed, replay_cases=None):
    """returns (dict key -> violation record, stat Counter, design dict)"""
    only = BIND_ONLY.get(prop)
    if replay_cases is not None:
        cases = [dict(c, id=i + 1) for i, c in enumerate(replay_cases)]
        des = dict(states=0, transitions=0)
    else:
        des = design(scratch, tier) if only is None else dict(states=0, transitions=0)
        g = C.tlc(scratch, "WsSession_Gen.tla", "WsSession_Gen.cfg" if tier == "quick" else "WsSession_GenBig.cfg", workers=1, timeout=1500, tag="wsgen")
        raw = list(C.printed(g["out"], "CASE"))
        if len(raw) < 1000:
            raise C.Infra("WsSession_Gen produced too few sessions:\n" + g["out"][-1500:])
        raw.sort(key=lambda c: (len(c["frames"]), c["frames"]))
        cases = []
        for i, c in enumerate(raw):
            fr = c["frames"] if isinstance(c["frames"], list) else []     # ToJson prints the empty sequence as []
            cases.append(dict(id=i + 1, frames=fr, opts=OPTSETS[(i + seed) % 4] if (i + seed) % 3 == 0 else [],
                              bind=only if only is not None else BINDS[(i // 3 + seed) % 3]))
        if only is not None:    # the sessions that deliver at least two messages are the ones that matter here: a sample of the rest
            cases = [c for k, c in enumerate(cases) if sum(1 for f in c["frames"] if f in ("T", "B", "Ce")) >= 2 or k % 10 == 0]
            cases = [dict(c, id=i + 1) for i, c in enumerate(cases)]
    cpath, trace = scratch.path("ws-cases.jsonl"), scratch.path("ws-trace.ndjson")
    with open(cpath, "w") as f:
        for c in cases:
            f.write(json.dumps(c) + "\n")
    p, _ = C.run([harness, "wssession", "-cases", cpath, "-out", trace, "-seed", str(seed), "-workers", "16"], timeout=3000)
    if p.returncode != 0:
        raise C.Infra("wssession driver failed:\n" + p.stdout[-3000:])
    shards = C.split_trace(trace, 8, scratch.path("ws-shards"), lambda l: True)
    reps = C.validate_shards(scratch, "WsSessionTrace.tla", "WsSessionTrace.cfg", shards, timeout=3000)
    stat = collections.Counter()
    viol = {}
    cache = {}
    by_id = {c["id"]: c for c in cases}
    for r in reps:
        for k, v in r["stat"].items():
            stat[k] += v
        for case, line, formula in r["failed"]:
            sh = r["_shard"]
            if sh not in cache:
                cache[sh] = open(sh).read().splitlines()
            ev = json.loads(cache[sh][line - 1])
            if ev["crash"].startswith("infra:"):
                raise C.Infra("wssession driver: " + ev["crash"])
            if formula not in FORMULAS[prop]:
                continue
            # class of the session: which kinds of frames it holds (not their number), and the option subset
            kinds = tuple(sorted(set(ev["frames"])))
            key = (formula, kinds if len(kinds) <= 3 else kinds[:3] + ("...",), tuple(ev["opts"]) + ((ev.get("bind"),) if ev.get("bind") else ()))
            if key in viol:
                viol[key]["more"] += 1
                if len(ev["frames"]) < len(viol[key]["cases"][0]["frames"]):
                    viol[key]["cases"], viol[key]["observed"] = [by_id[case]], ev
                continue
            viol[key] = dict(property=prop, formula=formula, seed=seed, cases=[by_id[case]], observed=ev, more=0, replay_driver="wssession",
                             signature=dict(module="WsSession", formula=formula, proto="ws", frames=ev["frames"], opts=ev["opts"], bind=ev.get("bind", "")))
    for v in viol.values():
        ev = v["observed"]
        v["what"] = "%s: binding %r frames %s opts %s -> handler saw %s latched=%s, server wrote %s (read ended: %s) %s" % (
            v["formula"], ev.get("bind", ""), ev["frames"], ev["opts"], [(r["k"], r["id"], r["same"]) if r["k"] == "msg" else r["k"] for r in ev["recv"]], ev["latched"],
            [(s["k"], s["id"] or s["code"]) for s in ev["srv"]][:8], ev["readend"], ev["crash"][:80])
    return viol, stat, des
