"""C11 (and the deterministic half of C12): Registry.tla fine-grained design check with its three negative
configurations; every history TLC enumerates from Registry_Hist.tla replayed on a real Mux with tagged
bufconn backends discovered through server reflection; validated by TLC against RegistryTrace.tla."""
import json, os, time, random, collections, concurrent.futures as cf
from . import common as C

FORMULAS = {
    "C11": ["SafeOps", "OpResult", "DispatchLive", "DispatchMethod", "NoFalseUnimplemented", "NoneIsUnimplemented", "NoOpChanged", "Panic"],
    "C12": ["PublishedImmutable", "FailedRegNoChange", "AtomicInterval", "KeepServing", "RemovedTogether"],
}
NEGS = {"Shallow": "PublishedImmutable", "TwoLoads": "NoTornAnswer", "PerMethod": "AtomicVisibility"}


def design_check(scratch, tier):
    jobs = {}
    with cf.ThreadPoolExecutor(max_workers=4) as ex:
        jobs["mc"] = ex.submit(C.tlc, scratch, "Registry_MC.tla", "Registry_MC.cfg", 10, None, 2400, None, None, "rgmc")
        for n in NEGS:
            jobs[n] = ex.submit(C.tlc, scratch, "Registry_MC.tla", "Registry_Neg_%s.cfg" % n, 2, None, 1200, None, None, "rgneg" + n)
        # the trie's bindings per method (implicit, primary, additional) under register / drop
        jobs["rb"] = ex.submit(C.tlc, scratch, "RegBindings_MC.tla", "RegBindings_MC.cfg", 2, None, 600, None, None, "rbmc")
        jobs["rbneg"] = ex.submit(C.tlc, scratch, "RegBindings_MC.tla", "RegBindings_Neg_DelOne.cfg", 2, None, 600, None, None, "rbneg")
        res = {k: f.result() for k, f in jobs.items()}
    C.tlc_ok(res["mc"], "Registry_MC")
    if C.tlc_violated(res["mc"]):
        raise C.Infra("Registry design check violated:\n" + res["mc"]["out"][-2000:])
    C.tlc_ok(res["rb"], "RegBindings_MC")
    if C.tlc_violated(res["rb"]):
        raise C.Infra("RegBindings design check violated:\n" + res["rb"]["out"][-2000:])
    v = C.tlc_violated(res["rbneg"])
    if not v or "Reachable" not in v:
        raise C.Infra("vacuity guard RegBindings_Neg_DelOne did not violate Reachable (%s)" % (v,))
    for n, inv in NEGS.items():
        v = C.tlc_violated(res[n])
        if not v or inv not in v:
            raise C.Infra("vacuity guard Registry_Neg_%s did not violate %s (%s)" % (n, inv, v))
    return dict(states=res["mc"]["distinct"] + res["rb"]["distinct"], transitions=res["mc"]["generated"] + res["rb"]["generated"], neg_guards=len(NEGS) + 1)


def gen_hists(scratch, tier, seed):
    rnd = random.Random(seed)
    out = []
    cfgs = ["Registry_Hist.cfg", "Registry_Hist4.cfg"] if tier == "quick" else ["Registry_Hist.cfg", "Registry_Hist4.cfg", "Registry_Hist5.cfg"]
    for cfg in cfgs:
        r = C.tlc(scratch, "Registry_Hist.tla", cfg, workers=1, timeout=1200, tag="rh-" + cfg)
        C.tlc_ok(r, cfg)
        hs = list(C.printed(r["out"], "HIST"))
        if not hs:
            raise C.Infra("no histories from " + cfg)
        if tier == "quick" and cfg == "Registry_Hist4.cfg":
            hs = rnd.sample(hs, 500)
        if cfg == "Registry_Hist5.cfg":
            hs = rnd.sample(hs, min(len(hs), 6000))
        out += hs
    for i, h in enumerate(out):
        h["id"] = i + 1
    return out


def run_histories(prop, tier, scratch, harness, seed, replay_cases=None):
    hpath = scratch.path("hists.jsonl")
    hists = replay_cases if replay_cases is not None else gen_hists(scratch, tier, seed)
    with open(hpath, "w") as f:
        for h in hists:
            f.write(json.dumps(h) + "\n")
    trace = scratch.path("regtrace.ndjson")
    p, _ = C.run([harness, "registry", "-cases", hpath, "-out", trace, "-seed", str(seed), "-tries", "24" if tier == "quick" else "40"], timeout=3000)
    if p.returncode != 0:
        raise C.Infra("registry driver failed:\n" + p.stdout[-3000:])
    shards = C.split_trace(trace, 16, scratch.path("regshards"), lambda l: l.startswith('{"case"') and '"ev":"Hist"' in l)
    reps = C.validate_shards(scratch, "RegistryTrace.tla", "RegistryTrace.cfg", shards, timeout=3000)
    stat = collections.Counter()
    failed = []
    for r in reps:
        for k, v in r["stat"].items():
            stat[k] += v
        for f in r["failed"]:
            failed.append((r["_shard"], f[0], f[1], f[2]))
    return hists, stat, failed, trace


def judge(prop, failed, hists, seed):
    by_id = {h["id"]: h for h in hists}
    findings = C.load_findings()
    cache, viol, known = {}, {}, collections.Counter()
    for sh, case, line, formula in failed:
        if formula not in FORMULAS[prop] and not (prop == "C12" and formula == "SafeOps"):
            continue
        if sh not in cache:
            cache[sh] = open(sh).read().splitlines()
        lines = cache[sh]
        ev = json.loads(lines[line - 1])
        if prop == "C12" and formula == "SafeOps":
            # a registration call that never returns (a lock left behind by an earlier call): registration has stopped
            # working while serving goes on - C12's business; other crashes of an operation are C11's
            if not str(ev.get("crash", "")).startswith("hang"):
                continue
            formula = "OpsComplete"
        k = line - 1
        ops = []
        while '"ev":"Hist"' not in lines[k]:
            e = json.loads(lines[k])
            if e["ev"] == "Op":
                ops.append(e["op"] + ("(" + e["b"] + ")" if e["b"] else ""))
            k -= 1
        ops.reverse()
        sig = dict(module="Registry", formula=formula, last_op=(ops[-1].split("(")[0] if ops else ""), ev=ev["ev"],
                   m=ev.get("m"), proto=ev.get("proto"))
        kf = C.match_finding(findings, prop, sig)
        if kf:
            known[kf["id"]] += 1
            continue
        key = (formula, sig["last_op"], ev.get("m"), ev.get("proto"))
        if key in viol:
            viol[key]["more"] += 1
            continue
        viol[key] = dict(property=prop, formula=formula, seed=seed, cases=[by_id.get(case)], history_so_far=ops, observed=ev,
                         signature=sig, more=0, replay_driver="registry")
    return viol, known


def method_dispatch_violations(prop, scratch, harness, seed, replay_cases=None):
    """C01 across registration histories: after RegisterConn / DropConn / re-registration a request still reaches the
    handler of the method that owns the matching rule (formula DispatchMethod of RegistryTrace.tla), over every binding
    of every method.  Histories: all of length 3."""
    if replay_cases is None:
        r = C.tlc(scratch, "Registry_Hist.tla", "Registry_Hist.cfg", workers=1, timeout=1200, tag="rh-c01")
        C.tlc_ok(r, "Registry_Hist.cfg")
        replay_cases = list(C.printed(r["out"], "HIST"))
        for i, h in enumerate(replay_cases):
            h["id"] = i + 1
    hists, stat, failed, _ = run_histories(prop, "quick", scratch, harness, seed, replay_cases)
    by_id = {h["id"]: h for h in hists}
    cache, out = {}, {}
    for sh, case, line, formula in failed:
        if formula != "DispatchMethod":
            continue
        if sh not in cache:
            cache[sh] = open(sh).read().splitlines()
        ev = json.loads(cache[sh][line - 1])
        key = ("DispatchMethod", ev.get("m"), ev.get("proto"))
        if key in out:
            out[key]["more"] += 1
            continue
        out[key] = dict(property=prop, formula="DispatchMethod", seed=seed, cases=[by_id.get(case)], observed=ev, more=0, replay_driver="registry",
                        signature=dict(module="Registry", formula="DispatchMethod", m=ev.get("m")),
                        what="DispatchMethod: after %s a request for %s (%s binding) was answered by the handler of %s" % (
                            [o["op"] + "(" + o["b"] + ")" for o in by_id.get(case, {}).get("ops", [])], ev.get("m"), ev.get("proto"),
                            sorted(set(o.get("meth", "") for o in ev["outs"] if o["k"] == "served"))))
    return out, stat["requests"]


REV_FORMULAS = {"C11": ("SafeOps", "OpResult", "NoFalseUnimplemented", "DispatchLive", "NoneIsUnimplemented"), "C01": ("DispatchLive",),
                # C12: the state a replacing registration publishes is one revision's, not a mixture of two
                "C12": ("DispatchLive", "NoFalseUnimplemented")}


def rev_violations(prop, tier, scratch, harness, seed, replay_cases=None):
    """RegRev.tla: a connection whose backend changes the revision of the service it announces between registrations;
    every history of {register, drop, bump} up to length 5 (thorough: 6), every binding of both revisions probed after
    every step, folded and judged by RegRevTrace.tla."""
    if replay_cases is None:
        mc = C.tlc(scratch, "RegRev.tla", "RegRev_MC.cfg", workers=2, timeout=600, tag="revmc")
        C.tlc_ok(mc, "RegRev_MC")
        if C.tlc_violated(mc):
            raise C.Infra("RegRev design check violated:\n" + mc["out"][-2000:])
        neg = C.tlc(scratch, "RegRev.tla", "RegRev_Neg_DelOne.cfg", workers=2, timeout=600, tag="revneg")
        if not C.tlc_violated(neg):
            raise C.Infra("vacuity guard RegRev_Neg_DelOne was not violated")
        g = C.tlc(scratch, "RegRev_Gen.tla", "RegRev_Gen.cfg", workers=1, timeout=600, tag="revgen")
        hists = list(C.printed(g["out"], "HIST"))
        if len(hists) < 300:
            raise C.Infra("RegRev_Gen produced too few histories:\n" + g["out"][-1500:])
    else:
        hists = replay_cases
    hists = [dict(h, id=i + 1) for i, h in enumerate(hists)]
    hp, tr = scratch.path("revhists.jsonl"), scratch.path("revtrace.ndjson")
    with open(hp, "w") as f:
        for h in hists:
            f.write(json.dumps(h) + "\n")
    p, _ = C.run([harness, "regrev", "-cases", hp, "-out", tr], timeout=1800)
    if p.returncode != 0:
        raise C.Infra("regrev driver failed:\n" + p.stdout[-3000:])
    n = sum(1 for _ in open(tr))
    rep = C.validate_shards(scratch, "RegRevTrace.tla", "RegRevTrace.cfg", [(tr, n)], timeout=1800)[0]
    lines = open(tr).read().splitlines()
    by_id = {h["id"]: h for h in hists}
    out = {}
    for case, line, formula in rep["failed"]:
        if formula not in REV_FORMULAS[prop]:
            continue
        ev = json.loads(lines[line - 1])
        key = (formula, "regrev", tuple(ev["ops"][-2:]))
        if key in out:
            out[key]["more"] += 1
            continue
        out[key] = dict(property=prop, formula=formula, seed=seed, cases=[by_id[case]], history_so_far=ev["ops"], observed=ev, more=0, replay_driver="regrev",
                        signature=dict(module="RegRev", formula=formula, last_op=ev["ops"][-1]),
                        what="%s after %s (the backend changes the announced revision at 'bump'): %s %s" % (
                            formula, ev["ops"], [(q["bind"], q["k"], q["by"]) for q in ev["probes"]], ev["crash"][:100]))
    return out, rep["stat"]


def run(prop, tier, replay=None):
    t0 = time.time()
    seed = C.seed()
    scratch = C.Scratch(prop.lower())
    try:
        harness = C.build_harness(scratch)
        if replay and json.load(open(replay)).get("replay_driver") == "regrev":
            rp = json.load(open(replay))
            rv, rstat = rev_violations(prop, tier, scratch, harness, seed, rp["cases"])
            for key, v in sorted(rv.items(), key=str):
                print("VIOLATION property=%s replay=%s  (%s; +%d similar)" % (prop, C.write_replay(prop, "RegRev-%d" % (abs(hash(str(key))) % 100000), v), v["what"][:400], v["more"]))
            print("%s replay: revision histories=1, violations=%d" % (prop, len(rv)))
            return 1 if rv else 0
        if replay:
            rp = json.load(open(replay))
            design = dict(states=0, transitions=0, neg_guards=0)
            hists, stat, failed, trace = run_histories(prop, tier, scratch, harness, seed, rp["cases"])
        else:
            with cf.ThreadPoolExecutor(max_workers=2) as ex:
                fd = ex.submit(design_check, scratch, tier)
                fh = ex.submit(run_histories, prop, tier, scratch, harness, seed)
                design = fd.result()
                hists, stat, failed, trace = fh.result()
        viol, known = judge(prop, failed, hists, seed)
        rev_steps = 0
        if prop in ("C11", "C12") and not replay:
            rv, rstat = rev_violations(prop, tier, scratch, harness, seed)
            rev_steps = rstat["steps"]
            for key, v in rv.items():
                v["observed"] = dict(v["observed"], probes=v["observed"]["probes"][:6])
                viol[key] = v
        sstat = collections.Counter()
        if prop == "C12" and not replay:
            # concurrent part: seeded stress under the race detector, interval-validated by RegStressTrace.tla
            race = C.build_harness(scratch, race=True)
            nseeds, dur = (2, "3s") if tier == "quick" else (8, "20s")
            # calibration: how a state without a backend answers, per protocol, in the sequential histories of this run
            refuse = collections.defaultdict(set)
            with open(trace) as tf:
                for line in tf:
                    if line.startswith('{"ev":"Probe"'):
                        pe = json.loads(line)
                        for o in pe["outs"]:
                            if o["k"] in ("notfound", "unimplemented"):
                                refuse[pe["proto"]].add(o["k"])
            calib = json.dumps(dict(ev="Calib", refuse={p: sorted(v) for p, v in refuse.items()}))
            for k in range(nseeds):
                st = scratch.path("stress%d.ndjson" % k)
                p, _ = C.run([race, "regstress", "-out", st, "-seed", str(seed * 100 + k), "-dur", dur, "-maxreq", "30000"], timeout=1200,
                             env=dict(os.environ, GORACE="halt_on_error=0"))
                if "WARNING: DATA RACE" in p.stdout:
                    rp_path = C.write_replay(prop, "DataRace-seed%d" % (seed * 100 + k), dict(property=prop, formula="DataRace", seed=seed * 100 + k, report=p.stdout[-8000:]))
                    viol[("DataRace", k)] = dict(property=prop, formula="DataRace", history_so_far=["stress seed %d" % (seed * 100 + k)], observed=dict(race=p.stdout[:600]), more=0,
                                                 signature=dict(module="Registry", formula="DataRace"), cases=[], seed=seed, replay_driver="regstress")
                if p.returncode != 0 and "WARNING: DATA RACE" not in p.stdout:
                    raise C.Infra("regstress driver failed:\n" + p.stdout[-3000:])
                body = open(st).read()
                with open(st, "w") as sf:
                    sf.write(calib + "\n" + body)
                res = C.tlc(scratch, "RegStressTrace.tla", "RegStressTrace.cfg", workers=1, env_extra={"TRACE": st}, timeout=1800, tag="stress%d" % k, heap="4g")
                reps = list(C.printed(res["out"], "REPORT"))
                nlines = sum(1 for _ in open(st))
                if not reps or reps[-1]["consumed"] != nlines:
                    raise C.Infra("stress trace not fully validated:\n" + res["out"][-2000:])
                for kk, v in reps[-1]["stat"].items():
                    sstat[kk] += v
                lines = open(st).read().splitlines()
                for f in reps[-1]["failed"]:
                    ev = json.loads(lines[f[1] - 1])
                    key = (f[2], ev.get("m"), ev.get("k"))
                    if key in viol:
                        viol[key]["more"] += 1
                        continue
                    # the operations whose interval overlaps the request
                    near = [json.loads(x) for x in lines if x.startswith('{"ev":"RegOp"')]
                    near = [o for o in near if o["e"] >= ev.get("s", 0) - 50 and o["s"] <= ev.get("e", 0) + 50][:8]
                    viol[key] = dict(property=prop, formula=f[2], seed=seed * 100 + k, history_so_far=[o["op"] + "(" + o["b"] + ")" for o in near],
                                     observed=ev, overlapping_ops=near, more=0, signature=dict(module="Registry", formula=f[2]), cases=[],
                                     replay_driver="regstress")
        findings = C.load_findings()
        for fid, n in sorted(known.items()):
            f = next(x for x in findings if x["id"] == fid)
            print("KNOWN-FINDING: property=%s %s (%d observations this run)" % (prop, f["what"], n))
        for i, (key, v) in enumerate(sorted(viol.items(), key=str)):
            if i >= 30:
                break
            rp = C.write_replay(prop, "%s-%d" % (key[0], abs(hash(str(key))) % 100000), v)
            print("VIOLATION property=%s replay=%s  (%s after %s: %s; +%d similar)" % (prop, rp, key[0], v["history_so_far"], json.dumps(v["observed"])[:300], v["more"]))
        nviol = len(viol)
        samples = [dict(ops=[o["op"] + "(" + o["b"] + ")" for o in h["ops"]]) for h in hists[:4]]
        cov = dict(states=design["states"], transitions=design["transitions"], traces_validated_against_impl=stat["hists"],
                   evaluations=stat["requests"], distinct_nontrivial=stat["served"],
                   rule=("histories: every sequence of {RegisterService(local), RegisterConn(c1|c2), re-register unchanged, DropConn(c1|c2), drop "
                         "unknown, failing registration} of length 3 (all 324) and length 4 (2,160; quick tier samples 500, thorough adds sampled "
                         "length 5) enumerated by TLC; after every step each of 4 methods is requested 24-40 times over its HTTP rule, each of its "
                         "additional bindings (0-2), its implicit path and gRPC framing; local and c1 both serve service A, c2 serves A and B (B.m2's route "
                         "lies below A.m1's). RegBindings.tla models the bindings per method under register/drop ('leftover' counts probes "
                         "answered Unimplemented by a route that outlived its backends - allowed, informational). Non-trivial = probe sets at states where "
                         "the method has at least one live backend."),
                   samples=samples, exhaustive=(tier != "quick"), neg_guards_violated=design.get("neg_guards"),
                   **{k: v for k, v in stat.items() if k != "hists"}, known_findings=dict(known),
                   stress_ops=sstat["ops"], stress_requests=sstat["reqs"], stress_requests_overlapping_an_operation=sstat["overlapping"],
                   stress_under_race_detector=(prop == "C12"), revision_history_steps=rev_steps)
        C.write_evidence(prop, tier, "model_checking", cov,
                         ["backends are in-process grpc-go servers on bufconn with the standard reflection service; grpc-go is trusted",
                          "the handler pick is random: 24-40 requests per probe make missing a live backend's misbehaviour unlikely, not impossible"],
                         time.time() - t0, nviol)
        print("%s %s: design states=%d, histories=%d, ops=%d, requests=%d, stress ops=%d reqs=%d (overlapping %d), violations=%d (classes), known=%d, wall=%.0fs" % (
            prop, tier, design["states"], stat["hists"], stat["ops"], stat["requests"], sstat["ops"], sstat["reqs"], sstat["overlapping"], nviol, sum(known.values()), time.time() - t0))
        return 1 if nviol else 0
    finally:
        scratch.cleanup()
