"""C10: Proxy.tla (client / front with two pumps / scripted backend over FIFO channels with half-close) model-checked
by TLC for all scripts incl. deadlock-freedom, with negative configs; every script executed by a real grpc-go client
directly and through larking (RegisterConn over bufconn, front on a loopback h2c listener); validated by TLC against
ProxyTrace.tla."""
import json, os, time, random, collections, concurrent.futures as cf
from . import common as C

FORMULAS = ["TranscriptEquivalence", "BackendSaw", "RequestMetadata", "TranscriptEquivalenceHTTP", "BackendSawHTTP", "RequestMetadataHTTP"]


def design_check(scratch, tier="quick"):
    jobs = {}
    with cf.ThreadPoolExecutor(max_workers=4) as ex:
        if tier != "quick":
            jobs["Proxy_MCbig"] = ex.submit(C.tlc, scratch, "Proxy_MC.tla", "Proxy_MCbig.cfg", 4, None, 3000, None, None, "Proxy_MCbig")
            jobs["Proxy_MCpinnedbig"] = ex.submit(C.tlc, scratch, "Proxy_MC.tla", "Proxy_MCpinnedbig.cfg", 4, None, 3000, None, None, "Proxy_MCpinnedbig")
        for n in ["Proxy_MC", "Proxy_MCpinned", "Proxy_Direct", "Proxy_Neg_NoHalfClose", "Proxy_Neg_FirstMessage", "Proxy_Neg_JoinBeforeError", "Proxy_Neg_FirstSendEOF"]:
            jobs[n] = ex.submit(C.tlc, scratch, "Proxy_MC.tla", n + ".cfg", 2, None, 900, None, None, n)
        res = {k: f.result() for k, f in jobs.items()}
    states = trans = 0
    for n in ["Proxy_MC", "Proxy_MCpinned", "Proxy_Direct"] + (["Proxy_MCbig", "Proxy_MCpinnedbig"] if tier != "quick" else []):
        C.tlc_ok(res[n], n)
        if C.tlc_violated(res[n]):
            raise C.Infra("%s violated:\n%s" % (n, res[n]["out"][-2000:]))
        states += res[n]["distinct"]
        trans += res[n]["generated"]
    for n in ["Proxy_Neg_NoHalfClose", "Proxy_Neg_FirstMessage", "Proxy_Neg_JoinBeforeError", "Proxy_Neg_FirstSendEOF"]:
        if not C.tlc_violated(res[n]):
            raise C.Infra("vacuity guard %s found no violation" % n)
    return dict(states=states, transitions=trans, neg_guards=4)


def build_cases(scratch, rnd, tier):
    """TLC-generated scripts concretised on every method shape that carries them."""
    g = C.tlc(scratch, "Proxy_MC.tla", "Proxy_Gen.cfg", workers=1, timeout=600, tag="pgen")
    seen, scripts = set(), []
    for s in C.printed(g["out"], "SCRIPT"):
        k = json.dumps(s, sort_keys=True)
        if k not in seen:
            seen.add(k)
            scripts.append(s)
    if not scripts:
        raise C.Infra("Proxy_Gen produced no scripts:\n" + g["out"][-1500:])
    cases = []
    for s in scripts:
        if s["mode"] == "lockstep":
            # ping-pong on bidi; the codes a context error would carry are always among those tried
            for code in ([0] if s["failK"] == 0 else ([1, 4, rnd.choice([2, 3, 5, 7, 8, 9, 10, 11, 13, 14, 15, 16])] if tier == "quick" else list(range(1, 17)))):
                c = dict(s)
                c.update(shape="bidi", code=code, det=rnd.choice([0, 1, 2]), wait=False)
                cases.append(c)
            continue
        for shape in ["unary", "cstream", "sstream", "bidi"]:
            cs = shape in ("cstream", "bidi")
            ss = shape in ("sstream", "bidi")
            if not cs and s["n"] != 1:
                continue
            if not cs and s["readN"] == 0:
                continue            # generated code reads the single request before the handler runs
            if not ss and s["replyJ"] != 1:
                continue            # exactly one reply
            if shape == "unary" and s["failAt"] not in ("never", "before"):
                continue
            if shape == "unary" and s["readN"] != 1:
                continue
            # a failing script is run with the two codes a context error would carry (Canceled, DeadlineExceeded)
            # and with seeded others; a succeeding one once
            codes = [0] if s["failAt"] == "never" else ([1, 4, rnd.choice([2, 3, 5, 6, 7, 8, 9, 10, 11, 12, 13, 14, 15, 16])] if tier == "quick" else list(range(1, 17)))
            for code in codes:
                c = dict(s)
                c.update(shape=shape, code=code, det=rnd.choice([0, 1, 2]), wait=False)
                cases.append(c)
            if shape == "bidi" and s["readN"] == 0 and s["replyJ"] >= 1 and s["failAt"] != "before":
                c = dict(s)
                c.update(shape=shape, code=5, det=0, wait=True)   # the backend speaks first, the client waits for it
                cases.append(c)
    # schedule: the backend has ended the stream before the front forwards the first message (Proxy.tla FSendFirst
    # with bpc = "done") - possible whenever the script lets the backend finish without reading
    slow = []
    for c in cases:
        if c["mode"] == "batch" and c["shape"] in ("cstream", "bidi") and c["n"] >= 1 and not c["wait"] and \
                (c["failAt"] == "before" or (c["readN"] == 0 and c["failAt"] != "afterEOF")):
            d = dict(c)
            d["slowopen"] = True
            slow.append(d)
    cases += slow
    for c in cases:
        c.update(gzip=False, rsize=0, qsize=0, qat=0)
        c.setdefault("slowopen", False)
        # the failing status's text: mostly the awkward one; every status shape (with / without details) also without any
        # message and with a plain one
        c["msg"] = ""
        if c["failAt"] != "never" or c["failK"] != 0:
            c["msg"] = rnd.choice(["", "", "empty", "ascii"])
    extra = []
    for shape in ("unary", "sstream", "cstream", "bidi"):
        for det in (0, 1, 2):
            for msg in ("empty", "ascii"):
                for fail_at, n, rj in (("before", 1, 1), ("afterReplies", 1, 1)):
                    if shape == "unary" and fail_at != "before":
                        continue
                    extra.append(dict(n=n, readN=(1 if shape in ("unary", "sstream") else 99), replyJ=rj, failAt=fail_at, mode="batch", failK=0, shape=shape,
                                      code=rnd.choice([3, 5, 9, 13]), det=det, wait=False, gzip=False, rsize=0, qsize=0, qat=0, slowopen=False, msg=msg))
    cases += extra
    # a compressing client: replies of every small size (the gzip form of a short or random message is larger than the
    # message, so buffers regrow), unary and streamed
    sizes = list(range(1, 140, 3)) + [250, 255, 256, 257, 500, 510, 1000, 1020, 4090]
    for rs in (sizes if tier != "quick" else rnd.sample(sizes, 16) + [31, 45, 59, 100, 120]):
        for shape, n, rj in (("unary", 1, 1), ("sstream", 1, 3), ("bidi", 2, 2)):
            cases.append(dict(n=n, readN=99, replyJ=rj, failAt="never", mode="batch", failK=0, shape=shape, code=0, det=0, wait=False,
                              gzip=True, rsize=rs, qsize=0, qat=0, slowopen=False, msg=""))
    # a request of exactly the default receive limit (4 MiB), and one byte less: first and second message
    for qs in (4194303, 4194304):
        for shape, n, qat in (("unary", 1, 1), ("cstream", 1, 1), ("cstream", 3, 2)):
            cases.append(dict(n=n, readN=99, replyJ=1, failAt="never", mode="batch", failK=0, shape=shape, code=0, det=0, wait=False,
                              gzip=False, rsize=0, qsize=qs, qat=qat, slowopen=False, msg=""))
    for i, c in enumerate(cases):
        c["id"] = i + 1
    return cases


def intercept_violations(prop, tier, scratch, harness, seed):
    """C18 on the proxy path: the scripts of Proxy.tla through a front with interceptors installed; only the
    InterceptProxied formulas are judged here (the transcripts are C10's business)."""
    rnd = random.Random(seed + 18)
    cases = build_cases(scratch, rnd, tier)
    cpath, trace = scratch.path("pcases.jsonl"), scratch.path("ptrace.ndjson")
    with open(cpath, "w") as f:
        for c in cases:
            f.write(json.dumps(c) + "\n")
    p, _ = C.run([harness, "proxy", "-cases", cpath, "-out", trace, "-seed", str(seed)], timeout=3000)
    if p.returncode != 0:
        raise C.Infra("proxy driver failed:\n" + p.stdout[-3000:])
    n = sum(1 for _ in open(trace))
    rep = C.validate_shards(scratch, "ProxyTrace.tla", "ProxyTrace.cfg", [(trace, n)], timeout=1800)[0]
    lines = open(trace).read().splitlines()
    by_id = {c["id"]: c for c in cases}
    out = {}
    for case, line, formula in rep["failed"]:
        if formula == "DirectModel":
            raise C.Infra("a direct call did not behave as the model of the backend/grpc-go says: %s" % lines[line - 1][:600])
        if not formula.startswith("InterceptProxied"):
            continue
        ev = json.loads(lines[line - 1])
        s = ev["s"]
        v = ev["http"] if formula.endswith("HTTP") else ev["proxied"]
        key = (formula, s["shape"], s["mode"])
        if key in out:
            out[key]["more"] += 1
            continue
        out[key] = dict(property=prop, formula=formula, seed=seed, cases=[by_id[case]], observed=ev, more=0, replay_driver="proxy",
                        signature=dict(module="Proxy", formula=formula, shape=s["shape"]),
                        what="%s: proxied %s %s n=%d -> interceptor calls=%d saw recv=%d send=%d; backend got %s, client replies %s" % (
                            formula, s["shape"], s["mode"], s["n"], v["icalls"], v["irecv"], v["isend"], v["bgot"], v["replies"]))
    return out, rep["stat"].get("calls", 0)


def status_violations(prop, tier, scratch, harness, seed):
    """C05 on the proxy path: the handler that returns the status is a backend behind RegisterConn; the client of the
    front (gRPC and HTTP/JSON) must see the same code, message and details as a direct client."""
    rnd = random.Random(seed + 5)
    cases = [c for c in build_cases(scratch, rnd, tier) if not c["wait"] and (c["failAt"] != "never" or c["failK"] != 0)]
    cpath, trace = scratch.path("scases.jsonl"), scratch.path("strace.ndjson")
    with open(cpath, "w") as f:
        for c in cases:
            f.write(json.dumps(c) + "\n")
    p, _ = C.run([harness, "proxy", "-cases", cpath, "-out", trace, "-seed", str(seed)], timeout=3000)
    if p.returncode != 0:
        raise C.Infra("proxy driver failed:\n" + p.stdout[-3000:])
    by_id = {c["id"]: c for c in cases}
    out = {}
    n = 0
    for line in open(trace):
        ev = json.loads(line)
        n += 1
        s, d = ev["s"], ev["direct"]
        if ev["crash"] or d["hang"] or d["bcalls"] != 1:
            continue
        for front, v in (("grpc", ev["proxied"]), ("http", ev["http"] if ev["hashttp"] else None)):
            if v is None or v["bcalls"] != 1:
                continue      # (zero-message scripts never reach the backend through the front: C10's known finding)
            # (a backend that has returned its status and a client that never gets it: the status is lost altogether)
            if v["hang"] or (v["code"], v["msgequal"], v["detequal"]) != (d["code"], d["msgequal"], d["detequal"]):
                key = ("StatusFidelityProxied", front, s["shape"], d["code"] == 1, v["hang"])
                if key in out:
                    out[key]["more"] += 1
                    continue
                out[key] = dict(property=prop, formula="StatusFidelity", seed=seed, cases=[by_id[s["id"]]], observed=ev, more=0, replay_driver="proxy",
                                signature=dict(module="Proxy", formula="StatusFidelityProxied", shape=s["shape"], front=front),
                                what="StatusFidelity on the proxy path: %s %s backend ends with code %d (%s): direct client sees code %d message-equal %s details-equal %s, %s front %s" % (
                                    s["shape"], s["mode"], s["code"], s["failAt"], d["code"], d["msgequal"], d["detequal"], front,
                                    "never gets a status (gave up after 4 s)" if v["hang"] else "sees code %d message-equal %s details-equal %s" % (v["code"], v["msgequal"], v["detequal"])))
    return out, n


def hang_violations(prop, tier, scratch, harness, seed, only_cases=None):
    """C09 on the proxy path: a call that finishes when made directly must finish through larking too (gRPC and HTTP
    fronts), and nothing may crash.  Scripts whose client waits for the backend's first word are C10's known finding."""
    rnd = random.Random(seed + 9)
    cases = only_cases if only_cases is not None else [c for c in build_cases(scratch, rnd, "quick") if not c["wait"]]
    cpath, trace = scratch.path("hcases.jsonl"), scratch.path("htrace.ndjson")
    with open(cpath, "w") as f:
        for c in cases:
            f.write(json.dumps(c) + "\n")
    p, _ = C.run([harness, "proxy", "-cases", cpath, "-out", trace, "-seed", str(seed)], timeout=3000)
    if p.returncode != 0:
        raise C.Infra("proxy driver failed:\n" + p.stdout[-3000:])
    by_id = {c["id"]: c for c in cases}
    out = {}
    n = 0
    for line in open(trace):
        ev = json.loads(line)
        n += 1
        s = ev["s"]
        bad = []
        if ev["crash"]:
            bad.append(("NoCrash", "proxied", ev["crash"][:200]))
        if not ev["direct"]["hang"]:
            if ev["proxied"]["hang"]:
                bad.append(("NoHang", "grpc front", "no status after 4 s; direct: code %s" % ev["direct"]["code"]))
            if ev["hashttp"] and ev["http"]["hang"]:
                bad.append(("NoHang", "http front", "no response after 4 s; direct: code %s" % ev["direct"]["code"]))
            if ev["hashttp"] and ev["http"]["err"].startswith("panic"):
                bad.append(("NoCrash", "http front", ev["http"]["err"][:200]))
        for formula, front, desc in bad:
            key = (formula, front, s["shape"], s["mode"])
            if key in out:
                out[key]["more"] += 1
                continue
            out[key] = dict(property=prop, formula=formula, seed=seed, cases=[by_id[s["id"]]], observed=ev, more=0, replay_driver="proxy",
                            signature=dict(module="Proxy", formula=formula, shape=s["shape"], front=front),
                            what="%s: proxied %s %s call (n=%d readN=%d replies=%d failAt=%s failK=%d code=%d), %s: %s" % (
                                formula, s["shape"], s["mode"], s["n"], s["readN"], s["replyJ"], s["failAt"], s["failK"], s["code"], front, desc))
    return out, n


def run(prop, tier, replay=None):
    t0 = time.time()
    seed = C.seed()
    rnd = random.Random(seed)
    scratch = C.Scratch("c10")
    try:
        harness = C.build_harness(scratch)
        cpath = scratch.path("cases.jsonl")
        if replay:
            rp = json.load(open(replay))
            cases = rp["cases"]
            design = dict(states=0, transitions=0, neg_guards=0)
        else:
            design = design_check(scratch, tier)
            cases = build_cases(scratch, rnd, tier)
        with open(cpath, "w") as f:
            for c in cases:
                f.write(json.dumps(c) + "\n")
        trace = scratch.path("trace.ndjson")
        p, _ = C.run([harness, "proxy", "-cases", cpath, "-out", trace, "-seed", str(seed)], timeout=3000)
        if p.returncode != 0:
            raise C.Infra("proxy driver failed:\n" + p.stdout[-3000:])
        n = sum(1 for _ in open(trace))
        reps = C.validate_shards(scratch, "ProxyTrace.tla", "ProxyTrace.cfg", [(trace, n)], timeout=1800)
        stat = collections.Counter(reps[0]["stat"])
        lines = open(trace).read().splitlines()
        by_id = {c["id"]: c for c in cases}
        findings = C.load_findings()
        viol, known = {}, collections.Counter()
        for case, line, formula in reps[0]["failed"]:
            ev = json.loads(lines[line - 1])
            s = ev["s"]
            if formula == "DirectModel":
                raise C.Infra("a direct call did not behave as the model of the backend/grpc-go says: %s" % json.dumps(ev)[:800])
            if formula not in FORMULAS:
                continue
            front = "http" if formula.endswith("HTTP") else "grpc"
            sig = dict(module="Proxy", formula=formula, zero_client_messages=(s["n"] == 0), client_waits_first=bool(s["wait"]),
                       client_streams=s["shape"] in ("cstream", "bidi"), shape=s["shape"])
            kf = C.match_finding(findings, prop, sig)
            if kf:
                known[kf["id"]] += 1
                continue
            key = (formula, s["shape"], s["mode"], s["n"] == 0, s["wait"], s["failAt"], ev["http" if front == "http" else "proxied"]["hang"], bool(s.get("slowopen")))
            if key in viol:
                viol[key]["more"] += 1
                continue
            viol[key] = dict(property=prop, formula=formula, seed=seed, cases=[by_id[case]], observed=ev, signature=sig, more=0, replay_driver="proxy",
                             what="%s: %s %s%s n=%d readN=%d replies=%d failAt=%s failK=%d code=%d wait=%s: direct %s vs proxied %s" % (
                                 formula, s["shape"], s["mode"], " (backend ends before the first message is forwarded)" if s.get("slowopen") else "",
                                 s["n"], s["readN"], s["replyJ"], s["failAt"], s["failK"], s["code"], s["wait"],
                                 {k: ev["direct"][k] for k in ("replies", "code", "bgot", "hang")},
                                 {k: ev["http" if front == "http" else "proxied"][k] for k in ("replies", "code", "msgequal", "detequal", "bgot", "bcalls", "hang", "mdok", "err")}))
        for fid, nn in sorted(known.items()):
            f = next(x for x in findings if x["id"] == fid)
            print("KNOWN-FINDING: property=%s %s (%d observations this run)" % (prop, f["what"], nn))
        for i, (key, v) in enumerate(sorted(viol.items(), key=str)):
            if i >= 30:
                break
            rp = C.write_replay(prop, "%s-%d" % (key[0], abs(hash(str(key))) % 100000), v)
            print("VIOLATION property=%s replay=%s  (%s; +%d similar)" % (prop, rp, v["what"], v["more"]))
        nviol = len(viol)
        samples = [json.loads(x) for x in lines[:3]]
        cov = dict(states=design["states"], transitions=design["transitions"], traces_validated_against_impl=stat["calls"],
                   evaluations=2 * stat["calls"], distinct_nontrivial=stat["streaming"],
                   rule=("scripts: every (client messages 0..2, backend reads 0/1/to-end, replies 0..2, failure point never/before/after replies/"
                         "after the client's half-close) TLC enumerates (108), on each method shape that can carry it, with seeded status code "
                         "and details - failing scripts always also with Canceled and DeadlineExceeded; lock-step (ping-pong) bidi calls whose backend fails instead of "
                         "answering message k while the client's send side is open; plus 'backend speaks first, client waits' on bidi. Each executed directly and through larking by a real "
                         "grpc-go client with request metadata incl. a -bin value. Non-trivial = calls on streaming shapes."),
                   samples=samples, exhaustive=True, neg_guards_violated=design.get("neg_guards"), **{k: v for k, v in stat.items()},
                   known_findings=dict(known))
        C.write_evidence(prop, tier, "model_checking", cov,
                         ["grpc-go (client, server, bufconn), net/http and x/net/http2 are trusted; a direct call that departs from the model is an "
                          "infrastructure error", "a call that has not finished after 4 s counts as hung (direct calls take milliseconds)",
                          "response headers/trailers from the backend are not part of C10's statement"],
                         time.time() - t0, nviol)
        print("C10 %s: design states=%d, calls=%d x2 (streaming %d, failing %d, zero-message %d), violations=%d (classes), known=%d, wall=%.0fs" % (
            tier, design["states"], stat["calls"], stat["streaming"], stat["failing"], stat["zeroMsg"], nviol, sum(known.values()), time.time() - t0))
        return 1 if nviol else 0
    finally:
        scratch.cleanup()
