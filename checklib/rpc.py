"""C05, C06, C08, C14, C18: Rpc.tla (per-RPC state machine) model-checked; TLC-generated handler
scripts and status / limit / metadata / fragmentation case families executed against the real Mux on
every protocol; each recorded RPC validated by TLC against RpcTrace.tla."""
import zlib, json, os, time, random, collections, itertools, concurrent.futures as cf
from . import common as C

PROTOS = ["http", "twirp", "grpc", "grpcweb", "grpcwebtext"]
FORMULAS = {
    "C05": ["StatusFidelity", "Crash:status"],
    "C06": ["RecvSeq", "ReplySeq", "SendResult", "Invoked", "FinalStatus"],
    "C08": ["NeverOverLimit", "RecvSeq:limits", "SendResult:limits", "ReplySeq:limits", "StatusFidelity:limits", "Invoked:limits"],
    "C14": ["MetadataOutHeader", "MetadataOutTrailer", "HeaderPhase", "ReservedUnforgeable", "MetadataIn", "StatusFidelity:forge"],
    "C18": ["InterceptOnce", "StatsWellFormed", "OptionsTransparent", "Crash:opts"],
}
# families each property runs
FAMILIES = {"C05": ["status", "script", "ws-status"], "C06": ["stream", "script", "ws-seq"], "C08": ["limits", "ws-limits"], "C14": ["md", "script"], "C18": ["opts"]}

MSG_CLASSES = ["plain", "pct", "ctl", "u2", "u3"]


def design_check(scratch, tier):
    mc = C.tlc(scratch, "Rpc_MC.tla", "Rpc_MC.cfg" if tier == "quick" else "Rpc_MCbig.cfg", workers=12 if tier == "quick" else 16, timeout=1500 if tier == "quick" else 7200, tag="rpcmc")
    C.tlc_ok(mc, "Rpc_MC")
    if C.tlc_violated(mc):
        raise C.Infra("Rpc design check violated:\n" + mc["out"][-2000:])
    return dict(states=mc["distinct"], transitions=mc["generated"])


def tlc_scripts(scratch, tier, seed):
    n = 1500 if tier == "quick" else 20000
    res = C.tlc(scratch, "Rpc_MC.tla", "Rpc_Gen.cfg", workers=1, timeout=1500, simulate="num=%d" % n, depth=9,
                extra=["-seed", str(seed)], tag="rpcgen")
    seen, out = set(), []
    for c in C.printed(res["out"], "CASE"):
        for st in c["script"]:
            if st["md"] == []:      # TLC prints the empty function as []
                st["md"] = {}
        k = json.dumps(c, sort_keys=True)
        if k not in seen:
            seen.add(k)
            out.append(c)
    if not out:
        raise C.Infra("Rpc_Gen produced no scripts:\n" + res["out"][-1500:])
    return out


def act(op, md=None, size=0, code=0, msg=None, det=0):
    return dict(op=op, md=md or {}, size=size, code=code, msg=msg or [], det=det)


def base(proto, shape, codec="proto", **kw):
    c = dict(proto=proto, shape=shape, codec=codec, comp="", opts=[], sizes=[3] if shape in ("unary", "sstream") else [3, 0],
             script=[], reqmd={}, reqwant={}, maxrecv=0, maxsend=0, sched=[], eofwith=False, trunc=0, trunck=0, timeout="",
             accept="", tag="", binpad=False, reusemd=False, exact=False, corrupt=False, boundary=0, wsclose=False, exactrep=False, reqct="", noise=False, wsfrag=0, wsnobody=False, wscloseas=0, plainframes=False)
    c.update(kw)
    return c


def recv_all(c):
    """script prefix that drains the client stream (streaming-client shapes)"""
    if c["shape"] in ("cstream", "bidi"):
        return [act("recv") for _ in range(len(c["sizes"]) + 1)]
    return []


def fam_script(scripts, rnd, tier):
    out = []
    for s in scripts:
        if s["shape"] in ("unary", "sstream") and len(s["sizes"]) != 1:
            continue
        if s["proto"] == "twirp" and s["shape"] != "unary":
            continue
        c = base(s["proto"], s["shape"], codec=rnd.choice(["proto", "json"]), sizes=s["sizes"], script=s["script"], tag="script")
        if s["proto"] in ("grpc", "grpcweb", "grpcwebtext") and rnd.random() < 0.3:
            c["comp"] = "gzip"
        out.append(c)
    rnd.shuffle(out)
    return out[: (2500 if tier == "quick" else 40000)]


def fam_status(rnd, tier):
    shapes_msgs = [[]] + [list(t) for n in (1, 2, 3) for t in itertools.product(MSG_CLASSES, repeat=n)] + [["long"], ["plain", "sp", "tilde", "pct"]]
    codes = list(range(0, 19)) + [2147483647, 100]
    out = []
    for proto in PROTOS:
        for code in codes:
            for det in (0, 1, 2):
                for after in (0, 1, 2):
                    shapes = ["unary"] if after == 0 else ["sstream", "bidi"]
                    if proto == "twirp" and after:
                        continue
                    for shape in shapes:
                        msgs = shapes_msgs if (tier != "quick") else rnd.sample(shapes_msgs, 3) + [["plain", "pct", "plain"], ["u3", "plain"]]
                        for m in msgs:
                            if code == 0 and (m or det):
                                continue
                            c = base(proto, shape, codec=rnd.choice(["proto", "json"]), tag="status")
                            c["script"] = recv_all(c) + [act("send", size=2) for _ in range(after)] + [act("ret", code=code, msg=m, det=det)]
                            if after == 0 and code != 0 and rnd.random() < 0.15:
                                # a mux that restricts the size of reply MESSAGES: a status is not a reply message, however long
                                c["maxsend"] = rnd.choice([8, 32, 64])
                            out.append(c)
    rnd.shuffle(out)
    out = out[: (6000 if tier == "quick" else 120000)]
    # a failing call whose request named a content type no codec is registered for (no body to decode): the error reply
    # still has to be produced, in the default codec
    for code in codes:
        if code == 0:
            continue
        for reqct in ["text/plain; charset=utf-8", "image/jpeg", "application/json; charset=utf-8", "application/x-www-form-urlencoded", "application/grpc"]:
            for accept in ["", "*/*", "application/protobuf", "text/html"]:
                c = base("http", "unary", codec="json", tag="status", reqct=reqct, accept=accept, sizes=[-1])
                c["script"] = [act("ret", code=code, msg=rnd.choice([["plain"], ["u3", "pct"], []]), det=rnd.choice([0, 1]))]
                out.append(c)
    return out


def fam_stream(rnd, tier):
    """C06: message sequences x read schedules x truncation on every streaming transport."""
    out = []
    seqs = [[], [0], [3], [-1], [0, 0], [3, -1, 5], [-1, -1], [1, 2, 3, 4], [40], [0, 70, 0]]
    for proto in ["http", "grpc", "grpcweb", "grpcwebtext"]:
        for codec in ["proto", "json"]:
            for comp in ["", "gzip"]:
                for shape in ["cstream", "bidi"]:
                    for sizes in seqs:
                        for k in range(6 if tier == "quick" else 30):
                            c = base(proto, shape, codec=codec, comp=comp, sizes=sizes, tag="stream")
                            nrep = rnd.randint(0, 3) if shape == "bidi" else 1
                            sc = []
                            # the handler reads to the end, replying as it goes
                            for i in range(len(sizes) + 1):
                                sc.append(act("recv"))
                                if shape == "bidi" and i < nrep:
                                    sc.append(act("send", size=rnd.choice([-1, 0, 2, 30])))
                            if shape == "cstream":
                                sc.append(act("send", size=2))
                            sc.append(act("ret", code=0))
                            c["script"] = sc
                            mode = k % 3
                            if mode >= 1:   # fragmented reads
                                c["sched"] = [rnd.randint(1, 7) for _ in range(rnd.randint(1, 12))]
                                c["eofwith"] = rnd.random() < 0.5
                            if mode == 2 and sizes:   # truncated inside message trunck+1
                                c["trunck"] = rnd.randint(0, len(sizes) - 1)
                                c["trunc"] = rnd.randint(1, 6)
                                # after the cut the handler gets an error and stops
                                sc2 = []
                                for i in range(c["trunck"] + 1):
                                    sc2.append(act("recv"))
                                sc2.append(act("ret", code=0))
                                c["script"] = sc2
                            out.append(c)
        # server streams: reply sequences
        for codec in ["proto", "json"]:
            for nrep in range(0, 4):
                for shape in ["sstream"]:
                    c = base(proto, shape, codec=codec, tag="stream")
                    c["script"] = [act("send", size=rnd.choice([0, 1, 50])) for _ in range(nrep)] + [act("ret", code=0)]
                    out.append(c)
    rnd.shuffle(out)
    out = out[: (4000 if tier == "quick" else 60000)]
    # a stream whose first message is too large, with the limit exactly on a record boundary inside it (plain and
    # compressed): the handler gets an error, never the part of the message that fits
    for proto in ["http", "grpc", "grpcweb", "grpcwebtext"]:
        for comp in ["", "gzip"]:
            for over in [1, 2, 8]:
                for shape in ["cstream", "bidi"]:
                    c = base(proto, shape, codec="proto", comp=comp, tag="stream", boundary=over + 1)
                    c["sizes"] = [0, 3]
                    c["script"] = [act("recv"), act("ret", code=0)]
                    out.append(c)
    # message sequences with messages exactly at the size limit (and one byte under it), plain and compressed: all of them
    # are part of the sequence the handler must see
    for proto in ["http", "grpc", "grpcweb", "grpcwebtext"]:
        for comp in ["", "gzip"]:
            for L in ([256, 1024] if tier == "quick" else [200, 256, 1024, 4096]):
                for shape in ["cstream", "bidi"]:
                    for codec in ["proto", "json"]:
                        c = base(proto, shape, codec=codec, comp=comp, tag="stream", maxrecv=L, exact=True)
                        c["sizes"] = [L // 4, L, L // 8, L - 1]
                        c["script"] = [act("recv") for _ in range(5)] + ([act("send", size=1)] if shape == "bidi" else [act("send", size=2)]) + [act("ret", code=0)]
                        out.append(c)
    return out


def fam_limits(rnd, tier):
    out = []
    for proto in ["http", "grpc", "grpcweb", "grpcwebtext"]:
        for codec in ["proto", "json"]:
            for comp in ["", "gzip"]:
                for L in ([30, 64, 1000] if tier == "quick" else [24, 30, 31, 32, 33, 63, 64, 65, 127, 128, 129, 200, 255, 256, 257, 1000, 4096, 5000, 16383, 16384, 16385, 70000]):
                    if comp == "gzip" and L < 200:
                        continue    # a gzip frame of a tiny message is larger than the message: limits below the gzip overhead say nothing
                    for size in [L - 1, L, L + 1, 50 * L]:
                        for shape in ["unary", "cstream", "bidi"]:
                            # receive limit
                            c = base(proto, shape, codec=codec, comp=comp, maxrecv=L, exact=True, tag="limits")
                            c["sizes"] = [size] if shape == "unary" else [L // 2 + 12, size]
                            c["script"] = recv_all(c) + ([act("send", size=1)] if shape != "unary" else []) + [act("ret", code=0)]
                            out.append(c)
                        # send limit (different from the receive limit, both directions)
                        for shape in ["unary", "sstream"]:
                            for mr in (L * 4, max(L // 4, 20 if comp == "" else 200)):
                                c = base(proto, shape, codec=codec, comp=comp, maxsend=L, maxrecv=mr, tag="limits")
                                c["sizes"] = [0]
                                c["replysize"] = size
                                c["script"] = [act("send", size=max(size - 20, 0)), act("ret", code=0)]
                                out.append(c)
                    # replies of exact wire size around the send limit (a limit check that counts framing bytes refuses L-4..L)
                    for size in [L - 6, L - 5, L - 4, L - 1, L, L + 1, L + 5]:
                        for shape in ["unary", "sstream"]:
                            c = base(proto, shape, codec=codec, comp=comp, maxsend=L, maxrecv=L * 4, tag="limits", exactrep=True)
                            c["sizes"] = [0]
                            c["script"] = [act("send", size=size)] + ([act("send", size=L)] if shape == "sstream" else []) + [act("ret", code=0)]
                            out.append(c)
    # a stream that negotiated gzip may still send single messages uncompressed (flag 0): the limit applies to them as is
    for proto in ["grpc", "grpcweb", "grpcwebtext"]:
        for L in ([64, 1000] if tier == "quick" else [24, 64, 200, 1000, 5000]):
            for size in [L - 1, L, L + 1, 10 * L]:
                for shape in ["unary", "cstream", "bidi"]:
                    c = base(proto, shape, codec=rnd.choice(["proto", "json"]), comp="gzip", plainframes=True, maxrecv=L, exact=True, tag="limits")
                    c["sizes"] = [size] if shape == "unary" else [L // 2 + 12, size]
                    c["script"] = recv_all(c) + ([act("send", size=1)] if shape != "unary" else []) + [act("ret", code=0)]
                    out.append(c)
    # incompressible content: the gzip form is LARGER than the message, so a message within the limit is over it on the
    # wire (HTTP content-encoding; on gRPC the compressed frame length is checked first, as grpc-go does: not judged)
    for L in ([64, 256, 1000] if tier == "quick" else [64, 100, 256, 1000, 5000]):
        for size in [L - 30, L - 1, L, L + 1, L + 40]:
            for shape in ["unary", "cstream"]:
                c = base("http", shape, codec="proto", comp="gzip", maxrecv=L, exact=True, noise=True, tag="limits")
                c["sizes"] = [size] if shape == "unary" else [L // 2, size]
                c["script"] = recv_all(c) + ([act("send", size=1)] if shape != "unary" else []) + [act("ret", code=0)]
                out.append(c)
    # a message of many small records whose size limit falls exactly on a record boundary: an implementation that
    # cuts the (decompressed) message at the limit still decodes something
    for proto in ["http", "grpc", "grpcweb", "grpcwebtext"]:
        for comp in ["", "gzip"]:
            for over in [0, 1, 8, 992]:
                for shape in ["unary", "cstream"]:
                    c = base(proto, shape, codec="proto", comp=comp, tag="limits", boundary=over + 1)
                    c["sizes"] = [0]
                    c["script"] = recv_all(c) + ([act("send", size=1)] if shape != "unary" else []) + [act("ret", code=0)]
                    out.append(c)
    rnd.shuffle(out)
    return out[: (4000 if tier == "quick" else 400000)]


def fam_ws(rnd, tier, part):
    """WebSocket sessions on a real socket (JSON text frames).  A session ends either by the server's close frame
    (the client waits: the handler must not read past what was sent) or by the client's (wsclose: the handler reads to
    the end of the stream)."""
    out = []
    cs = lambda shape: shape in ("cstream", "bidi")
    if part == "status":
        codes = list(range(0, 19)) + [2147483647, 100]
        # reasons around the 123-byte capacity of a close frame, with the cut falling inside 2- and 3-byte characters
        msgsets = [[], ["plain"], ["plain", "pct", "u2"], ["ctl", "plain"], ["u3"] * 41, ["u3"] * 42, ["u2"] * 61, ["u2"] * 62,
                   ["plain"] + ["u2"] * 62, ["plain"] * 123, ["plain"] * 124, ["plain"] * 122 + ["u3"], ["plain"] * 121 + ["u3"], ["long"]]
        for code in codes:
            for shape, after in [("unary", 0), ("sstream", 0), ("sstream", 2), ("bidi", 1), ("cstream", 0)]:
                for m in (msgsets if tier != "quick" else rnd.sample(msgsets, 3) + [["u2"] * 62, ["plain"] * 124, ["plain"] + ["u2"] * 62]):
                    if code == 0 and m:
                        continue
                    c = base("ws", shape, codec="json", tag="status")
                    c["sizes"] = [3, 0] if cs(shape) else [3]
                    c["script"] = ([act("recv") for _ in c["sizes"]] if cs(shape) else []) + [act("send", size=2) for _ in range(after)] + [act("ret", code=code, msg=m)]
                    out.append(c)
    elif part == "seq":
        seqs = [[], [0], [3], [-1], [0, 0], [3, -1, 5], [-1, -1], [1, 2, 3, 4], [40], [0, 70, 0], [3000]]
        for sizes in seqs:
            for k in range(4 if tier == "quick" else 30):
                for shape in ["bidi", "cstream", "sstream", "unary"]:
                    if not cs(shape) and len(sizes) != 1:
                        continue
                    for wsclose in ([False, True] if cs(shape) else [False]):
                        c = base("ws", shape, codec="json", sizes=sizes, tag="stream", wsclose=wsclose, wsfrag=rnd.choice([0, 0, 1, 7, 64]),
                                 wscloseas=rnd.choice([0, 1001, -1]))
                        sc = []
                        if cs(shape):
                            nrep = rnd.randint(0, len(sizes)) if shape == "bidi" else 0
                            for i in range(len(sizes)):
                                sc.append(act("recv"))
                                if i < nrep:
                                    sc.append(act("send", size=rnd.choice([-1, 0, 2, 30, 2000])))
                            if wsclose:
                                sc += [act("recv")] * rnd.choice([1, 1, 2])    # end of stream, and again
                            elif shape == "cstream" or rnd.random() < 0.5:
                                sc.append(act("send", size=2))
                        else:
                            sc += [act("send", size=rnd.choice([-1, 0, 2, 30])) for _ in range(rnd.randint(0, 3) if shape == "sstream" else 1)]
                        sc.append(act("ret", code=0 if (wsclose or rnd.random() < 0.7) else 5, msg=["plain"]))
                        if sc[-1]["code"] == 0:
                            sc[-1]["msg"] = []
                        c["script"] = sc
                        out.append(c)
        # a binding without a body: the URL is the one (empty) message, after which the stream has ended
        for shape in ["bidi", "cstream", "sstream", "unary"]:
            for extra in ([1, 2] if cs(shape) else [0]):
                c = base("ws", shape, codec="json", sizes=[-1], tag="stream", wsnobody=True)
                c["script"] = ([act("recv")] * (1 + extra) if cs(shape) else []) + ([act("send", size=2)] if shape != "cstream" else []) + [act("ret", code=0)]
                out.append(c)
    else:   # limits
        for L in ([30, 64, 1000] if tier == "quick" else [24, 30, 64, 200, 1000, 5000]):
            for size in [L - 1, L, L + 1, 3 * L, 50 * L]:
              for frag in [0, L // 2, L]:       # the limit is on the message, however it is cut into frames
                for shape in ["unary", "cstream", "bidi"]:
                    c = base("ws", shape, codec="json", maxrecv=L, exact=True, tag="limits", wsclose=cs(shape), wsfrag=frag)
                    c["sizes"] = [size] if shape == "unary" else [L // 2 + 12, size]
                    c["script"] = recv_all(c) + [act("ret", code=0)]     # (a reply after the client's close could not be delivered)
                    out.append(c)
    return out


def fam_md(rnd, tier):
    out = []
    names = [("x-a", "x-a"), ("X-Mixed-Case", "x-mixed-case"), ("x-multi", "x-multi"), ("X-UPPER", "x-upper"),
             ("X-a_b.c9", "x-a_b.c9"), ("x-0", "x-0"), ("X-Very-Long-Header-Name-With-Many-Parts-0123456789", "x-very-long-header-name-with-many-parts-0123456789")]
    bins = ["", "00", "0001", "000102", "00010203", "ff", "fffe", "fffefd", "7f80ff00"]
    for proto in ["http", "grpc", "grpcweb", "grpcwebtext"]:
        for shape in ["unary", "bidi", "sstream"]:
            for fail in (0, 5):
                for k in range(10 if tier == "quick" else 400):
                    c = base(proto, shape, codec=rnd.choice(["proto", "json"]), tag="md")
                    reqmd, want = {}, {}
                    for (name, key) in rnd.sample(names, rnd.randint(1, 3)):
                        vals = [rnd.choice(["v1", "a b", "x,y", "1"]) for _ in range(rnd.randint(1, 3))]
                        reqmd[name] = vals
                        want[key] = vals
                    b = rnd.choice(bins)
                    reqmd["X-Data-Bin"] = [b] + ([rnd.choice(bins)] if rnd.random() < 0.3 else [])
                    want["x-data-bin"] = reqmd["X-Data-Bin"]
                    # several binary keys in one request (each decoded value list is its own)
                    for (name, key) in rnd.sample([("X-More-Bin", "x-more-bin"), ("x-z-bin", "x-z-bin"), ("X-Sig-Bin", "x-sig-bin")], rnd.choice([0, 1, 2, 3])):
                        reqmd[name] = [rnd.choice(bins) for _ in range(rnd.randint(1, 3))]
                        want[key] = reqmd[name]
                    c["reusemd"] = rnd.random() < 0.5
                    c["binpad"] = rnd.random() < 0.5
                    c["reqmd"], c["reqwant"] = reqmd, want
                    # metadata does not depend on the mux options: a third of the cases run with a stats handler and / or interceptors
                    c["opts"] = rnd.choice([[], [], [], [], ["stats"], ["stats", "unaryInt", "streamInt"]])
                    sc = recv_all(c)
                    hdr = {"x-h": ["1", "2"], "x-hb-bin": [rnd.choice(bins[1:])]}
                    if rnd.random() < 0.4:
                        hdr[rnd.choice(["grpc-status", "content-type", "grpc-message", "grpc-encoding", "grpc-status-details-bin", "trailer"])] = ["30"]
                    trl = {"x-t": ["9"], "x-tb-bin": [rnd.choice(bins[1:])]}
                    if rnd.random() < 0.5:     # the same key as a header and as a trailer
                        trl["x-h"] = ["late"]
                        trl["x-hb-bin"] = [rnd.choice(bins[1:])]
                    order = rnd.choice(["hts", "hst", "sht", "ths"])
                    for ch in order:
                        if ch == "h":
                            sc.append(act("sethdr", md=hdr))
                            if rnd.random() < 0.3:     # a second SetHeader: merged with the first
                                sc.append(act("sethdr", md={"x-h": ["3"], "x-h2": ["again"], "x-h2-bin": [rnd.choice(bins[1:])]}))
                        elif ch == "t":
                            sc.append(act("settrl", md=trl))
                        elif ch == "s" and shape != "unary":
                            sc.append(act("send", size=1))
                    if rnd.random() < 0.45:
                        # SendHeader with metadata of its own: joined with what SetHeader collected, also under a shared key
                        sc.append(act("sendhdr", md=rnd.choice([{}, {"x-h": ["sent"], "x-hb-bin": [rnd.choice(bins[1:])]}, {"x-s": ["only-sent"]},
                                                                {"x-h": ["sent"], "x-s": ["a", "b"]}])))
                    sc.append(act("ret", code=fail, msg=["plain"] if fail else []))
                    c["script"] = sc
                    out.append(c)
    # a server stream over HTTP whose reply leaves through larking.AsHTTPBodyWriter (raw HttpBody data): header metadata set
    # before the first byte reaches the client like before any other first reply
    for k in range(24 if tier == "quick" else 600):
        c = base("http", "sstream", codec=rnd.choice(["proto", "json"]), tag="md", bodywriter=True)
        sc = [act("sethdr", md={"x-h": ["1", "2"], "x-hb-bin": [rnd.choice(bins[1:])]})]
        if k % 3 == 1:
            sc.append(act("sethdr", md={"x-h": ["3"], "x-h2": ["again"]}))
        if k % 4 == 2:
            sc.append(act("sendhdr", md=rnd.choice([{}, {"x-s": ["sent"]}])))
        sc += [act("send", size=rnd.choice([0, 1, 40, 3000])), act("ret", code=0)]
        c["script"] = sc
        c["opts"] = rnd.choice([[], [], ["stats"], ["streamInt"]])
        out.append(c)
    # every protocol-reserved response key, set by the handler as a header and as a trailer, on every protocol, with and
    # without a failing status: the client must never see the handler's value under that key
    reserved = ["grpc-status", "grpc-message", "grpc-status-details-bin", "grpc-encoding", "grpc-message-type",
                "grpc-timeout", "content-type", "te", "trailer", "user-agent"]
    for proto in ["http", "grpc", "grpcweb", "grpcwebtext"]:
        for key in reserved:
            for where in ("hdr", "trl", "both"):
                for shape, fail in [("unary", 0), ("sstream", 0), ("unary", 9), ("sstream", 9)]:
                    c = base(proto, shape, codec=rnd.choice(["proto", "json"]), tag="md", reusemd=rnd.random() < 0.3)
                    val = "666f72676564" if key.endswith("-bin") else "forged"      # hex of "forged" for -bin keys
                    sc = []
                    if where in ("hdr", "both"):
                        sc.append(act("sethdr", md={key: [val], "x-h": ["1"]}))
                    if shape == "sstream":
                        sc.append(act("send", size=1))
                    if where in ("trl", "both"):
                        sc.append(act("settrl", md={key: [val], "x-t": ["2"]}))
                    sc.append(act("ret", code=fail, msg=["plain"] if fail else [], det=1 if fail else 0))
                    c["script"] = sc
                    out.append(c)
    rnd.shuffle(out)
    return out


def fam_opts(scripts, rnd, tier):
    """C18: the same RPC under every subset of {unaryInt, streamInt, stats}."""
    out = []
    subsets = [[], ["unaryInt"], ["streamInt"], ["stats"], ["unaryInt", "streamInt"], ["unaryInt", "stats"], ["streamInt", "stats"],
               ["unaryInt", "streamInt", "stats"]]
    pool = []
    for proto in ["http", "grpc", "grpcweb"]:
        for shape in ["unary", "cstream", "sstream", "bidi"]:
            for size in [-1, 0, 1, 4, 5, 6, 1000]:
                for outcome in ["ok", "errbefore", "errafter", "erreof", "errcancel", "errplain"]:
                    c = base(proto, shape, codec=rnd.choice(["proto", "json"]), tag="opts")
                    if proto != "http" and rnd.random() < 0.6:
                        c["comp"] = rnd.choice(["gzip", "identity"])     # (identity is a registered encoding without a compressor)
                    c["sizes"] = [size] if shape in ("unary", "sstream") else [size, 0]
                    sc = recv_all(c)
                    if outcome == "errbefore":
                        sc.append(act("ret", code=7, msg=["plain"]))
                    elif outcome in ("erreof", "errcancel", "errplain"):
                        # a plain Go error instead of a status (the io.EOF of a last Recv, context.Canceled, errors.New)
                        sc.append(act("ret", code={"erreof": 1001, "errcancel": 1002, "errplain": 1003}[outcome], msg=[]))
                    else:
                        nrep = 2 if shape in ("sstream", "bidi") else 1
                        sc += [act("send", size=rnd.choice([-1, 0, 1, 4, 5, 600])) for _ in range(nrep)]
                        sc.append(act("ret", code=0) if outcome == "ok" else act("ret", code=9, msg=["plain"]))
                    if rnd.random() < 0.4:   # header and trailer metadata, also under one key
                        sc = [act("sethdr", md={"x-h": ["1", "2"], "x-only-h": ["h"]}), act("settrl", md={"x-h": ["late"], "x-only-t": ["t"]})] + sc
                    c["script"] = sc
                    # request metadata: what the handler sees of it must not depend on the options either (a stats handler
                    # owns the header map of its in-header event, not the RPC's)
                    c["reqmd"] = {"X-Opt": ["v1", "v2"], "Authorization": ["Bearer s3cret"], "X-Opt-Bin": ["0001ff"]}
                    c["reqwant"] = {"x-opt": ["v1", "v2"], "authorization": ["Bearer s3cret"], "x-opt-bin": ["0001ff"]}
                    pool.append(c)
    for s in (scripts[:300] if tier == "quick" else scripts):
        if s["proto"] in ("http", "grpc", "grpcweb") and not (s["shape"] in ("unary", "sstream") and len(s["sizes"]) != 1):
            pool.append(base(s["proto"], s["shape"], sizes=s["sizes"], script=s["script"], tag="opts"))
    rnd.shuffle(pool)
    pool = pool[: (250 if tier == "quick" else 20000)]
    for g, c in enumerate(pool):
        for sub in subsets:
            d = json.loads(json.dumps(c))
            d["opts"] = sub
            d["group"] = g + 1
            out.append(d)
    return out


def sig_of(ev, formula):
    c = ev["c"]
    ret = next((s for s in c["script"] if s["op"] == "ret"), None)
    return dict(module="Rpc", formula=formula, proto=c["proto"], shape=c["shape"], codec=c["codec"], comp=c["comp"], tag=c["tag"],
                code=(ret or {}).get("code"), client_streams=c["shape"] in ("cstream", "bidi"),
                http_status=ev["cl"]["http"], truncated=c["trunc"] > 0, stats="stats" in c["opts"],
                crash=("panic" if ev["crash"].startswith("panic") else ev["crash"]),
                crash_text=ev["crash"][:60])


def run(prop, tier, replay=None):
    t0 = time.time()
    seed = C.seed()
    rnd = random.Random(seed)
    scratch = C.Scratch(prop.lower())
    try:
        harness = C.build_harness(scratch)
        cpath = scratch.path("cases.jsonl")
        if replay:
            rp = json.load(open(replay))
            cases = rp["cases"] if rp.get("replay_driver") not in ("conc", "wssession") else []
            replay_ups = rp["cases"] if rp.get("replay_driver") == "conc" else None
            replay_ws = rp["cases"] if rp.get("replay_driver") == "wssession" else None
            design = dict(states=0, transitions=0)
        else:
            fams = FAMILIES[prop]
            with cf.ThreadPoolExecutor(max_workers=2) as ex:
                fd = ex.submit(design_check, scratch, tier)
                fs = ex.submit(tlc_scripts, scratch, tier, seed) if ("script" in fams or "opts" in fams) else None
                design = fd.result()
                scripts = fs.result() if fs else []
            cases = []
            for f in fams:
                if f == "script":
                    cases += fam_script(scripts, rnd, tier)
                elif f == "status":
                    cases += fam_status(rnd, tier)
                elif f == "stream":
                    cases += fam_stream(rnd, tier)
                elif f == "limits":
                    cases += fam_limits(rnd, tier)
                elif f == "md":
                    cases += fam_md(rnd, tier)
                elif f == "opts":
                    cases += fam_opts(scripts, rnd, tier)
                elif f.startswith("ws-"):
                    cases += fam_ws(rnd, tier, f[3:])
            # the same gRPC cases once more through a real grpc-go client on a socket (those a real client can send)
            plain = [c for c in cases if c["proto"] == "grpc" and not (c["sched"] or c["trunc"] or c["corrupt"] or c["eofwith"] or c["boundary"] or c["timeout"] or c.get("plainframes"))]
            if prop != "C18":
                plain = rnd.sample(plain, min(len(plain), 500 if tier == "quick" else 20000))
            for c in plain:
                d = dict(c, proto="grpcsock")
                if d.get("group"):
                    d["group"] = "sock-" + str(d["group"])
                cases.append(d)
            for i, c in enumerate(cases):
                c["id"] = i + 1
                # a third of the non-gRPC requests arrive over HTTP/2 (same for every member of an option group)
                c.setdefault("h2", c["proto"] not in ("grpc", "ws", "grpcsock") and (zlib.crc32(str(c.get("group")).encode()) if c.get("group") else i) % 3 == 1)
        with open(cpath, "w") as f:
            for c in cases:
                f.write(json.dumps(c) + "\n")
        trace = scratch.path("trace.ndjson")
        p, _ = C.run([harness, "rpc", "-cases", cpath, "-out", trace, "-seed", str(seed)], timeout=3000)
        if p.returncode != 0:
            raise C.Infra("rpc driver failed:\n" + p.stdout[-3000:])
        shards = C.split_trace(trace, 16, scratch.path("shards"), lambda l: True)
        reps = C.validate_shards(scratch, "RpcTrace.tla", "RpcTrace.cfg", shards, timeout=3000)
        stat = collections.Counter()
        failed = []
        for r in reps:
            for k, v in r["stat"].items():
                stat[k] += v
            for f in r["failed"]:
                failed.append((r["_shard"], f[0], f[1], f[2]))
        by_id = {c["id"]: c for c in cases}
        cache = {}
        evs_by_case = {}
        # OptionsTransparent (2-safety): the client view must not depend on the option subset
        extra_failed = []
        if prop == "C18":
            groups = collections.defaultdict(list)
            for sh, _n in shards:
                for line in open(sh):
                    e = json.loads(line)
                    g = by_id.get(e["case"], {}).get("group")
                    if g:
                        strip = lambda rs: [(r["idx"], r["equal"], r["err"]) for r in rs]   # sizes depend on the digits of the case id
                        view = json.dumps(dict(http=e["cl"]["http"], msgs=strip(e["cl"]["msgs"]), status=e["cl"]["status"], crash=bool(e["crash"]),
                                               recv=strip(e["h"]["recv"]), hmd={k: e["h"]["md"].get(k) for k in (e.get("reqwant") or {})},
                                               # ... nor the response metadata the client sees (custom keys)
                                               chdr={k: v for k, v in (e["cl"].get("hdr") or {}).items() if k.startswith("x-")},
                                               ctrl={k: v for k, v in (e["cl"].get("trl") or {}).items() if k.startswith("x-")}), sort_keys=True)
                        groups[g].append((e["case"], view, e))
            for g, lst in groups.items():
                base_view = next((v for cid, v, e in lst if not e["c"]["opts"]), lst[0][1])
                for cid, v, e in lst:
                    if v != base_view:
                        extra_failed.append((cid, "OptionsTransparent", e))
        findings = C.load_findings()
        viol, known = {}, collections.Counter()
        mine = set(f.split(":")[0] for f in FORMULAS[prop])

        def consider(case, formula, ev):
            tag = ev["c"]["tag"]
            # attribution: crashes and cross-property formulas only count in the families that are this property's business
            if formula == "Crash":
                if not ((prop == "C05" and tag == "status") or (prop == "C18" and tag == "opts")):
                    return
            elif formula not in mine:
                return
            elif formula == "StatusFidelity" and prop not in ("C05",):
                if not ((prop == "C08" and tag == "limits") or (prop == "C14" and any(k in ("grpc-status", "grpc-message", "grpc-status-details-bin") for s in ev["c"]["script"] for k in s["md"]))):
                    return
            elif formula in ("RecvSeq", "ReplySeq", "SendResult", "Invoked") and prop == "C08" and tag != "limits":
                return
            sig = sig_of(ev, formula)
            kf = C.match_finding(findings, prop, sig)
            if kf:
                known[kf["id"]] += 1
                return
            key = (formula, sig["proto"], sig["shape"], sig["codec"], sig["comp"],
                   ("in-range" if sig["code"] in range(0, 17) else "out-of-range") if formula in ("StatusFidelity", "Crash") else None,
                   sig["truncated"], sig["stats"])
            if key in viol:
                viol[key]["more"] += 1
                return
            rc = [by_id[case]]
            if formula == "OptionsTransparent":
                g = by_id[case].get("group")
                rc = [c for c in cases if c.get("group") == g]
            viol[key] = dict(property=prop, formula=formula, seed=seed, cases=rc, observed=ev, signature=sig, more=0, replay_driver="rpc")

        for sh, case, line, formula in failed:
            if sh not in cache:
                cache[sh] = open(sh).read().splitlines()
            consider(case, formula, json.loads(cache[sh][line - 1]))
        for cid, formula, e in extra_failed:
            consider(cid, formula, e)
        pstat_calls = 0
        if prop == "C18" and not replay:
            # the proxy path (RegisterConn): interceptors installed on the front, scripts of Proxy.tla
            from . import proxy as PX
            pv, pstat_calls = PX.intercept_violations(prop, tier, scratch, harness, seed)
            for key, v in pv.items():
                kf = C.match_finding(findings, prop, v["signature"])
                if kf:
                    known[kf["id"]] += 1
                    continue
                o = v["observed"]
                v["observed"] = dict(c=dict(tag="proxy", proto="grpc", shape=o["s"]["shape"], codec="proto", comp=""), cl=dict(http=200, status=dict(present=False), msgs=[]),
                                     h=dict(recv=[]), crash=v["what"], proxy=o)
                v["signature"].update(code=None, proto="grpc", codec="proto", comp="", truncated=False, stats=False)
                viol[(v["formula"], "proxy", key[1], "proto", "", None, False, False)] = v
        if prop == "C05" and not replay:
            # the status comes from a backend behind RegisterConn: gRPC and HTTP/JSON fronts against a direct client
            from . import proxy as PX
            pv, pstat_calls = PX.status_violations(prop, tier, scratch, harness, seed)
            for key, v in pv.items():
                kf = C.match_finding(findings, prop, v["signature"])
                if kf:
                    known[kf["id"]] += 1
                    continue
                o = v["observed"]
                v["observed"] = dict(c=dict(tag="proxy", proto=key[1], shape=o["s"]["shape"], codec="proto", comp=""), cl=dict(http=200, status=dict(present=False), msgs=[]),
                                     h=dict(recv=[]), crash=v["what"], proxy=o)
                v["signature"].update(code=o["s"]["code"], proto=key[1], codec="proto", comp="", truncated=False, stats=False)
                viol[("StatusFidelity", "proxy-" + key[1], key[2], "proto", "", "in-range", key[4], key[3])] = v
        ustat = collections.Counter()
        if prop in ("C06", "C08", "C18") and (not replay or replay_ups):
            # HttpBody chunk framing: uploads of every length around multiples of the chunk size, through Recv(),
            # from readers that end with (0, EOF), with (n, EOF), one byte at a time, and through gzip
            ups = []
            for limit in ([16, 64] if tier == "quick" else [1, 2, 3, 16, 64, 200]):
                for n in range(0, 4 * limit + 2):
                    for mode in ["plain", "dataerr", "gzip", "onebyte"] + (["broken", "brokendata"] if n >= 3 and prop == "C06" else []):
                        if tier == "quick" and n > 2 * limit + 3 and n % limit not in (0, 1, limit - 1):
                            continue
                        ups.append(dict(fam="upload", id=len(ups) + 1, len=n, limit=limit, mode=mode))
            if replay:
                ups = [dict(u, id=i + 1) for i, u in enumerate(replay_ups)]
            upath, utrace = scratch.path("uploads.jsonl"), scratch.path("uploads.ndjson")
            with open(upath, "w") as f:
                for u in ups:
                    f.write(json.dumps(u) + "\n")
            p, _ = C.run([harness, "conc", "-cases", upath, "-out", utrace, "-seed", str(seed), "-workers", "8"], timeout=3000)
            if p.returncode != 0:
                raise C.Infra("upload driver failed:\n" + p.stdout[-3000:])
            nu = sum(1 for _ in open(utrace))
            pr = C.validate_shards(scratch, "PoolTrace.tla", "PoolTrace.cfg", [(utrace, nu)], timeout=1800)[0]
            ustat.update(pr["stat"])
            ulines = open(utrace).read().splitlines()
            for f in pr["failed"]:
                ev = json.loads(ulines[f[1] - 1])
                if f[2] not in {"C06": ("UploadComplete", "ChunkLimit", "BrokenUploadIsError"), "C08": ("ChunkLimit",), "C18": ("UploadStats",)}[prop]:
                    continue
                sig = dict(module="Framing", formula=f[2], codec="body", mode=ev["mode"], code=None)
                kf = C.match_finding(findings, prop, sig)
                if kf:
                    known[kf["id"]] += 1
                    continue
                key = (f[2], "http", "upload", "body", ev["mode"], None, False, False)
                if key in viol:
                    viol[key]["more"] += 1
                    continue
                viol[key] = dict(property=prop, formula=f[2], seed=seed, cases=[ups[ev["case"] - 1]], signature=sig, more=0, replay_driver="conc",
                                 observed=dict(c=dict(tag="upload", proto="http", shape="upload", codec="body", comp=""), cl=dict(http=0, status=dict(present=False), msgs=[]),
                                               h=dict(recv=[]), crash="upload of %d bytes, chunk %d, reader %s: %d chunks, %d bytes, complete=%s; stats events in=%d out=%d begin=%d end=%d" % (
                                                   ev["len"], ev["limit"], ev["mode"], ev["chunks"], ev["bytes"], ev["concat"],
                                                   ev.get("inpayloads", -1), ev.get("outpayloads", -1), ev.get("begins", -1), ev.get("ends", -1))))
        wstat = collections.Counter()
        if prop in ("C05", "C06") and (not replay or replay_ws is not None):
            # WebSocket sessions at the frame level: WsSession.tla's frame sequences on a real socket
            from . import wssession as WS
            wv, wstat, wdes = WS.violations(prop, tier, scratch, harness, seed, replay_ws if replay else None)
            for key, v in wv.items():
                kf = C.match_finding(findings, prop, v["signature"])
                if kf:
                    known[kf["id"]] += 1
                    continue
                o = v["observed"]
                v["observed"] = dict(c=dict(tag="wssession", proto="ws", shape="bidi", codec="json", comp=""), cl=dict(http=o["status"], status=dict(present=False), msgs=[]),
                                     h=dict(recv=[]), crash=v["what"], ws=o)
                v["signature"].update(code=None, shape="bidi", codec="json", comp="", truncated=False, stats="stats" in o["opts"])
                viol[(key[0], "ws-session", "+".join(key[1]), "json", "", None, False, "stats" in o["opts"])] = v
        for fid, n in sorted(known.items()):
            f = next(x for x in findings if x["id"] == fid)
            print("KNOWN-FINDING: property=%s %s (%d observations this run)" % (prop, f["what"], n))
        for i, (key, v) in enumerate(sorted(viol.items(), key=str)):
            if i >= 40:
                break
            rp = C.write_replay(prop, "%s-%s-%s-%d" % (key[0], key[1], key[2], abs(hash(str(key))) % 100000), v)
            o = v["observed"]
            print("VIOLATION property=%s replay=%s  (%s: %s/%s/%s%s tag=%s code=%s -> http %s status %s msgs %d recv %s %s; +%d similar)" % (
                prop, rp, key[0], key[1], key[2], key[3], "+" + key[4] if key[4] else "", o["c"]["tag"], v["signature"]["code"], o["cl"]["http"],
                (o["cl"]["status"]["code"], o["cl"]["status"]["msgequal"], o["cl"]["status"]["name"]) if o["cl"]["status"]["present"] else None,
                len(o["cl"]["msgs"]), [(r["idx"], r["err"]) for r in o["h"]["recv"]][:6], o["crash"][:70], v["more"]))
        nviol = len(viol)
        samples = [dict(proto=c["proto"], shape=c["shape"], codec=c["codec"], comp=c["comp"], sizes=c["sizes"], tag=c["tag"],
                        script=[(s["op"], s["code"], s["size"]) for s in c["script"]]) for c in cases[:4]]
        nontrivial = {"C05": stat["failing"], "C06": stat["streams"], "C08": stat["limited"], "C14": stat["withMD"], "C18": stat["withOpts"]}[prop]
        cov = dict(states=design["states"], transitions=design["transitions"], traces_validated_against_impl=stat["rpcs"],
                   evaluations=stat["rpcs"], distinct_nontrivial=nontrivial,
                   rule=("cases: " + ", ".join(FAMILIES[prop]) + " families. 'script': handler scripts enumerated by TLC from Rpc.tla (-simulate, seed) on every "
                         "protocol/shape; 'status': codes 0..18,100,2^31-1 x message shapes over {plain,%,control,2-byte,3-byte rune} x details x "
                         "error point; 'stream': message sequences x fragmenting read schedules x truncation inside a message; 'limits': "
                         "limit x {L-1,L,L+1,50L} x codec x compression, receive and send; 'md': request/response metadata incl. -bin, reserved "
                         "names, header phase; 'opts': every subset of interceptors/stats on the same RPC. Each executed through Mux.ServeHTTP "
                         "and judged by TLC against Rpc!View. Non-trivial = RPCs in which the property's antecedent holds (failing handler / "
                         "streaming shape / limit set / metadata set / options installed)."),
                   samples=samples, exhaustive=False, **{k: v for k, v in stat.items() if k not in ("rpcs",)},
                   proxied_calls=pstat_calls, httpbody_uploads=ustat["retains"], httpbody_chunks=ustat["chunks"], httpbody_bytes=ustat["bytes"],
                   known_findings=dict(known),
                   ws_sessions=wstat["sessions"], ws_frames=wstat["frames"], ws_messages=wstat["msgs"], ws_fragmented_messages=wstat["fragmented"],
                   ws_clean_ends=wstat["cleanEnds"], ws_error_ends=wstat["errEnds"], ws_client_side_judged=wstat["clientJudged"])
        C.write_evidence(prop, tier, "model_checking", cov,
                         ["direct drive through Mux.ServeHTTP with httptest (HTTP/2 framing for gRPC is emulated by ProtoMajor=2 and recorder trailers)",
                          "code tables pinned to code.go and the Twirp specification; HTTP status after streamed replies unspecified",
                          "message equality is judged by the driver against the message it generated (proto.Equal)"],
                         time.time() - t0, nviol)
        print("%s %s: design states=%d, rpcs=%d, nontrivial=%d, violations=%d (classes), known=%d, wall=%.0fs" % (
            prop, tier, design["states"], stat["rpcs"], nontrivial, nviol, sum(known.values()), time.time() - t0))
        return 1 if nviol else 0
    finally:
        scratch.cleanup()
