"""C13: Pool.tla discipline model checked by TLC (negative configs: no copy-out, double put); the per-RPC cases of Rpc.tla
run as a concurrent mix on 48 goroutines under the race detector, each RPC's own event validated by TLC against
RpcTrace.tla with its own payload identities; HttpBody uploads whose handlers retain every chunk validated against PoolTrace.tla."""
import json, os, time, random, collections, concurrent.futures as cf
from . import common as C
from . import rpc as R

ISOLATION = ["RecvSeq", "ReplySeq", "SendResult", "StatusFidelity", "NeverOverLimit", "MetadataIn", "MetadataOutHeader", "MetadataOutTrailer"]
POOL = ["RetainedStable", "UploadComplete", "ChunkLimit"]


def design_check(scratch, tier="quick"):
    res = {}
    mcfg = "Pool_MC" if tier == "quick" else "Pool_MCbig"
    with cf.ThreadPoolExecutor(max_workers=3) as ex:
        futs = {n: ex.submit(C.tlc, scratch, "Pool.tla", n + ".cfg", 2, None, 1800, None, None, n) for n in [mcfg, "Pool_Neg_NoCopy", "Pool_Neg_DoublePut"]}
        res = {k: f.result() for k, f in futs.items()}
    res["Pool_MC"] = res[mcfg]
    C.tlc_ok(res["Pool_MC"], "Pool_MC")
    if C.tlc_violated(res["Pool_MC"]):
        raise C.Infra("Pool design check violated")
    for n in ["Pool_Neg_NoCopy", "Pool_Neg_DoublePut"]:
        if not C.tlc_violated(res[n]):
            raise C.Infra("vacuity guard %s found no violation" % n)
    return dict(states=res["Pool_MC"]["distinct"], transitions=res["Pool_MC"]["generated"], neg_guards=2)


def mix(rnd, tier, scratch, seed):
    scripts = R.tlc_scripts(scratch, "quick", seed)
    cases = []
    cases += R.fam_stream(rnd, "quick")[: (1500 if tier == "quick" else 4000)]
    cases += R.fam_script(scripts, rnd, "quick")[: (800 if tier == "quick" else 2500)]
    cases += R.fam_limits(rnd, "quick")[: (500 if tier == "quick" else 2000)]
    cases += R.fam_md(rnd, "quick")[: (300 if tier == "quick" else 1000)]
    # payload sizes straddling the pools' 64-byte initial capacity and the put-back threshold
    for proto in ["http", "grpc", "grpcweb"]:
        for codec in ["proto", "json"]:
            for comp in ["", "gzip"]:
                for sizes in ([40, 70, 30], [63, 64, 65], [200, 10, 300], [1000, 0, 1000]):
                    for k in range(3 if tier == "quick" else 10):
                        c = R.base(proto, "bidi", codec=codec, comp=comp, sizes=sizes, tag="stream", maxrecv=rnd.choice([0, 256, 2000]))
                        sc = []
                        for i in range(len(sizes) + 1):
                            sc.append(R.act("recv"))
                            if i < len(sizes):
                                sc.append(R.act("send", size=rnd.choice([5, 60, 70, 500])))
                        sc.append(R.act("ret", code=0))
                        if c["maxrecv"] and max(sizes) + 40 > c["maxrecv"]:
                            continue
                        c["script"] = sc
                        c["sched"] = [rnd.randint(20, 200) for _ in range(rnd.randint(0, 4))]
                        # the two directions of a stream are independent: in a third of these the handler sends from a goroutine of
                        # its own while it receives (same abstract script, concurrent execution)
                        c["duplex"] = (k % 3 == 2) and not c["maxrecv"]
                        cases.append(c)
    # damaged compressed frames in between (the failing call must not disturb its neighbours)
    for k in range(150 if tier == "quick" else 600):
        c = R.base(rnd.choice(["grpc", "grpcweb"]), rnd.choice(["unary", "bidi", "cstream"]), codec="proto", comp="gzip", tag="stream", corrupt=True)
        c["sizes"] = [30] if c["shape"] == "unary" else [30, 10]
        c["script"] = ([R.act("recv"), R.act("ret", code=0)] if c["shape"] != "unary" else [R.act("ret", code=0)])
        cases.append(c)
    for c in cases:
        c.setdefault("corrupt", False)
    ups = []
    for limit in [16, 64, 200]:
        for k in range(0, 5):
            for d in [-3, -1, 0, 1, 2, 17, 60]:
                n = k * limit + d
                if n < 0:
                    continue
                for mode in ["plain", "dataerr", "gzip", "onebyte"]:
                    ups.append(dict(fam="upload", len=n, limit=limit, mode=mode))
    rnd.shuffle(ups)
    ups = ups[: (400 if tier == "quick" else 2000)]
    # downloads of handler-owned assets (HttpBody replies whose data the application keeps): sizes around the buffer sizes
    for n in [1, 15, 16, 17, 64, 200, 1000, 4096, 70000]:
        for k in range(6 if tier == "quick" else 30):
            ups.append(dict(fam="upload", len=n + k, limit=64, mode="download"))
    allc = cases + ups
    rnd.shuffle(allc)
    for i, c in enumerate(allc):
        c["id"] = i + 1
    return allc


def run(prop, tier, replay=None):
    t0 = time.time()
    seed = C.seed()
    scratch = C.Scratch("c13")
    try:
        race = C.build_harness(scratch, race=True)
        design = design_check(scratch, tier) if not replay else dict(states=0, transitions=0, neg_guards=0)
        nseeds = 2 if tier == "quick" else 8
        viol, known = {}, collections.Counter()
        findings = C.load_findings()
        stat = collections.Counter()
        pstat = collections.Counter()
        samples = []
        for k in range(nseeds):
            sd = seed * 100 + k
            rnd = random.Random(sd)
            cases = json.load(open(replay))["cases"] if replay else mix(rnd, tier, scratch, sd)
            cpath = scratch.path("cases%d.jsonl" % k)
            with open(cpath, "w") as f:
                for c in cases:
                    f.write(json.dumps(c) + "\n")
            trace = scratch.path("trace%d.ndjson" % k)
            p, _ = C.run([race, "conc", "-cases", cpath, "-out", trace, "-seed", str(sd), "-workers", "48"], timeout=3000,
                         env=dict(os.environ, GORACE="halt_on_error=0"))
            if "WARNING: DATA RACE" in p.stdout:
                rp = C.write_replay(prop, "DataRace-seed%d" % sd, dict(property=prop, formula="DataRace", seed=sd, report=p.stdout[-12000:]))
                viol[("DataRace",)] = dict(property=prop, formula="DataRace", seed=sd, cases=[], more=0, signature=dict(module="Pool", formula="DataRace"),
                                           what="race detector report on the concurrent mix (seed %d): %s" % (sd, p.stdout[p.stdout.index("WARNING: DATA RACE"):][:500].replace("\n", " | ")), replay_driver="conc")
            elif p.returncode != 0:
                raise C.Infra("conc driver failed:\n" + p.stdout[-3000:])
            if k == 0 and not replay:
                # the proxy's stream pumps: the scripts of Proxy.tla (backends that fail first, clients that wait with the send
                # side open) through a race-built front, eight worlds at once; only race reports are judged here
                from . import proxy as PX
                pcases = [c for c in PX.build_cases(scratch, random.Random(sd), "quick") if not c["wait"]]
                pc, ptr = scratch.path("pcases.jsonl"), scratch.path("ptrace.ndjson")
                with open(pc, "w") as f:
                    for c in pcases:
                        f.write(json.dumps(c) + "\n")
                pp, _ = C.run([race, "proxy", "-cases", pc, "-out", ptr, "-seed", str(sd)], timeout=3000, env=dict(os.environ, GORACE="halt_on_error=0"))
                stat["proxied_calls_race_build"] += len(pcases)
                # (every report of the run is classified: the forwarder's pump running after the forwarder returned - F54, the race
                # detector's view of F51 - is a known finding; any other report is a violation)
                reports = [r for r in pp.stdout.split("==================") if "WARNING: DATA RACE" in r]
                pump = [r for r in reports if "createConnHandler.func1.1" in r and ("serveGRPC.func1" in r or "sync.(*WaitGroup)" in r)]
                for r in pump:
                    kf = C.match_finding(C.load_findings(), prop, dict(module="Proxy", formula="DataRace", site="pump-after-return"))
                    if kf:
                        known[kf["id"]] += 1
                other_reports = [r for r in reports if r not in pump] if C.match_finding(C.load_findings(), prop, dict(module="Proxy", formula="DataRace", site="pump-after-return")) else reports
                if other_reports:
                    C.write_replay(prop, "DataRaceProxy-seed%d" % sd, dict(property=prop, formula="DataRace", seed=sd, report="==================".join(other_reports)[-12000:]))
                    viol[("DataRace", "proxy")] = dict(property=prop, formula="DataRace", seed=sd, cases=[], more=0, signature=dict(module="Proxy", formula="DataRace"),
                                                      what="race detector report on proxied calls (seed %d): %s" % (sd, other_reports[0][other_reports[0].index("WARNING: DATA RACE"):][:500].replace("\n", " | ")),
                                                      replay_driver="proxy")
                elif pp.returncode != 0 and not reports:
                    raise C.Infra("proxy driver (race build) failed:\n" + pp.stdout[-3000:])
                # ... and what the interceptor's stream wrapper noticed: a forwarder that has returned must have stopped
                # using the stream (Proxy.tla NoPumpOutlivesHandler)
                if os.path.exists(ptr) and os.path.getsize(ptr) > 0:
                    prep = C.validate_shards(scratch, "ProxyTrace.tla", "ProxyTrace.cfg", [(ptr, sum(1 for _ in open(ptr)))], timeout=1800)[0]
                    plines_ = open(ptr).read().splitlines()
                    for f in prep["failed"]:
                        if not f[2].startswith("PumpOutlivesHandler"):
                            continue
                        ev = json.loads(plines_[f[1] - 1])
                        s_ = ev["s"]
                        v_ = ev["http"] if f[2].endswith("HTTP") else ev["proxied"]
                        backend_first = (s_["mode"] == "lockstep" and s_["failK"] > 0) or (s_["mode"] == "batch" and s_["failAt"] != "never")
                        sig = dict(module="Proxy", formula="PumpOutlivesHandler", backend_fails=backend_first, shape=s_["shape"])
                        kf = C.match_finding(findings, prop, sig)
                        if kf:
                            known[kf["id"]] += 1
                            continue
                        key = ("PumpOutlivesHandler", s_["shape"], s_["mode"], backend_first)
                        if key in viol:
                            viol[key]["more"] += 1
                            continue
                        viol[key] = dict(property=prop, formula=f[2], seed=sd, cases=[s_], observed=ev, signature=sig, more=0, replay_driver="proxy",
                                         what="%s: proxied %s %s n=%d failAt=%s failK=%d: %d call(s) on the interceptor's stream in progress at or begun after the forwarder's return" % (
                                             f[2], s_["shape"], s_["mode"], s_["n"], s_["failAt"], s_["failK"], v_["ilate"]))
            # ---- a proxied gzip upload whose backend fails while the client is still sending, then another gzip upload (the first
            # call's pump may still be reading its body: nothing of it may reach the second call)
            if not replay and k == 0:
                ot = scratch.path("overlap.ndjson")
                op, _ = C.run([race, "gzoverlap", "-out", ot, "-n", "12" if tier == "quick" else "100"], timeout=1200, env=dict(os.environ, GORACE="halt_on_error=0"))
                oreports = [r for r in op.stdout.split("==================") if "WARNING: DATA RACE" in r]
                opump = [r for r in oreports if "createConnHandler.func1.1" in r and ("serveGRPC.func1" in r or "sync.(*WaitGroup)" in r)]
                okf = C.match_finding(C.load_findings(), prop, dict(module="Proxy", formula="DataRace", site="pump-after-return"))
                if okf:
                    known[okf["id"]] += len(opump)
                    oreports = [r for r in oreports if r not in opump]
                if oreports:
                    viol[("DataRace", "gzoverlap")] = dict(property=prop, formula="DataRace", seed=sd, cases=[], more=0, replay_driver="gzoverlap",
                                                          signature=dict(module="Proxy", formula="DataRace", proto="gzoverlap"),
                                                          what="race detector report in the overlapping gzip uploads: %s" % oreports[0][oreports[0].index("WARNING: DATA RACE"):][:500].replace("\n", " | "))
                elif op.returncode != 0 and "WARNING: DATA RACE" not in op.stdout:
                    raise C.Infra("gzoverlap driver (race build) failed:\n" + op.stdout[-3000:])
                if os.path.exists(ot) and os.path.getsize(ot) > 0:
                    orep = C.validate_shards(scratch, "PoolTrace.tla", "PoolTrace.cfg", [(ot, sum(1 for _ in open(ot)))], timeout=900)[0]
                    olines = open(ot).read().splitlines()
                    stat["overlapping_gzip_uploads"] += len(olines)
                    for f in orep["failed"]:
                        oe = json.loads(olines[f[1] - 1])
                        key = (f[2], "gzoverlap")
                        if key in viol:
                            viol[key]["more"] += 1
                            continue
                        viol[key] = dict(property=prop, formula=f[2], seed=sd, cases=[], more=0, replay_driver="gzoverlap", signature=dict(module="Pool", formula=f[2], proto="gzoverlap"),
                                         what="%s: after a proxied gzip upload whose backend failed (HTTP %s) the next gzip upload sent %s and its backend received %s (HTTP %s) %s" % (
                                             f[2], oe["firststatus"], oe["sent"], oe["got"], oe["status"], oe["crash"][:100]))
            # ---- several backends for one service (a local handler and two connections, each with descriptors of its own),
            # path variables in the bindings, readers only: the serving paths alone under the race detector
            if not replay:
                st = scratch.path("static%d.ndjson" % k)
                sp, _ = C.run([race, "regstress", "-static", "-out", st, "-seed", str(sd), "-dur", "3s" if tier == "quick" else "15s", "-maxreq", "1000"], timeout=1200,
                              env=dict(os.environ, GORACE="halt_on_error=0"))
                stat["multi_backend_race_runs"] += 1
                if "WARNING: DATA RACE" in sp.stdout:
                    viol[("DataRace", "multibackend", sd)] = dict(property=prop, formula="DataRace", seed=sd, cases=[], more=0, replay_driver="regstress",
                                                                 signature=dict(module="Registry", formula="DataRace", proto="multibackend"),
                                                                 what="race detector report while serving a service with three backends (seed %d): %s" % (sd, sp.stdout[sp.stdout.index("WARNING: DATA RACE"):][:500].replace("\n", " | ")))
                elif sp.returncode != 0:
                    raise C.Infra("regstress -static (race build) failed:\n" + sp.stdout[-3000:])
            # split: Rpc events to RpcTrace, Retain events to PoolTrace
            rt, pt = scratch.path("rpc%d.ndjson" % k), scratch.path("pool%d.ndjson" % k)
            with open(rt, "w") as fr, open(pt, "w") as fp:
                for line in open(trace):
                    (fp if line.startswith('{"ev":"Retain"') else fr).write(line)
            shards = C.split_trace(rt, 16, scratch.path("shards%d" % k), lambda l: True)
            by_id = {c["id"]: c for c in cases}
            for r in C.validate_shards(scratch, "RpcTrace.tla", "RpcTrace.cfg", shards, timeout=3000):
                for kk, v in r["stat"].items():
                    stat[kk] += v
                lines = None
                for f in r["failed"]:
                    if f[2] not in ISOLATION and f[2] != "Crash":
                        continue
                    if lines is None:
                        lines = open(r["_shard"]).read().splitlines()
                    ev = json.loads(lines[f[1] - 1])
                    sig = R.sig_of(ev, f[2])
                    kf = C.match_finding(findings, prop, sig)
                    if kf:
                        known[kf["id"]] += 1
                        continue
                    key = (f[2], sig["proto"], sig["shape"], sig["comp"])
                    if key in viol:
                        viol[key]["more"] += 1
                        continue
                    viol[key] = dict(property=prop, formula=f[2], seed=sd, cases=[by_id[f[0]]], observed=ev, signature=sig, more=0, replay_driver="conc",
                                     what="%s under concurrency: %s/%s/%s%s tag=%s recv=%s msgs=%s status=%s %s" % (
                                         f[2], sig["proto"], sig["shape"], sig["codec"], "+" + sig["comp"] if sig["comp"] else "", ev["c"]["tag"],
                                         [(x["idx"], x["equal"], x["err"]) for x in ev["h"]["recv"]][:6], [(x["idx"], x["equal"], x["err"]) for x in ev["cl"]["msgs"]][:6],
                                         ev["cl"]["status"]["code"] if ev["cl"]["status"]["present"] else ev["cl"]["http"], ev["crash"][:80]))
            npool = sum(1 for _ in open(pt))
            if npool:
                pr = C.validate_shards(scratch, "PoolTrace.tla", "PoolTrace.cfg", [(pt, npool)], timeout=1800)[0]
                for kk, v in pr["stat"].items():
                    pstat[kk] += v
                plines = open(pt).read().splitlines()
                for f in pr["failed"]:
                    ev = json.loads(plines[f[1] - 1])
                    sig = dict(module="Pool", formula=f[2], mode=ev["mode"], carry=(ev["len"] % ev["limit"] != 0))
                    kf = C.match_finding(findings, prop, sig)
                    if kf:
                        known[kf["id"]] += 1
                        continue
                    key = (f[2], ev["mode"])
                    if key in viol:
                        viol[key]["more"] += 1
                        continue
                    viol[key] = dict(property=prop, formula=f[2], seed=sd, cases=[by_id[ev["case"]]], observed=ev, signature=sig, more=0, replay_driver="conc",
                                     what="%s: upload of %d bytes, chunk limit %d, reader %s -> %d chunks / %d bytes, stable=%s complete=%s %s" % (
                                         f[2], ev["len"], ev["limit"], ev["mode"], ev["chunks"], ev["bytes"], ev["stable"], ev["concat"], ev["crash"][:80]))
            if not samples:
                with open(trace) as f:
                    for i, line in enumerate(f):
                        if i < 2:
                            e = json.loads(line)
                            samples.append(dict(proto=e["c"]["proto"], shape=e["c"]["shape"], codec=e["c"]["codec"], comp=e["c"]["comp"], sizes=e["c"]["sizes"]) if e["ev"] == "Rpc" else e)
            if replay:
                break
        for fid, n in sorted(known.items()):
            f = next(x for x in findings if x["id"] == fid)
            print("KNOWN-FINDING: property=%s %s (%d observations this run)" % (prop, f["what"], n))
        for i, (key, v) in enumerate(sorted(viol.items(), key=str)):
            if i >= 30:
                break
            rp = C.write_replay(prop, "%s-%d" % (key[0], abs(hash(str(key))) % 100000), v)
            print("VIOLATION property=%s replay=%s  (%s; +%d similar)" % (prop, rp, v["what"][:600], v["more"]))
        nviol = len(viol)
        cov = dict(states=design["states"], transitions=design["transitions"], traces_validated_against_impl=stat["rpcs"] + pstat["retains"],
                   evaluations=stat["rpcs"] + pstat["retains"], distinct_nontrivial=stat["streams"] + pstat["retains"],
                   rule=("per seed one concurrent mix on 48 goroutines under the race detector: streaming / script / limits / metadata families of "
                         "Rpc.tla (HTTP JSON+protobuf with gzip bodies, gRPC and gRPC-web identity+gzip, fragmented reads, truncated bodies), bidi "
                         "calls with payloads straddling the pools' 64-byte initial capacity and the put-back threshold, damaged compressed frames "
                         "in between, and HttpBody uploads (lengths around multiples of the chunk size; plain, data-with-EOF, one-byte and gzip "
                         "readers) whose handlers retain every chunk and re-digest after the mix. Non-trivial = streaming RPCs + uploads."),
                   samples=samples or [dict(note="replay")], exhaustive=False, seeds=nseeds, neg_guards_violated=design.get("neg_guards"),
                   retained_uploads=pstat["retains"], retained_chunks=pstat["chunks"], retained_bytes=pstat["bytes"],
                   **{k: v for k, v in stat.items()}, known_findings=dict(known))
        C.write_evidence(prop, tier, "model_checking", cov,
                         ["isolation is decided per request by RpcTrace with that request's own self-describing payloads; the race detector only "
                          "monitors the schedules these executions happened to take (DESIGN 8)",
                          "the pools are process-global in larking, so separate Mux values per request still share them"],
                         time.time() - t0, nviol)
        print("C13 %s: design states=%d, seeds=%d, concurrent rpcs=%d (streams %d), uploads=%d (%d chunks), violations=%d (classes), known=%d, wall=%.0fs" % (
            tier, design["states"], nseeds, stat["rpcs"], stat["streams"], pstat["retains"], pstat["chunks"], nviol, sum(known.values()), time.time() - t0))
        return 1 if nviol else 0
    finally:
        scratch.cleanup()
