"""C01 / C02: Router.tla design check, case generation, replay through the real Mux,
trace validation with RouterTrace.tla."""
import json, os, time, collections, concurrent.futures as cf
from . import common as C

FORMULAS = {
    "C01": ["Sound"],
    "C02": ["Complete", "LiteralFirst", "OrderIndep"],
}
NEGS = {"VarsSorted": "OrderIndependent", "SlashBeforeVar": "Soundness",
        "RelIndex": "Completeness", "LitFirst": "LiteralWins"}


def el_text(e):
    if e["t"] == "lit":
        return e["v"]
    if e["t"] == "star":
        return "*"
    if e["t"] == "ss":
        return "**"
    return "{" + ".".join(e["fp"]) + "=" + "/".join(el_text(p) for p in e["pat"]) + "}"


def tmpl_text(t):
    return "".join("/" + el_text(x) for x in t["segs"]) + (":" + t["verb"] if t["verb"] else "")


def path_text(p):
    return "".join(t["sep"] + t["seg"] for t in p)


def shape_el(e):
    """Abstract shape of an element: literal texts erased."""
    if e["t"] == "lit":
        return "L"
    if e["t"] == "star":
        return "*"
    if e["t"] == "ss":
        return "**"
    return "{" + ".".join(e["fp"]) + "=" + "/".join(shape_el(p) for p in e["pat"]) + "}"


def shape_tmpl(t):
    return "".join("/" + shape_el(x) for x in t["segs"]) + (":V" if t["verb"] else "")


def design_check(scratch, tier):
    """TLC on the design: mechanism refines the property layer; Neg guards must fail."""
    cfg = "Router_MC.cfg" if tier == "quick" else "Router_MCbig.cfg"
    jobs = {"mc": (cfg,)}
    for n in NEGS:
        jobs["neg-" + n] = ("Router_Neg_%s.cfg" % n,)
    res = {}
    with cf.ThreadPoolExecutor(max_workers=5) as ex:
        futs = {k: ex.submit(C.tlc, scratch, "Router_MC.tla", v[0], 16 if k == "mc" else 2, None,
                             3000 if tier != "quick" else 900, None, None, k) for k, v in jobs.items()}
        for k, f in futs.items():
            res[k] = f.result()
    C.tlc_ok(res["mc"], "Router_MC")
    if C.tlc_violated(res["mc"]):
        raise C.Infra("Router design check reports a violation (specification error):\n" + res["mc"]["out"][-2000:])
    negs = 0
    for n, inv in NEGS.items():
        v = C.tlc_violated(res["neg-" + n])
        if not v or inv not in v:
            raise C.Infra("vacuity guard Router_Neg_%s did not violate %s: %s" % (n, inv, v))
        negs += 1
    return dict(states=res["mc"]["distinct"], transitions=res["mc"]["generated"], neg_guards=negs,
                mc_wall=round(res["mc"]["wall"], 1), mc_cfg=cfg)


def generate_cases(scratch, tier, seed, out_path):
    """Rule sets and derived requests printed by TLC from Router_Gen."""
    cases = []
    seen = set()

    def add(c):
        key = json.dumps(sorted(json.dumps(r, sort_keys=True) for r in c["rules"]))
        if key in seen:
            return
        seen.add(key)
        c["id"] = len(cases) + 1
        cases.append(c)

    res = C.tlc(scratch, "Router_Gen.tla", "Router_Gen.cfg", workers=1, timeout=900, tag="gen")
    C.tlc_ok(res, "Router_Gen")
    for c in C.printed(res["out"], "CASE"):
        add(c)
    n_exh = len(cases)
    # beyond the exhaustive scope: random walks over the 2-element template space
    nsim = 400 if tier == "quick" else 20000
    res2 = C.tlc(scratch, "Router_Gen.tla", "Router_Gen2.cfg", workers=1, timeout=1800,
                 simulate="num=%d" % nsim, depth=4, extra=["-seed", str(seed)], tag="gen2")
    for c in C.printed(res2["out"], "CASE"):
        if len(c["rules"]) >= 2:
            add(c)
    with open(out_path, "w") as f:
        for c in cases:
            f.write(json.dumps(c) + "\n")
    return cases, n_exh


def run(prop, tier, replay=None):
    t0 = time.time()
    seed = C.seed()
    scratch = C.Scratch(prop.lower())
    try:
        harness = C.build_harness(scratch)
        cases_path = scratch.path("cases.jsonl")
        if replay and json.load(open(replay)).get("replay_driver") == "registry":
            from . import registry_chk as RG
            rp = json.load(open(replay))
            rv, _ = RG.method_dispatch_violations(prop, scratch, harness, seed, rp["cases"])
            for key, v in sorted(rv.items(), key=str):
                print("VIOLATION property=%s replay=%s  (%s; +%d similar)" % (prop, C.write_replay(prop, "DispatchMethod-%s-%s" % (key[1], key[2]), v), v["what"], v["more"]))
            print("%s replay: registration histories=1, violations=%d" % (prop, len(rv)))
            return 1 if rv else 0
        if replay:
            rp = json.load(open(replay))
            seed = rp.get("seed", seed)
            with open(cases_path, "w") as f:
                f.write(json.dumps(rp["case"]) + "\n")
            design = dict(states=0, transitions=0, neg_guards=0)
            cases, n_exh = [rp["case"]], 0
        else:
            with cf.ThreadPoolExecutor(max_workers=2) as ex:
                fd = ex.submit(design_check, scratch, tier)
                fg = ex.submit(generate_cases, scratch, tier, seed, cases_path)
                design = fd.result()
                cases, n_exh = fg.result()
        trace = scratch.path("trace.ndjson")
        side = scratch.path("side.jsonl")
        p, dt = C.run([harness, "router", "-cases", cases_path, "-out", trace, "-side", side,
                       "-seed", str(seed), "-tier", tier], timeout=1800)
        if p.returncode != 0:
            raise C.Infra("router driver failed:\n" + p.stdout[-3000:])
        shards = C.split_trace(trace, 16, scratch.path("shards"), lambda l: l.startswith('{"ev":"Reset"'))
        reps = C.validate_shards(scratch, "RouterTrace.tla", "RouterTrace.cfg", shards, timeout=(1500 if tier == "quick" else 9000))
        stat = collections.Counter()
        failed = []
        for r in reps:
            for k, v in r["stat"].items():
                stat[k] += v
            for f in r["failed"]:
                failed.append((r["_shard"], f[0], f[1], f[2]))
        by_id = {c["id"]: c for c in cases}
        sides = {}
        with open(side) as f:
            for line in f:
                d = json.loads(line)
                sides[d["case"]] = d
        # judge this property's formulas only
        mine = [f for f in failed if f[3] in FORMULAS[prop]]
        others = collections.Counter(f[3] for f in failed if f[3] not in FORMULAS[prop])
        findings = C.load_findings()
        shard_lines = {}
        viol = {}
        known = collections.Counter()
        for sh, case, line, formula in mine:
            if sh not in shard_lines:
                shard_lines[sh] = open(sh).read().splitlines()
            ev = json.loads(shard_lines[sh][line - 1])
            k = line - 1
            while not shard_lines[sh][k].startswith('{"ev":"Reset"'):
                k -= 1
            rs = json.loads(shard_lines[sh][k])
            sig = dict(module="Router", formula=formula,
                       shapes=sorted(set(shape_tmpl(r["tmpl"]) for r in rs["rules"][:rs["nuser"]])),
                       path_has_colon=any(t["sep"] == ":" for t in ev["path"]),
                       outcome=ev["outs"][0]["k"])
            kf = C.match_finding(findings, prop, sig)
            if kf:
                known[kf["id"]] += 1
                continue
            key = (case, formula)
            if key in viol:
                viol[key]["more"] += 1
                continue
            viol[key] = dict(property=prop, formula=formula, seed=seed, case=by_id.get(case),
                             rules=[r["kind"] + " " + tmpl_text(r["tmpl"]) + " -> " + r["m"] for r in rs["rules"]],
                             request=ev["kind"] + " " + path_text(ev["path"]) + ((" [with query: " + ev["qnote"] + "]") if ev.get("qnote") else ""),
                             observed=ev["outs"],
                             registration=dict(mode=rs["mode"], src=rs["src"], orders=rs["orders"]),
                             signature=sig, more=0, replay_driver="router")
        reg_requests = 0
        reg_viol = {}
        if prop == "C01" and not replay:
            # the same clause after RegisterConn / DropConn / re-registration: the handler that answers is the one of the
            # method owning the matching rule
            from . import registry_chk as RG
            reg_viol, reg_requests = RG.method_dispatch_violations(prop, scratch, harness, seed)
            for key, v in sorted(reg_viol.items(), key=str):
                print("VIOLATION property=%s replay=%s  (%s; +%d similar)" % (prop, C.write_replay(prop, "DispatchMethod-%s-%s" % (key[1], key[2]), v), v["what"], v["more"]))
        if prop == "C01" and not replay:
            # ... and after a re-registration with CHANGED rules (RegRev.tla): a binding of the revision that is gone must not route
            from . import registry_chk as RG2
            rv, _rs = RG2.rev_violations(prop, tier, scratch, harness, seed)
            for key, v in sorted(rv.items(), key=str):
                reg_viol[("rev",) + tuple(str(k) for k in key)] = v
                print("VIOLATION property=%s replay=%s  (%s; +%d similar)" % (prop, C.write_replay(prop, "RegRev-%d" % (abs(hash(str(key))) % 100000), v), v["what"][:400], v["more"]))
        ws_sessions = 0
        if prop == "C01" and not replay:
            # "routing sets no other field", on a stream: the path variable of a WebSocket binding sets its field on the first
            # message of the session and on no later one (WsSession engine, binding /wp/{t}/bidi)
            from . import wssession as WS
            wv, wstat, _ = WS.violations(prop, tier, scratch, harness, seed)
            ws_sessions = wstat["sessions"]
            for key, v in sorted(wv.items(), key=str):
                reg_viol[("ws",) + tuple(str(k) for k in key)] = v
                print("VIOLATION property=%s replay=%s  (%s; +%d similar)" % (prop, C.write_replay(prop, "wssession-%d" % (abs(hash(str(key))) % 100000), v), v["what"], v["more"]))
        nviol = 0
        for fid, n in sorted(known.items()):
            f = next(x for x in findings if x["id"] == fid)
            print("KNOWN-FINDING: property=%s %s (%d observations this run)" % (prop, f["what"], n))
        for (case, formula), v in sorted(viol.items(), key=lambda kv: (kv[0][1], kv[0][0]))[:25]:
            rp = C.write_replay(prop, "%s-case%d-seed%d" % (formula, case, seed), v)
            print("VIOLATION property=%s replay=%s  (%s: %s with rules %s -> %s)" % (
                prop, rp, formula, v["request"], v["rules"][:v["registration"] and 3],
                [(o["k"], o["m"], o["status"]) for o in v["observed"]]))
            nviol += 1
        nviol = len(viol) + len(reg_viol)
        samples = []
        for cid in list(sides)[:3]:
            samples.append(dict(rules=sides[cid].get("rules"), requests=(sides[cid].get("reqs") or [])[:6]))
        nontrivial = {"C01": stat["dispatch"], "C02": stat["must"]}[prop]
        cov = dict(
            states=design["states"], transitions=design["transitions"],
            traces_validated_against_impl=stat["cases"],
            evaluations=stat["lookups"], distinct_nontrivial=nontrivial,
            rule=("rule sets: every sequence of <=2 rules over 1-element templates (exhaustive, TLC BFS, %d sets) plus "
                  "TLC -simulate walks over 2-element templates; requests: every instantiation of every template and every "
                  "single-edit near miss of one instantiation, for each request kind; each registered in all orders on real "
                  "muxes. Non-trivial for C01 = lookups that were dispatched (soundness antecedent holds); for C02 = lookups "
                  "for which some rule matches strictly with convertible captures (completeness antecedent holds).") % n_exh,
            samples=samples, exhaustive=False, requests_after_registration_histories=reg_requests,
            neg_guards_violated=design.get("neg_guards"), design_cfg=design.get("mc_cfg"),
            rule_sets=stat["cases"], rule_sets_rejected_by_registration=stat["rejectedSets"],
            order_dependent_acceptance=stat["skippedOrderDep"], literal_precedence_cases=stat["litcases"],
            crashed_lookups_left_to_C09=stat["panics"], mechanism_drift=stat["drift"],
            other_formulas_rejected=dict(others), known_findings=dict(known))
        C.write_evidence(prop, tier, "model_checking", cov,
                         ["google.api.http matching as formalised in spec/Template.tla (strict reading demands, lenient reading accuses)",
                          "net/http, httptest, protobuf-go dynamic messages are trusted",
                          "registration rejections are C16's business; crashes are C09's"],
                         time.time() - t0, nviol)
        print("%s %s: design states=%d, rule sets=%d, lookups=%d, nontrivial=%d, violations=%d, known=%d, wall=%.0fs" % (
            prop, tier, design["states"], stat["cases"], stat["lookups"], nontrivial, nviol, sum(known.values()), time.time() - t0))
        return 1 if nviol else 0
    finally:
        scratch.cleanup()
