"""C19: Selector.tla design check; TLC-generated selector sets bound to method names on real muxes
(SelectorTrace.tla); config-vs-annotation equivalence on the Router pipeline (RouterTrace formula
ConfigEqAnnot); healthz scenario against the real grpc health server."""
import json, os, time, collections, concurrent.futures as cf
from . import common as C
from . import router as R


def design_check(scratch, tier):
    mc = C.tlc(scratch, "Selector.tla", "Selector_MC.cfg", workers=8, timeout=900, tag="smc")
    C.tlc_ok(mc, "Selector_MC")
    if C.tlc_violated(mc):
        raise C.Infra("Selector design check violated:\n" + mc["out"][-2000:])
    neg = C.tlc(scratch, "Selector.tla", "Selector_Neg_Shared.cfg", workers=2, timeout=600, tag="sneg")
    v = C.tlc_violated(neg)
    if not v or "SelectorIff" not in v:
        raise C.Infra("vacuity guard Selector_Neg_Shared did not violate SelectorIff")
    return dict(states=mc["distinct"], transitions=mc["generated"], neg_guards=1)


def run(prop, tier, replay=None):
    t0 = time.time()
    seed = C.seed()
    scratch = C.Scratch("c19")
    try:
        harness = C.build_harness(scratch)
        spath = scratch.path("selcases.jsonl")
        rpath = scratch.path("rcases.jsonl")
        nhealth = 30 if tier == "quick" else 400
        if replay:
            rp = json.load(open(replay))
            seed = rp.get("seed", seed)
            design = dict(states=0, transitions=0, neg_guards=0)
            open(spath, "w").write(json.dumps(rp["case"]) + "\n" if rp.get("replay_driver") == "selector" else "")
            open(rpath, "w").write(json.dumps(rp["case"]) + "\n" if rp.get("replay_driver") == "router" else "")
            rcases = [rp["case"]] if rp.get("replay_driver") == "router" else []
            if rp.get("replay_driver") != "healthz":
                nhealth = 0
        else:
            with cf.ThreadPoolExecutor(max_workers=3) as ex:
                fd = ex.submit(design_check, scratch, tier)
                fg = ex.submit(C.tlc, scratch, "Selector_Gen.tla", "Selector_Gen.cfg" if tier == "quick" else "Selector_Gen3.cfg", 1, None, 900, None, None, "sgen")
                fr = ex.submit(R.generate_cases, scratch, "quick", seed, scratch.path("allrouter.jsonl"))
                design = fd.result()
                g = fg.result()
                allr, _ = fr.result()
            C.tlc_ok(g, "Selector_Gen")
            with open(spath, "w") as f:
                for c in C.printed(g["out"], "CASE"):
                    f.write(json.dumps(c) + "\n")
            # config-vs-annotation: every single-rule set and a seeded sample of the others
            import random
            rnd = random.Random(seed)
            rcases = [c for c in allr if len(c["rules"]) == 1] + rnd.sample([c for c in allr if len(c["rules"]) > 1], 300 if tier == "quick" else 2000)
            with open(rpath, "w") as f:
                for c in rcases:
                    f.write(json.dumps(c) + "\n")
        failed = []
        stat = collections.Counter()
        strace = scratch.path("seltrace.ndjson")
        p, _ = C.run([harness, "selector", "-cases", spath, "-out", strace, "-seed", str(seed), "-n", str(nhealth)], timeout=1800)
        if p.returncode != 0:
            raise C.Infra("selector driver failed:\n" + p.stdout[-3000:])
        if os.path.getsize(strace) > 0:
            shards = C.split_trace(strace, 8, scratch.path("selshards"), lambda l: l.startswith('{"ev":"Sel"') or l.startswith('{"ev":"HReset"'))
            for r in C.validate_shards(scratch, "SelectorTrace.tla", "SelectorTrace.cfg", shards):
                for k, v in r["stat"].items():
                    stat[k] += v
                for f in r["failed"]:
                    failed.append(("selector", r["_shard"], f[0], f[1], f[2]))
        rstat = collections.Counter()
        if rcases:
            rtrace = scratch.path("rtrace.ndjson")
            p, _ = C.run([harness, "router", "-cases", rpath, "-out", rtrace, "-side", scratch.path("rside.jsonl"), "-seed", str(seed)], timeout=1800)
            if p.returncode != 0:
                raise C.Infra("router driver failed:\n" + p.stdout[-3000:])
            shards = C.split_trace(rtrace, 16, scratch.path("rshards"), lambda l: l.startswith('{"ev":"Reset"'))
            for r in C.validate_shards(scratch, "RouterTrace.tla", "RouterTrace.cfg", shards):
                for k, v in r["stat"].items():
                    rstat[k] += v
                for f in r["failed"]:
                    if f[2] == "ConfigEqAnnot":
                        failed.append(("router", r["_shard"], f[0], f[1], f[2]))
        findings = C.load_findings()
        rby = {c["id"]: c for c in rcases}
        cache = {}
        viol = {}
        known = collections.Counter()
        for src, sh, case, line, formula in failed:
            if formula == "Panic":
                continue   # C09's
            if sh not in cache:
                cache[sh] = open(sh).read().splitlines()
            ev = json.loads(cache[sh][line - 1])
            if src == "selector" and ev["ev"] == "Sel":
                sels = [".".join(s["path"]) + (".*" if s["wild"] and s["path"] else "*" if s["wild"] else "") for s in ev["sels"]]
                kinds = sorted(set(("wild" if s["wild"] else "exact") + ("-proper-prefix" if len(s["path"]) < len(ev["target"]) else "-full" if len(s["path"]) == len(ev["target"]) else "-longer") for s in ev["sels"]))
                sig = dict(module="Selector", formula=formula, selector_kinds=kinds)
                what = "%s: selectors %s target %s bound %s (%s%s)" % (formula, sels, ".".join(ev["target"]), ev["bound"],
                                                                     ["FilesOption then ServiceConfigOption", "ServiceConfigOption then FilesOption", "RegisterConn, descriptors by reflection"][(ev.get("v", 0) // 2) % 3],
                                                                     ", method annotated on the template of one of the rules" if ev.get("v", 0) % 2 else "")
                rcase, drv = dict(id=ev["case"], sels=ev.get("orig") or ev["sels"]), "selector"
            elif src == "selector":
                sig = dict(module="Healthz", formula=formula)
                what = "healthz: Check(%r) -> http %s status %s" % (ev["service"], ev["http"], ev["status"])
                rcase, drv = dict(), "healthz"
            else:
                sig = dict(module="Router", formula=formula)
                what = "config and annotation differ: %s %s" % (ev.get("kind"), R.path_text(ev.get("path", [])))
                rcase, drv = rby.get(case), "router"
            kf = C.match_finding(findings, prop, sig)
            if kf:
                known[kf["id"]] += 1
                continue
            key = (src, case, formula)
            if key not in viol:
                viol[key] = dict(property=prop, formula=formula, seed=seed, case=rcase, observed=ev, signature=sig, what=what, replay_driver=drv)
        if not replay or json.load(open(replay)).get("replay_driver") == "wssession":
            # a WEBSOCKET binding with a response_body, declared through the service configuration: each frame the client
            # gets is the selected field of the reply (WsSession engine, binding /wr/bidi)
            from . import wssession as WS
            wv, wstat, _ = WS.violations(prop, tier, scratch, harness, seed, json.load(open(replay))["cases"] if replay else None)
            for key, v in wv.items():
                v["replay_driver"] = "wssession"
                viol[("wssession", abs(hash(str(key))) % 100000, "WsEcho")] = v
        for fid, n in sorted(known.items()):
            f = next(x for x in findings if x["id"] == fid)
            print("KNOWN-FINDING: property=%s %s (%d observations this run)" % (prop, f["what"], n))
        for i, (key, v) in enumerate(sorted(viol.items(), key=str)):
            if i >= 20:
                break
            rp = C.write_replay(prop, "%s-%s%d-seed%d" % (key[2], key[0], key[1], seed), v)
            print("VIOLATION property=%s replay=%s  (%s)" % (prop, rp, v["what"]))
        nviol = len(viol)
        samples = []
        with open(strace) as f:
            for i, line in enumerate(f):
                if i in (0, 7, 4000):
                    samples.append(json.loads(line))
        cov = dict(states=design["states"], transitions=design["transitions"],
                   traces_validated_against_impl=stat["cases"] + rstat["cases"] + nhealth,
                   evaluations=stat["pairs"] + rstat["lookups"] + stat["hchecks"],
                   distinct_nontrivial=stat["mustBind"],
                   rule=("selector sets (size<=2 quick, <=3 thorough) from every prefix of every method name, exact and wildcard, '*', and "
                         "unrelated names, enumerated by TLC; each set x 6 target methods on a real mux; non-trivial = (selector, method) "
                         "pairs that must bind. Plus config-vs-annotation on %d router rule sets and %d healthz sequences." % (rstat["cases"], nhealth)),
                   samples=samples or [dict(note="replay")], exhaustive=True,
                   selector_method_pairs=stat["pairs"], bound=stat["bound"], registration_errors=stat["regErrors"],
                   healthz_sets=stat["hsets"], healthz_checks=stat["hchecks"], healthz_ws_watches=stat["hwatches"],
                   config_vs_annotation_lookups=rstat["lookups"], neg_guards_violated=design.get("neg_guards"), known_findings=dict(known))
        C.write_evidence(prop, tier, "model_checking", cov,
                         ["selector semantics of google.api (trailing wildcard covers one or more components) as in spec/Selector.tla",
                          "grpc-go health server is trusted; malformed selectors (a.*.b) are unspecified"],
                         time.time() - t0, nviol)
        print("C19 %s: design states=%d, selector pairs=%d (must bind %d), cfg-vs-annot lookups=%d, healthz checks=%d, violations=%d, known=%d, wall=%.0fs" % (
            tier, design["states"], stat["pairs"], stat["mustBind"], rstat["lookups"], stat["hchecks"], nviol, sum(known.values()), time.time() - t0))
        return 1 if nviol else 0
    finally:
        scratch.cleanup()
