"""./check selftest: shows that the trace specifications bind.  For a few engines a small accepted trace is recorded from
the real code, then one logged field is corrupted (or one observation deleted) and the trace specification must reject
exactly that line with the expected formula.  A corruption that is still accepted means the specification does not
constrain that field: exit 2 (infrastructure - the machinery is not to be trusted), never a verdict about larking.
(The other half of DESIGN 4.5 - source mutations that the quick checks must report - is tools/selftest_mutants.sh over
seeded/.)"""
import json, copy
from . import common as C


def _validate(scratch, module, cfg, events, tag):
    p = scratch.path("st-%s.ndjson" % tag)
    with open(p, "w") as f:
        for e in events:
            f.write(json.dumps(e) + "\n")
    rep = C.validate_shards(scratch, module, cfg, [(p, len(events))], timeout=900)[0]
    return {(f[1], f[2]) for f in rep["failed"]}   # (line, formula)


def _engine(scratch, name, module, cfg, events, corruptions):
    """corruptions: list of (description, line (1-based), mutate(event) -> None, expected formula)"""
    base = _validate(scratch, module, cfg, events, name + "-base")
    if base:
        raise C.Infra("selftest %s: the uncorrupted trace is rejected: %s" % (name, sorted(base)[:5]))
    ok = 0
    for k, (desc, line, mut, want) in enumerate(corruptions):
        evs = copy.deepcopy(events)
        mut(evs[line - 1])
        got = _validate(scratch, module, cfg, evs, "%s-c%d" % (name, k))
        if (line, want) not in got:
            raise C.Infra("selftest %s: corruption '%s' at line %d was not rejected by %s (rejected: %s)" % (name, desc, line, want, sorted(got)[:6]))
        if any(l != line for l, _ in got):
            raise C.Infra("selftest %s: corruption '%s' at line %d made other lines fail: %s" % (name, desc, line, sorted(got)[:6]))
        ok += 1
    print("selftest %-10s %d events accepted, %d corruptions each rejected at its line" % (name, len(events), ok))
    return ok


def _drive(scratch, harness, driver, cases, tag, extra=()):
    cp, tp = scratch.path("st-%s-cases.jsonl" % tag), scratch.path("st-%s-trace.ndjson" % tag)
    with open(cp, "w") as f:
        for c in cases:
            f.write(json.dumps(c) + "\n")
    p, _ = C.run([harness, driver, "-cases", cp, "-out", tp, "-seed", "1"] + list(extra), timeout=900)
    if p.returncode != 0:
        raise C.Infra("selftest: %s driver failed:\n%s" % (driver, p.stdout[-2000:]))
    return [json.loads(l) for l in open(tp)]


def run(tier="quick"):
    scratch = C.Scratch("selftest")
    try:
        harness = C.build_harness(scratch)
        total = 0
        # ---- WsSession
        ws_cases = [dict(id=1, frames=["T", "Ts", "Cm", "Ce", "Cl1000"], opts=[], bind=""),
                    dict(id=2, frames=["T", "Pi", "T"], opts=[], bind=""),
                    dict(id=3, frames=["T", "T", "Cl1000"], opts=[], bind="pathvar")]
        evs = sorted(_drive(scratch, harness, "wssession", ws_cases, "ws"), key=lambda e: e["case"])
        if any(e["readend"] != "eof" for e in evs):
            raise C.Infra("selftest WsSession: a session was not read to its end")

        def drop_first_text(e):
            e["srv"] = [s for i, s in enumerate(e["srv"]) if not (s["k"] == "text" and i == [j for j, t in enumerate(e["srv"]) if t["k"] == "text"][0])]
        total += _engine(scratch, "WsSession", "WsSessionTrace.tla", "WsSessionTrace.cfg", evs, [
            ("a received message differs from the message sent", 1, lambda e: e["recv"][1].update(same=False), "WsRecvSeq"),
            ("a received message is missing", 1, lambda e: e["recv"].pop(0), "WsRecvSeq"),
            ("a clean close reported as an error", 1, lambda e: e["recv"][-1].update(k="err"), "WsEnd"),
            ("the end is not latched", 3, lambda e: e.update(latched=False), "WsLatched"),
            ("an echo is missing", 2, drop_first_text, "WsEcho"),
            ("a pong is missing", 2, lambda e: e.update(srv=[s for s in e["srv"] if s["k"] != "pong"]), "WsPong"),
            ("the close code after a clean end is 1008", 3, lambda e: e["srv"][-1].update(code=1008), "WsClose"),
            ("the handler panicked", 2, lambda e: e.update(crash="panic: x"), "Crash"),
        ])
        # ---- RegRev
        evs = _drive(scratch, harness, "regrev", [dict(id=1, ops=["register", "bump", "register", "drop"])], "rev")

        def probe(e, bind, **kw):
            next(p for p in e["probes"] if p["bind"] == bind).update(**kw)
        total += _engine(scratch, "RegRev", "RegRevTrace.tla", "RegRevTrace.cfg", evs, [
            ("a live binding answers 404", 3, lambda e: probe(e, "new", k="notfound", by="", meth=""), "NoFalseUnimplemented"),
            ("a binding of the revision that is gone is served", 3, lambda e: probe(e, "oldGet", k="served", by="cv", meth="/vg.C/m1"), "DispatchLive"),
            ("a dropped connection still serves", 4, lambda e: probe(e, "implicit", k="served", by="cv", meth="/vg.C/m1"), "DispatchLive"),
            ("DropConn reports false for a registered connection", 4, lambda e: e.update(ok=False), "OpResult"),
        ])
        # ---- Mount
        mcase = dict(patterns=[dict(segs=["x"], slash=True)], extras=[dict(pat=dict(segs=["metrics"], slash=False), tag="metrics", host="", meth="")])
        evs = _drive(scratch, harness, "mount", [mcase], "mount")
        i_mux = next(i for i, e in enumerate(evs) if e["bares"] and e["path"][:1] == ["x"]) + 1
        i_extra = next(i for i, e in enumerate(evs) if e["gottag"] == "metrics") + 1
        i_out = next(i for i, e in enumerate(evs) if e["gottag"] == "servemux404") + 1
        total += _engine(scratch, "Mount", "MountTrace.tla", "MountTrace.cfg", evs, [
            ("the mounted response differs from the bare mux's", i_mux, lambda e: e.update(got="0000000000000000"), "PrefixTransparent"),
            ("the extra handler's request was answered by someone else", i_extra, lambda e: e.update(gottag=""), "ExtraHandlersKept"),
            ("a path outside every prefix was served", i_out, lambda e: e.update(gottag=""), "OutsideNotServed"),
        ])
        # ---- Pool (HttpBody uploads)
        evs = _drive(scratch, harness, "conc", [dict(fam="upload", id=1, len=100, limit=16, mode="broken"), dict(fam="upload", id=2, len=40, limit=16, mode="plain")], "pool",
                     extra=("-workers", "2"))
        evs = sorted(evs, key=lambda e: e["case"])
        total += _engine(scratch, "Pool", "PoolTrace.tla", "PoolTrace.cfg", evs, [
            ("an upload that broke off ended cleanly for the handler", 1, lambda e: e.update(end="eof"), "BrokenUploadIsError"),
            ("a complete upload arrived incomplete", 2, lambda e: e.update(concat=False), "UploadComplete"),
            ("a chunk larger than the limit", 2, lambda e: e.update(overlimit=True), "ChunkLimit"),
            ("a retained chunk changed afterwards", 2, lambda e: e.update(stable=False), "RetainedStable"),
        ])
        print("selftest: %d corruptions, all rejected" % total)
        return 0
    finally:
        scratch.cleanup()
