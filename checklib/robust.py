"""C09: Entry.tla (the guards of the three entry functions as a step machine; every request is answered, exactly once,
with a shape that is a function of the request class) model-checked with TLC; every abstract request concretised and
sent through the real Mux under each option subset and compared with Entry!Resp by RobustTrace.tla; the generated
adversarial neighbourhood of valid traffic (paths, queries, headers, bodies, frames, byte-level mutants) and WebSocket
sessions over real sockets judged for NoCrash / NoHang / well-formed answers; plus the crash formulas of the router and
rpc traces (rule sets from Router_Gen, out-of-range status codes, limits)."""
import json, os, time, random, collections, concurrent.futures as cf
from . import common as C
from . import router as R
from . import rpc as RPC

FORMULAS = ["NoCrash", "NoHang", "EntryShape", "StatusLine", "FramesWhole", "WsFrames"]


def design_check(scratch):
    with cf.ThreadPoolExecutor(max_workers=2) as ex:
        f1 = ex.submit(C.tlc, scratch, "Entry.tla", "Entry_MC.cfg", 4, None, 900, None, None, "emc")
        f2 = ex.submit(C.tlc, scratch, "Entry.tla", "Entry_Neg_GrpcFirst.cfg", 2, None, 900, None, None, "eneg")
        mc, neg = f1.result(), f2.result()
    C.tlc_ok(mc, "Entry_MC")
    if C.tlc_violated(mc):
        raise C.Infra("Entry design check violated (specification error):\n" + mc["out"][-2000:])
    v = C.tlc_violated(neg)
    if not v or "WebServed" not in v:
        raise C.Infra("vacuity guard Entry_Neg_GrpcFirst did not violate WebServed")
    return dict(states=mc["distinct"], transitions=mc["generated"], neg_guards=1)


def entry_cases(scratch, path):
    g = C.tlc(scratch, "Entry_Gen.tla", "Entry_Gen.cfg", workers=1, timeout=900, tag="egen")
    C.tlc_ok(g, "Entry_Gen")
    cases = list(C.printed(g["out"], "ENTRY"))
    if len(cases) < 1000:
        raise C.Infra("Entry_Gen produced %d cases" % len(cases))
    with open(path, "w") as f:
        for c in cases:
            f.write(json.dumps(c) + "\n")
    return len(cases)


def sig_of(ev, formula, side):
    crash = ev.get("crash", "")
    return dict(module="Entry", formula=formula, ev=ev["ev"], entry=ev["entry"], crash=crash[:60],
                want=(ev.get("want") or {}).get("class"), path=(side or {}).get("path"))


def run(prop, tier, replay=None):
    try:
        return _run(prop, tier, replay)
    except C.Infra as e:
        # a driver process that died of a panic raised inside larking (a goroutine no request wrapper can guard: the
        # forwarder's pump, say) is the server crashing - C09's business, not an infrastructure failure
        why = C.larking_panic(str(e))
        if why is None:
            raise
        rp = C.write_replay(prop, "ProcessCrash", dict(property=prop, formula="ProcessCrash", seed=C.seed(), what=why, report=str(e)[-6000:], replay_driver="none"))
        print("VIOLATION property=%s replay=%s  (ProcessCrash: a driver process was killed by a panic inside larking: %s)" % (prop, rp, why))
        return 1


def _run(prop, tier, replay=None):
    t0 = time.time()
    seed = C.seed()
    rnd = random.Random(seed)
    scratch = C.Scratch("c09")
    try:
        harness = C.build_harness(scratch)
        trace, sidep = scratch.path("hostile.ndjson"), scratch.path("side.jsonl")
        other = collections.Counter()
        other_fail = []
        if replay and json.load(open(replay)).get("replay_driver") == "proxy":
            from . import proxy as PX
            rp = json.load(open(replay))
            pv, ncalls = PX.hang_violations(prop, tier, scratch, harness, rp.get("seed", seed), only_cases=rp["cases"])
            for key, v in sorted(pv.items(), key=str):
                path = C.write_replay(prop, "proxy-%d" % (abs(hash(str(key))) % 100000), v)
                print("VIOLATION property=%s replay=%s  (%s; +%d similar)" % (prop, path, v["what"], v["more"]))
            print("C09 replay: proxied calls=%d, violations=%d" % (ncalls, len(pv)))
            return 1 if pv else 0
        if replay and json.load(open(replay)).get("replay_driver") == "wssession":
            from . import wssession as WS
            rp = json.load(open(replay))
            wv, wstat, _ = WS.violations(prop, tier, scratch, harness, rp.get("seed", seed), rp["cases"])
            for key, v in sorted(wv.items(), key=str):
                path = C.write_replay(prop, "wssession-%d" % (abs(hash(str(key))) % 100000), v)
                print("VIOLATION property=%s replay=%s  (%s; +%d similar)" % (prop, path, v["what"], v["more"]))
            print("C09 replay: WebSocket sessions=%d, violations=%d" % (wstat["sessions"], len(wv)))
            return 1 if wv else 0
        if replay:
            rp = json.load(open(replay))
            design = dict(states=0, transitions=0, neg_guards=0)
            rfile = scratch.path("replay.jsonl")
            with open(rfile, "w") as f:
                for j in rp["cases"]:
                    f.write(json.dumps(j) + "\n")
            cmd = [harness, "hostile", "-replay", rfile, "-out", trace, "-side", sidep]
            nentry = 0
        else:
            with cf.ThreadPoolExecutor(max_workers=2) as ex:
                fd = ex.submit(design_check, scratch)
                fe = ex.submit(entry_cases, scratch, scratch.path("entry.jsonl"))
                design, nentry = fd.result(), fe.result()
            n = 8000 if tier == "quick" else 400000
            cmd = [harness, "hostile", "-n", str(n), "-cases", scratch.path("entry.jsonl"), "-out", trace, "-side", sidep, "-seed", str(seed)]
        p, _ = C.run(cmd, timeout=6000)
        if p.returncode != 0:
            raise C.Infra("hostile driver failed:\n" + p.stdout[-3000:])
        shards = C.split_trace(trace, 16, scratch.path("shards"), lambda l: True)
        reps = C.validate_shards(scratch, "RobustTrace.tla", "RobustTrace.cfg", shards, timeout=6000)
        stat = collections.Counter()
        failed = []
        for r in reps:
            stat.update(r["stat"])
            for f in r["failed"]:
                failed.append((r["_shard"], f[0], f[1], f[2]))
        side = {}
        if failed:
            for line in open(sidep):
                j = json.loads(line)
                side[j["case"]] = j
        findings = C.load_findings()
        viol, known = {}, collections.Counter()
        cache = {}
        for sh, case, line, formula in failed:
            if sh not in cache:
                cache[sh] = open(sh).read().splitlines()
            ev = json.loads(cache[sh][line - 1])
            if formula == "Infra":
                raise C.Infra("hostile driver could not reach its own server: %s" % ev["crash"])
            if formula == "drift":
                raise C.Infra("the abstract answer carried by the driver differs from Entry!Resp: %s" % json.dumps(ev)[:600])
            if formula not in FORMULAS:
                continue
            sig = sig_of(ev, formula, side.get(case))
            kf = C.match_finding(findings, prop, sig)
            if kf:
                known[kf["id"]] += 1
                continue
            key = (formula, ev["ev"], ev["entry"], ev.get("crash", "")[:60], (ev.get("want") or {}).get("class"),
                   ev.get("desc", "").split(" ")[0] if ev["ev"] == "Hostile" else "")
            if key in viol:
                viol[key]["more"] += 1
                continue
            viol[key] = dict(property=prop, formula=formula, seed=seed, cases=[side.get(case)], observed=ev, signature=sig, more=0,
                             replay_driver="hostile",
                             what="%s: %s %s opts=[%s] -> status %s ct=%s grpc-status=%s invoked=%s %s%s" % (
                                 formula, ev["ev"], ev.get("desc", "")[:120], ev["opts"], ev["status"], ev.get("ct"), ev.get("grpcstatus"),
                                 ev.get("invoked"), ("want " + json.dumps(ev["want"]) + " for " + json.dumps(ev["rq"]) + " ") if ev.get("want") else "",
                                 ("CRASH " + ev["crash"][:200]) if ev.get("crash") else (" frames " + str(ev.get("frames"))[:200] if ev["ev"] == "Ws" else "")))
        # ---- crash formulas of the other traces: rule sets from Router_Gen, out-of-range codes and limits in rpc
        if not replay:
            rcases = scratch.path("rcases.jsonl")
            allr, _ = R.generate_cases(scratch, "quick", seed, rcases)
            rtrace = scratch.path("rtrace.ndjson")
            p, _ = C.run([harness, "router", "-cases", rcases, "-out", rtrace, "-side", scratch.path("rside.jsonl"), "-seed", str(seed)], timeout=3000)
            if p.returncode != 0:
                raise C.Infra("router driver failed:\n" + p.stdout[-3000:])
            rsh = C.split_trace(rtrace, 16, scratch.path("rshards"), lambda l: l.startswith('{"ev":"Reset"'))
            for r in C.validate_shards(scratch, "RouterTrace.tla", "RouterTrace.cfg", rsh):
                other["router_sets"] += r["stat"].get("cases", 0)
                other["router_lookups"] += r["stat"].get("lookups", 0)
                for f in r["failed"]:
                    if f[2] in ("Panic", "RegPanic"):
                        other_fail.append(("router", r["_shard"], f[0], f[1], f[2]))
            cases = RPC.fam_status(rnd, "quick") + RPC.fam_limits(rnd, "quick")
            for i, c in enumerate(cases):
                c["id"] = i + 1
                c.setdefault("h2", c["proto"] != "grpc" and i % 3 == 1)
            cpath, ptrace = scratch.path("rpccases.jsonl"), scratch.path("rpctrace.ndjson")
            with open(cpath, "w") as f:
                for c in cases:
                    f.write(json.dumps(c) + "\n")
            p, _ = C.run([harness, "rpc", "-cases", cpath, "-out", ptrace, "-seed", str(seed)], timeout=3000)
            if p.returncode != 0:
                raise C.Infra("rpc driver failed:\n" + p.stdout[-3000:])
            psh = C.split_trace(ptrace, 16, scratch.path("pshards"), lambda l: True)
            for r in C.validate_shards(scratch, "RpcTrace.tla", "RpcTrace.cfg", psh, timeout=3000):
                other["rpcs"] += r["stat"].get("rpcs", 0)
                for f in r["failed"]:
                    if f[2] == "Crash":
                        other_fail.append(("rpc", r["_shard"], f[0], f[1], f[2]))
            # ---- the transcoding cases of C03 (valid and invalid values, body framings, a mux configured with a newer
            # revision of the messages than its handlers): only crashes are judged here
            from . import transcode as TC
            tcases = TC.req_cases("C03", TC.gen_abstract(scratch), rnd, "quick")
            for i, c in enumerate(tcases):
                c["id"] = i + 1
            tpath, ttrace = scratch.path("tcases.jsonl"), scratch.path("ttrace.ndjson")
            with open(tpath, "w") as f:
                for c in tcases:
                    f.write(json.dumps(c) + "\n")
            p, _ = C.run([harness, "transcode", "-cases", tpath, "-out", ttrace, "-seed", str(seed)], timeout=3000)
            if p.returncode != 0:
                raise C.Infra("transcode driver failed:\n" + p.stdout[-3000:])
            tby = {c["id"]: c for c in tcases}
            for line in open(ttrace):
                ev = json.loads(line)
                other["transcode_cases"] += 1
                if ev.get("crash") and not ev["crash"].startswith("setup") and not ev["crash"].startswith("driver"):
                    sig = dict(module="Transcode", formula="NoCrash", crash=ev["crash"][:60])
                    kf = C.match_finding(findings, prop, sig)
                    if kf:
                        known[kf["id"]] += 1
                        continue
                    key = ("NoCrash", "transcode", ev["crash"][:60])
                    if key in viol:
                        viol[key]["more"] += 1
                        continue
                    viol[key] = dict(property=prop, formula="NoCrash", seed=seed, cases=[tby.get(ev["case"])], observed=ev, signature=sig, more=0, replay_driver="transcode",
                                     what="NoCrash in the transcoding cases: %s -> %s (replay: ./check C03 --replay)" % (ev.get("url", "")[:120], ev["crash"][:200]))
            # ---- the proxy path: a call through RegisterConn must end when the direct call ends
            from . import proxy as PX
            pv, ncalls = PX.hang_violations(prop, tier, scratch, harness, seed)
            other["proxied_calls"] = ncalls
            for key, v in pv.items():
                kf = C.match_finding(findings, prop, v["signature"])
                if kf:
                    known[kf["id"]] += 1
                    continue
                viol[("proxy",) + key] = v
            # ---- WebSocket sessions at the frame level (WsSession.tla): a panic, a hang or a refused upgrade
            from . import wssession as WS
            wv, wstat, wdes = WS.violations(prop, tier, scratch, harness, seed)
            other["ws_frame_sessions"], other["ws_frames"], other["ws_design_states"] = wstat["sessions"], wstat["frames"], wdes["states"]
            for key, v in wv.items():
                kf = C.match_finding(findings, prop, v["signature"])
                if kf:
                    known[kf["id"]] += 1
                    continue
                viol[("wssession",) + tuple(str(k) for k in key)] = v
            for src, sh, case, line, formula in other_fail:
                ev = json.loads(open(sh).read().splitlines()[line - 1])
                sig = dict(module=src, formula=formula, crash=str(ev.get("crash") or ev.get("panic") or "")[:60])
                kf = C.match_finding(findings, prop, sig)
                if kf:
                    known[kf["id"]] += 1
                    continue
                key = (formula, src, sig["crash"])
                if key in viol:
                    viol[key]["more"] += 1
                    continue
                viol[key] = dict(property=prop, formula=formula, seed=seed, cases=[], observed=ev, signature=sig, more=0, replay_driver=src,
                                 what="%s in the %s trace: %s (run ./check %s to replay it in its own family)" % (
                                     formula, src, json.dumps(ev)[:300], "C02" if src == "router" else "C05"))
        for fid, nn in sorted(known.items()):
            f = next(x for x in findings if x["id"] == fid)
            print("KNOWN-FINDING: property=%s %s (%d observations this run)" % (prop, f["what"], nn))
        for i, (key, v) in enumerate(sorted(viol.items(), key=str)):
            if i >= 30:
                break
            rp = C.write_replay(prop, "%s-%d" % (key[0], abs(hash(str(key))) % 100000), v)
            print("VIOLATION property=%s replay=%s  (%s; +%d similar)" % (prop, rp, v["what"], v["more"]))
        nviol = len(viol)
        samples = [json.loads(x) for x in open(trace).read().splitlines()[:2]]
        cov = dict(states=design["states"], transitions=design["transitions"],
                   traces_validated_against_impl=stat["events"] + other["router_sets"] + other["rpcs"],
                   evaluations=stat["events"] + other["router_lookups"] + other["rpcs"],
                   distinct_nontrivial=stat["entry"] + stat["upgraded"],
                   rule=("abstract requests: all %d combinations of (HTTP version, 17 content-type classes, method, Grpc-Encoding class, grpc-timeout "
                         "class, 5 path classes, Upgrade) enumerated by TLC, each concretised with seeded spellings under a seeded option subset; "
                         "generated neighbourhood: path prefixes/extensions x verbs x upgrade, hostile paths x verbs, query keys through "
                         "repeated/map/scalar/unknown fields, content types / Accept / encodings x bodies (truncated, huge, bad varints, gzip junk), "
                         "gRPC and gRPC-web frames (short, over-long, wrong flags, bad base64) x timeouts x methods, <=3-edit byte mutants, all under 4 "
                         "option subsets; WebSocket sessions on real sockets (every frame atom alone and after a valid message, random sequences, "
                         "broken handshakes). Non-trivial = Entry events compared with the model + upgraded sessions." % nentry),
                   samples=samples, exhaustive=False, neg_guards_violated=design.get("neg_guards"),
                   **{k: v for k, v in stat.items() if k != "events"}, **dict(other), known_findings=dict(known))
        C.write_evidence(prop, tier, "model_checking", cov,
                         ["net/http, x/net/http2, gobwas/ws and grpc-go are trusted; most requests are driven through Mux.ServeHTTP with a recorder "
                          "(HTTP/2 emulated by ProtoMajor), WebSocket sessions through a real loopback server",
                          "a request that has not returned after 10 s counts as hung",
                          "not arbitrary bytes: the model-derived neighbourhood plus seeded byte mutants; coverage-guided fuzzing is outside the technique"],
                         time.time() - t0, nviol)
        print("C09 %s: design states=%d, events=%d (entry %d vs model, hostile %d, ws sessions %d of which upgraded %d), router sets=%d, rpcs=%d, violations=%d (classes), known=%d, wall=%.0fs" % (
            tier, design["states"], stat["events"], stat["entry"], stat["hostile"], stat["ws"], stat["upgraded"], other["router_sets"], other["rpcs"],
            nviol, sum(known.values()), time.time() - t0))
        return 1 if nviol else 0
    finally:
        scratch.cleanup()
