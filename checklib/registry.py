"""property id -> check function(prop, tier, replay) -> exit code"""
from . import router, reg, selector, framing

CHECKS = {
    "C01": router.run,
    "C02": router.run,
    "C16": reg.run,
    "C17": framing.run,
    "C19": selector.run,
}
