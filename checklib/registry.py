"""property id -> check function(prop, tier, replay) -> exit code"""
from . import router, reg, selector, framing, rpc, transcode, registry_chk, mount, deadline, proxy, conc, robust

CHECKS = {
    "C01": router.run,
    "C02": router.run,
    "C03": transcode.run,
    "C04": transcode.run,
    "C07": transcode.run,
    "C05": rpc.run,
    "C06": rpc.run,
    "C08": rpc.run,
    "C13": conc.run,
    "C14": rpc.run,
    "C18": rpc.run,
    "C09": robust.run,
    "C10": proxy.run,
    "C11": registry_chk.run,
    "C12": registry_chk.run,
    "C15": deadline.run,
    "C16": reg.run,
    "C17": framing.run,
    "C19": selector.run,
    "C20": mount.run,
}
