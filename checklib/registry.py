"""property id -> check function(prop, tier, replay) -> exit code"""
from . import router, reg, selector, framing, rpc, transcode

CHECKS = {
    "C01": router.run,
    "C02": router.run,
    "C03": transcode.run,
    "C04": transcode.run,
    "C07": transcode.run,
    "C05": rpc.run,
    "C06": rpc.run,
    "C08": rpc.run,
    "C14": rpc.run,
    "C18": rpc.run,
    "C16": reg.run,
    "C17": framing.run,
    "C19": selector.run,
}
