package main

// Hostile driver, second part: response shapes, concretisation of the abstract
// requests of Entry.tla, and WebSocket sessions over real sockets.

import (
	"bufio"
	"bytes"
	"encoding/base64"
	"encoding/binary"
	"encoding/hex"
	"encoding/json"
	"fmt"
	"io"
	"log"
	"net"
	"net/http"
	"net/http/httptest"
	"net/textproto"
	"os"
	"strconv"
	"strings"
	"sync"
	"time"
	"unicode/utf8"

	spb "google.golang.org/genproto/googleapis/rpc/status"
	"google.golang.org/protobuf/encoding/protojson"
	"google.golang.org/protobuf/encoding/protowire"
	"google.golang.org/protobuf/proto"
)

func ctClass(ct string) string {
	switch {
	case ct == "":
		return ""
	case strings.HasPrefix(ct, "application/grpc-web-text"):
		return "webtext"
	case strings.HasPrefix(ct, "application/grpc-web"):
		return "web"
	case strings.HasPrefix(ct, "application/grpc"):
		return "grpc"
	case strings.HasPrefix(ct, "application/json"):
		return "json"
	case strings.HasPrefix(ct, "application/protobuf"), strings.HasPrefix(ct, "application/octet-stream"):
		return "proto"
	case strings.HasPrefix(ct, "text/plain"):
		return "plain"
	}
	return "other"
}

// shapeOfResponse classifies what came back; it holds no expectation.
func shapeOfResponse(ev *HostileEv, w *httptest.ResponseRecorder, h hreq) {
	res := w.Result()
	ev.CT = ctClass(res.Header.Get("Content-Type"))
	body := w.Body.Bytes()
	ev.FramesOK = true
	if ev.CT == "grpc" || ev.CT == "web" || ev.CT == "webtext" {
		trailers := http.Header{}
		for k, v := range res.Trailer {
			trailers[k] = v
		}
		if ev.CT == "webtext" {
			dec, err := base64.StdEncoding.DecodeString(string(body))
			if err != nil {
				ev.FramesOK = false
			}
			body = dec
		}
		saw := false
		if res.StatusCode == 200 {
			for len(body) > 0 {
				if len(body) < 5 {
					ev.FramesOK = false
					break
				}
				n := int(binary.BigEndian.Uint32(body[1:5]))
				if 5+n > len(body) {
					ev.FramesOK = false
					break
				}
				if body[0]&0x80 != 0 {
					saw = true
					tp := textproto.NewReader(bufio.NewReader(bytes.NewReader(append(append([]byte{}, body[5:5+n]...), '\r', '\n'))))
					hd, _ := tp.ReadMIMEHeader()
					for k, v := range hd {
						trailers[k] = v
					}
				}
				body = body[5+n:]
			}
		}
		if !saw {
			for k, v := range res.Header {
				if _, ok := trailers[k]; !ok {
					trailers[k] = v
				}
			}
		}
		if gs := trailers.Get("Grpc-Status"); gs != "" {
			if c, err := strconv.Atoi(gs); err == nil && c >= 0 {
				ev.GrpcStatus = c
			}
		}
		return
	}
	if res.StatusCode >= 400 {
		ev.ErrBody = "other"
		var st spb.Status
		var tw struct {
			Code string `json:"code"`
			Msg  string `json:"msg"`
		}
		switch {
		case ev.CT == "plain":
			ev.ErrBody = "plain"
		case ev.CT == "json" && protojson.Unmarshal(body, &st) == nil && st.Code != 0:
			ev.ErrBody = "status"
		case ev.CT == "json" && json.Unmarshal(body, &tw) == nil && tw.Code != "":
			ev.ErrBody = "twirp"
		case ev.CT == "proto" && proto.Unmarshal(body, &st) == nil && st.Code != 0:
			ev.ErrBody = "status"
		}
	}
}

// ---- concretisation of Entry.tla's abstract requests ---------------------------

var entryCT = map[string][]string{
	"grpc": {"application/grpc"}, "grpc+proto": {"application/grpc+proto"}, "grpc+json": {"application/grpc+json"},
	"grpc+body": {"application/grpc+body"}, "web+body": {"application/grpc-web+body", "application/grpc-web-text+body"},
	"grpc+zz": {"application/grpc+zz", "application/grpc+"}, "grpcx": {"application/grpcx", "application/grpc;v=1", "application/grpc proto"},
	"web": {"application/grpc-web"}, "web+json": {"application/grpc-web+json"}, "webtext": {"application/grpc-web-text"},
	"webtext+json": {"application/grpc-web-text+json"}, "web+zz": {"application/grpc-web+zz", "application/grpc-web-text+zz"},
	"webx": {"application/grpc-webx", "application/grpc-web;v=1", "application/grpc-web-texts"},
	"json": {"application/json"}, "proto": {"application/protobuf", "application/octet-stream"}, "none": {""},
	"junk": {"text/plain", "application/x-www-form-urlencoded", "application/jsonx"},
}

func concretiseEntry(c EntryCase, r *rng) hreq {
	rq := c.Rq
	pick := func(xs []string) string { return xs[r.Intn(len(xs))] }
	h := hreq{entry: "entry", desc: "entry", method: rq.Meth, h2: rq.H2, hdr: map[string]string{}}
	ct := pick(entryCT[rq.CT])
	h.hdr["Content-Type"] = ct
	switch rq.Path {
	case "rpc":
		h.path = "/vs.H/Unary"
	case "stream":
		h.path = "/vs.H/Bidi"
	case "rule":
		h.path = "/h/typed/1/true/RED"
	case "ws":
		h.path = "/h/ws/x"
	default:
		h.path = pick([]string{"/nope/x", "/vs.H/Nope", "/vs.Nope/Unary", "/h/typed/1/true"})
	}
	switch rq.Genc {
	case "gzip":
		h.hdr["Grpc-Encoding"] = "gzip"
	case "zz":
		h.hdr["Grpc-Encoding"] = pick([]string{"zz", "deflate", "GZIP"})
	}
	switch rq.To {
	case "ok":
		h.hdr["Grpc-Timeout"] = pick([]string{"5S", "100m", "1H", "99999999S"})
	case "bad":
		h.hdr["Grpc-Timeout"] = pick([]string{"1x", "S", "5", "123456789S", "1 S", "1.5S"})
	case "expired":
		h.hdr["Grpc-Timeout"] = pick([]string{"-1S", "-5m", "-0n"})
	}
	if rq.Upg {
		h.hdr["Upgrade"] = "websocket"
		h.hdr["Connection"] = "Upgrade"
		h.hdr["Sec-WebSocket-Key"] = "dGhlIHNhbXBsZSBub25jZQ=="
		h.hdr["Sec-WebSocket-Version"] = "13"
	}
	// a body that is valid for the codec the entry will use
	isGrpcCT := strings.HasPrefix(ct, "application/grpc")
	codec := "proto"
	if strings.HasSuffix(rq.CT, "+json") || rq.CT == "json" || rq.CT == "none" || rq.CT == "junk" {
		codec = "json"
	}
	msg := marshalMsg(codec, reqMsg(1, 1, 5))
	switch {
	case isGrpcCT:
		f := grpcFrame(msg, false)
		if rq.Genc == "gzip" {
			f = grpcFrame(gz(msg), true)
		}
		if strings.HasPrefix(ct, "application/grpc-web-text") {
			f = []byte(base64.StdEncoding.EncodeToString(f))
		}
		h.body = f
	case rq.Meth == "POST":
		h.body = msg
		if rq.Path == "stream" && codec == "proto" { // the protobuf stream codec frames messages with a varint length
			h.body = append(protowire.AppendVarint(nil, uint64(len(msg))), msg...)
		}
	}
	return h
}

func readEntryCases(path string) ([]EntryCase, error) {
	f, err := os.Open(path)
	if err != nil {
		return nil, err
	}
	defer f.Close()
	var out []EntryCase
	sc := bufio.NewScanner(f)
	sc.Buffer(make([]byte, 1<<20), 1<<24)
	for sc.Scan() {
		if len(bytes.TrimSpace(sc.Bytes())) == 0 {
			continue
		}
		var c EntryCase
		if err := json.Unmarshal(sc.Bytes(), &c); err != nil {
			return nil, err
		}
		out = append(out, c)
	}
	return out, sc.Err()
}

func sideOf(id int, kind string, h hreq, opt int) HostileReq {
	return HostileReq{Case: id, Kind: kind, Entry: h.entry, Desc: h.desc, Method: h.method, Path: h.path, Query: h.query, Hdr: h.hdr,
		BodyHex: hex.EncodeToString(h.body), HasBody: h.body != nil, H2: h.h2, Opts: opt}
}

func hreqOf(s HostileReq) hreq {
	h := hreq{entry: s.Entry, desc: s.Desc, method: s.Method, path: s.Path, query: s.Query, hdr: s.Hdr, h2: s.H2}
	if h.hdr == nil {
		h.hdr = map[string]string{}
	}
	if s.HasBody {
		h.body, _ = hex.DecodeString(s.BodyHex)
		if h.body == nil {
			h.body = []byte{}
		}
	}
	return h
}

// ---- WebSocket sessions over sockets ------------------------------------------------

type wsWrap struct {
	env  *hostileEnv
	mu   sync.Mutex
	done map[string]chan string
}

func (h *wsWrap) ServeHTTP(w http.ResponseWriter, r *http.Request) {
	id := r.Header.Get("X-Case")
	defer func() {
		res := ""
		if p := recover(); p != nil {
			res = fmt.Sprintf("panic: %v", p)
		}
		h.mu.Lock()
		ch := h.done[id]
		h.mu.Unlock()
		if ch != nil {
			ch <- res
		}
	}()
	h.env.mux.ServeHTTP(w, r)
}

func wsFrame(op byte, fin bool, masked bool, rsv byte, payload []byte) []byte {
	b0 := op | rsv<<4
	if fin {
		b0 |= 0x80
	}
	var out []byte
	out = append(out, b0)
	n := len(payload)
	mb := byte(0)
	if masked {
		mb = 0x80
	}
	switch {
	case n < 126:
		out = append(out, mb|byte(n))
	case n < 65536:
		out = append(out, mb|126, byte(n>>8), byte(n))
	default:
		out = append(out, mb|127)
		var l [8]byte
		binary.BigEndian.PutUint64(l[:], uint64(n))
		out = append(out, l[:]...)
	}
	if masked {
		key := []byte{0x11, 0x22, 0x33, 0x44}
		out = append(out, key...)
		for i, c := range payload {
			out = append(out, c^key[i%4])
		}
	} else {
		out = append(out, payload...)
	}
	return out
}

// wsScripts: sessions of raw writes after the upgrade (valid traffic and its hostile neighbourhood)
func wsScripts(r *rng, n int) [][][]byte {
	js := marshalMsg("json", reqMsg(1, 1, 5))
	text := func(p []byte) []byte { return wsFrame(1, true, true, 0, p) }
	closeF := func(code int, reason string) []byte {
		p := []byte{byte(code >> 8), byte(code)}
		return wsFrame(8, true, true, 0, append(p, reason...))
	}
	atoms := [][]byte{
		text(js), text(js), text(js), text([]byte("{")), text([]byte("")), text([]byte("null")), text([]byte("{\"zz\":1}")), text([]byte("\xff\xfe")),
		wsFrame(2, true, true, 0, js), wsFrame(2, true, true, 0, marshalMsg("proto", reqMsg(1, 1, 5))),
		wsFrame(9, true, true, 0, []byte("hi")), wsFrame(10, true, true, 0, nil), wsFrame(9, true, true, 0, bytes.Repeat([]byte("p"), 200)),
		closeF(1000, ""), closeF(1001, "bye"), closeF(999, "x"), closeF(5000, strings.Repeat("r", 200)), wsFrame(8, true, true, 0, nil), wsFrame(8, true, true, 0, []byte{3}),
		wsFrame(1, true, false, 0, js),                                        // unmasked client frame
		wsFrame(1, false, true, 0, js[:3]), wsFrame(0, true, true, 0, js[3:]), // fragmented message
		wsFrame(0, true, true, 0, js),                                  // continuation without a start
		wsFrame(3, true, true, 0, js), wsFrame(11, true, true, 0, nil), // reserved opcodes
		wsFrame(1, true, true, 7, js),                                            // RSV bits
		{0x81, 0xff, 0x7f, 0xff, 0xff, 0xff, 0xff, 0xff, 0xff, 0xff, 1, 2, 3, 4}, // 2^63-1 byte frame announced
		{0x81, 0xff, 0xff, 0xff, 0xff, 0xff, 0xff, 0xff, 0xff, 0xff, 1, 2, 3, 4}, // length with the top bit set
		{0x81, 0xfe, 0x00}, // cut inside the extended length
		{0x81},             // cut after the first byte
		text(bytes.Repeat([]byte("{"), 70000)), text([]byte("{\"s\":\"" + strings.Repeat("a", 300000) + "\"}")),
		wsFrame(1, true, true, 0, js)[:7], // cut inside the payload
		[]byte("GET / HTTP/1.1\r\n\r\n"),
	}
	// decode errors quote the request: long multi-byte field names at every alignment put a character across the
	// 123-byte capacity of the close reason
	for _, ch := range []string{"é", "書", "😀"} {
		for shift := 0; shift < 4; shift++ {
			atoms = append(atoms, text([]byte("{\""+strings.Repeat("a", shift)+strings.Repeat(ch, 80)+"\":1}")))
			atoms = append(atoms, text([]byte("{\"s\":"+strings.Repeat("a", shift)+strings.Repeat(ch, 80)+"}")))
		}
	}
	var out [][][]byte
	for _, a := range atoms { // every atom alone, and after one valid message
		out = append(out, [][]byte{a}, [][]byte{text(js), a})
	}
	out = append(out, [][]byte{}) // nothing at all
	for len(out) < n {
		k := 1 + r.Intn(5)
		var s [][]byte
		for i := 0; i < k; i++ {
			s = append(s, atoms[r.Intn(len(atoms))])
		}
		out = append(out, s)
	}
	return out
}

type wsServer struct {
	env  *hostileEnv
	wrap *wsWrap
	srv  *httptest.Server
	addr string
}

func newWsServer(env *hostileEnv) *wsServer {
	wr := &wsWrap{env: env, done: map[string]chan string{}}
	s := httptest.NewUnstartedServer(wr)
	s.Config.ErrorLog = log.New(io.Discard, "", 0)
	s.Start()
	return &wsServer{env: env, wrap: wr, srv: s, addr: s.Listener.Addr().String()}
}

// parseServerFrames describes what the server wrote after the 101.
func parseServerFrames(b []byte) []string {
	out := []string{}
	for len(b) > 0 {
		if len(b) < 2 {
			return append(out, "bad:short header")
		}
		op, fin, rsv := b[0]&0x0f, b[0]&0x80 != 0, b[0]&0x70
		masked := b[1]&0x80 != 0
		n := int(b[1] & 0x7f)
		off := 2
		switch n {
		case 126:
			if len(b) < 4 {
				return append(out, "bad:short length")
			}
			n = int(binary.BigEndian.Uint16(b[2:4]))
			off = 4
		case 127:
			if len(b) < 10 {
				return append(out, "bad:short length")
			}
			n = int(binary.BigEndian.Uint64(b[2:10]))
			off = 10
		}
		if masked {
			return append(out, "bad:masked server frame")
		}
		if rsv != 0 {
			return append(out, "bad:rsv")
		}
		if n < 0 || off+n > len(b) {
			return append(out, "bad:cut frame")
		}
		p := b[off : off+n]
		b = b[off+n:]
		switch op {
		case 1:
			out = append(out, "text")
		case 2:
			out = append(out, "binary")
		case 0:
			out = append(out, "cont")
		case 9:
			out = append(out, "ping")
		case 10:
			out = append(out, "pong")
		case 8:
			if n > 125 || !fin {
				out = append(out, fmt.Sprintf("bad:close frame of %d bytes", n))
				continue
			}
			if n == 1 {
				out = append(out, "bad:close frame of 1 byte")
				continue
			}
			code := 0
			if n >= 2 {
				code = int(binary.BigEndian.Uint16(p[:2]))
				if !utf8.Valid(p[2:]) { // RFC 6455 5.5.1: the reason is UTF-8; a conforming client fails the connection
					out = append(out, "bad:close reason is not valid UTF-8")
					continue
				}
			}
			out = append(out, fmt.Sprintf("close:%d", code))
		default:
			out = append(out, fmt.Sprintf("bad:opcode %d", op))
		}
		if op >= 8 && (n > 125 || !fin) && op != 8 {
			out = append(out, "bad:control frame too long")
		}
	}
	return out
}

func runWs(s *wsServer, id int, path string, hdr map[string]string, writes [][]byte, wait bool) HostileEv {
	ev := HostileEv{Ev: "Ws", Case: id, Entry: "ws", Opts: s.env.opts, GrpcStatus: -1, Frames: []string{},
		Desc: fmt.Sprintf("ws %q writes=%d wait=%v", path, len(writes), wait)}
	cid := fmt.Sprintf("%d", id)
	ch := make(chan string, 1)
	s.wrap.mu.Lock()
	s.wrap.done[cid] = ch
	s.wrap.mu.Unlock()
	defer func() {
		s.wrap.mu.Lock()
		delete(s.wrap.done, cid)
		s.wrap.mu.Unlock()
	}()
	conn, err := net.DialTimeout("tcp", s.addr, 5*time.Second)
	if err != nil {
		ev.Crash = "infra: dial: " + err.Error()
		return ev
	}
	defer conn.Close()
	var rb strings.Builder
	fmt.Fprintf(&rb, "GET %s HTTP/1.1\r\nHost: verif.test\r\nX-Case: %s\r\n", path, cid)
	for k, v := range hdr {
		if v != "" {
			fmt.Fprintf(&rb, "%s: %s\r\n", k, v)
		}
	}
	rb.WriteString("\r\n")
	conn.SetDeadline(time.Now().Add(8 * time.Second))
	if _, err := conn.Write([]byte(rb.String())); err != nil {
		ev.Crash = "infra: write: " + err.Error()
		return ev
	}
	br := bufio.NewReader(conn)
	res, err := http.ReadResponse(br, nil)
	if err != nil {
		// no HTTP response at all: judged by the trace specification (status 0)
		ev.Status = 0
	} else {
		ev.Status = res.StatusCode
		ev.CT = ctClass(res.Header.Get("Content-Type"))
		ev.Upgraded = res.StatusCode == 101
	}
	if ev.Upgraded {
		for _, wbytes := range writes {
			if _, err := conn.Write(wbytes); err != nil {
				break
			}
		}
		if !wait {
			if tc, ok := conn.(*net.TCPConn); ok {
				tc.CloseWrite()
			}
		}
		conn.SetReadDeadline(time.Now().Add(time.Second))
		rest, _ := io.ReadAll(br)
		ev.Frames = parseServerFrames(rest)
	} else if res != nil {
		io.Copy(io.Discard, io.LimitReader(res.Body, 1<<20))
		res.Body.Close()
	}
	conn.Close()
	select {
	case ev.Crash = <-ch:
		ev.Returned = true
	case <-time.After(10 * time.Second):
		ev.Crash = "hang"
	}
	ev.Invoked = s.env.enteredFor(cid)
	return ev
}
