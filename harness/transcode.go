package main

// Transcode driver (C03, C04, C07): abstract cases from Transcode.tla are
// given concrete fields of every kind and boundary / random values; the
// request is sent through Mux.ServeHTTP and what the handler received is
// projected back to value tags per role.

import (
	"bufio"
	"bytes"
	"compress/gzip"
	"context"
	"encoding/base64"
	"encoding/json"
	"fmt"
	"io"
	"log"
	"math"
	"net"
	"net/http"
	"net/http/httptest"
	"net/url"
	"runtime"
	"strconv"
	"strings"
	"sync"
	"time"

	"google.golang.org/genproto/googleapis/api/annotations"
	"google.golang.org/genproto/googleapis/api/httpbody"
	"google.golang.org/genproto/googleapis/api/serviceconfig"
	"google.golang.org/grpc"
	"google.golang.org/grpc/metadata"
	"google.golang.org/protobuf/encoding/protojson"
	"google.golang.org/protobuf/proto"
	"google.golang.org/protobuf/reflect/protoreflect"
	"google.golang.org/protobuf/types/dynamicpb"
	"larking.io/larking"
)

type TcAbs struct {
	Body    string   `json:"body"`
	NPath   int      `json:"npath"`
	Present []string `json:"present"`
	CompQ   bool     `json:"compQ"`
	CompB   bool     `json:"compB"`
	// concretisation choices made by the check (seeded)
	ID       int    `json:"id"`
	Codec    string `json:"codec"`
	Gzip     bool   `json:"gzip"`
	Spell    string `json:"spell"`    // json | proto key spelling in the query
	Invalid  string `json:"invalid"`  // role whose text is replaced by an invalid one ("" = none)
	Table    bool   `json:"table"`    // draw values from the boundary tables
	Stream   bool   `json:"stream"`   // first message of a client stream instead of a unary call
	ZeroPath bool   `json:"zeropath"` // p1 carries the zero value of its kind (0, false, enum 0)
	CompSib  bool   `json:"compsib"`  // (set by the driver) the competing value names the OTHER member of the oneof the path-bound field belongs to
	CompSub  bool   `json:"compsub"`  // a query key names a SUB-field of the path-bound field (wrapper .value, Timestamp/Duration .seconds)
	Ws       bool   `json:"ws"`       // the request is a WebSocket session: rule kind WEBSOCKET, the body is the first text frame
	Upload   bool   `json:"upload"`   // the request is an HttpBody upload read with AsHTTPBodyReader (see runUploadCase)
	Rev      bool   `json:"rev"`      // rolling upgrade: FilesOption holds a newer revision of the messages (every field index moved)
	Sibling  bool   `json:"sibling"`  // a string path variable takes the text of a sibling rule's literal segment (that rule has another verb / is longer)
	ManyQ    bool   `json:"manyq"`    // fourteen further query parameters (values of a repeated field): more than a dozen parameters in all
	Accept   string `json:"accept"`   // Accept header of the request: "" | */* | other (the codec the body is NOT in) | same
	Framing  string `json:"framing"`  // how the request body is delimited: "" sized | unsized (HTTP/2, no content-length) | chunked (HTTP/1.1)
}

type TcEv struct {
	Ev        string            `json:"ev"`
	Case      int               `json:"case"`
	C         TcAbs             `json:"c"`
	Delivered bool              `json:"delivered"`
	Status    int               `json:"status"`
	Tags      map[string]string `json:"tags"`
	Equal     bool              `json:"equal"`
	Crash     string            `json:"crash"`
	Fields    map[string]string `json:"fields"`
	URL       string            `json:"url"`
	BodyText  string            `json:"bodytext"`
	Got       string            `json:"got"`
	Want      string            `json:"want"`
}

// ---- value generation ---------------------------------------------------------------

type leaf struct {
	path []string // proto field names
	kind string   // string int32 int64 uint32 uint64 bool float double bytes enum ts du fm w*
}

var topLeaves = []leaf{
	{[]string{"s"}, "string"}, {[]string{"t"}, "string"}, {[]string{"i"}, "int32"}, {[]string{"i64"}, "int64"},
	{[]string{"u32"}, "uint32"}, {[]string{"u64"}, "uint64"}, {[]string{"s32"}, "int32"}, {[]string{"s64"}, "int64"},
	{[]string{"f32"}, "uint32"}, {[]string{"f64"}, "uint64"}, {[]string{"sf32"}, "int32"}, {[]string{"sf64"}, "int64"},
	{[]string{"fl"}, "float"}, {[]string{"db"}, "double"}, {[]string{"bo"}, "bool"}, {[]string{"by"}, "bytes"},
	{[]string{"en"}, "enum"}, {[]string{"long_name"}, "string"}, {[]string{"os"}, "string"},
	{[]string{"ts"}, "ts"}, {[]string{"du"}, "du"}, {[]string{"fm"}, "fm"},
	{[]string{"wb"}, "wbool"}, {[]string{"wi32"}, "wint32"}, {[]string{"wi64"}, "wint64"}, {[]string{"wu32"}, "wuint32"},
	{[]string{"wu64"}, "wuint64"}, {[]string{"wf"}, "wfloat"}, {[]string{"wd"}, "wdouble"}, {[]string{"wby"}, "wbytes"}, {[]string{"ws"}, "wstring"},
}
var nestedLeaves = []leaf{
	{[]string{"n", "s"}, "string"}, {[]string{"n", "i"}, "int32"}, {[]string{"n", "deep", "s"}, "string"},
	{[]string{"n", "deep", "i"}, "int32"}, {[]string{"n", "sub_name"}, "string"},
}
var bLeaves = []leaf{{[]string{"b", "s"}, "string"}, {[]string{"b", "i"}, "int32"}, {[]string{"b", "sub_name"}, "string"}, {[]string{"b", "deep", "s"}, "string"}}
var repLeaves = []leaf{{[]string{"r"}, "string"}, {[]string{"ri"}, "int32"}, {[]string{"re"}, "enum"}, {[]string{"rby"}, "bytes"}}

// pathSafe kinds can be spelled in a URL path segment without '/' or ':'
func pathSafe(k string) bool {
	switch k {
	case "ts", "fm":
		return false
	}
	return true
}

type val struct {
	zero  bool     // the proto3 zero value of the kind (indistinguishable from absent)
	text  string   // URL text
	alt   []string // other accepted spellings
	set   func(m protoreflect.Message, fd protoreflect.FieldDescriptor)
	pv    protoreflect.Value
	isMsg bool
}

var strTable = []string{"", "C:\\temp\\new", "a\\\\b", "\\d+", "x\\", "50\\u0025", "a", "hello", "x-y_z.w~", "ünï書", "0", "true", "null", "a+b", "q=1&r=2", "%41", "sp ace", "\"quoted\"", strings.Repeat("long", 64)}
var strPathTable = []string{".", "..", "...", ".a", "a..b", "a", "hello", "x-y_z.w~", "ünï書", "0", "true", "null", "a+b", "a,b;c=d@e", "(x)'!$&*", strings.Repeat("p", 200)}
var i32Table = []int64{1, -1, 7, math.MaxInt32, math.MinInt32, 100, -40}
var i64Table = []int64{1, -1, math.MaxInt64, math.MinInt64, 1 << 53, -(1 << 53) - 1, 1 << 32}
var u32Table = []uint64{1, 7, math.MaxUint32, 1 << 31}
var u64Table = []uint64{1, math.MaxUint64, 1 << 63, 1 << 53}
var f64Table = []float64{1.5, -0.25, 1e300, 5e-324, math.MaxFloat64, 3, 1e21, 0.1}
var f32Table = []float64{1.5, -0.25, float64(math.MaxFloat32), 3, 0.1, 16777216}
var bytesTable = [][]byte{{}, {1}, {0xff, 0xfe}, {0xfb, 0xff, 0xbf}, {0, 0, 0, 0}, []byte("hello"), {0xff}, bytes.Repeat([]byte{0x3e, 0x3f}, 7)}

func (r *rng) pick(n int) int { return r.Intn(n) }

// genVal draws a non-zero value of the kind, optionally from the boundary tables.
func genVal(k string, r *rng, table bool, forPath bool) val {
	mk := func(text string, pv protoreflect.Value) val { return val{text: text, pv: pv} }
	switch k {
	case "string", "wstring":
		tb := strTable
		if forPath {
			tb = strPathTable
		}
		s := tb[r.pick(len(tb))]
		if !table || (k == "wstring" && strings.HasPrefix(s, "\"")) { // a quoted text for a StringValue is read as JSON: unspecified
			s = fmt.Sprintf("v%x", r.next()%0xffffff)
		}
		return mk(s, protoreflect.ValueOfString(s))
	case "int32", "wint32":
		x := i32Table[r.pick(len(i32Table))]
		if !table {
			x = int64(int32(r.next())) | 1
		}
		return mk(strconv.FormatInt(x, 10), protoreflect.ValueOfInt32(int32(x)))
	case "int64", "wint64":
		x := i64Table[r.pick(len(i64Table))]
		if !table {
			x = int64(r.next()) | 1
		}
		return mk(strconv.FormatInt(x, 10), protoreflect.ValueOfInt64(x))
	case "uint32", "wuint32":
		x := u32Table[r.pick(len(u32Table))]
		if !table {
			x = uint64(uint32(r.next())) | 1
		}
		return mk(strconv.FormatUint(x, 10), protoreflect.ValueOfUint32(uint32(x)))
	case "uint64", "wuint64":
		x := u64Table[r.pick(len(u64Table))]
		if !table {
			x = r.next() | 1
		}
		return mk(strconv.FormatUint(x, 10), protoreflect.ValueOfUint64(x))
	case "bool", "wbool":
		return mk("true", protoreflect.ValueOfBool(true))
	case "float", "wfloat":
		x := f32Table[r.pick(len(f32Table))]
		if !table {
			x = float64(float32(r.Intn(2000000)-1000000)/64) + 0.5
		}
		f := float32(x)
		return mk(strconv.FormatFloat(float64(f), 'g', -1, 32), protoreflect.ValueOfFloat32(f))
	case "double", "wdouble":
		x := f64Table[r.pick(len(f64Table))]
		if !table {
			x = float64(int64(r.next()>>11))/1024 + 0.5
		}
		return mk(strconv.FormatFloat(x, 'g', -1, 64), protoreflect.ValueOfFloat64(x))
	case "bytes", "wbytes":
		b := bytesTable[r.pick(len(bytesTable))]
		if !table {
			b = make([]byte, 1+r.Intn(9))
			for i := range b {
				b[i] = byte(r.next())
			}
			b[0] |= 1
		}
		var text string
		switch r.Intn(4) {
		case 0:
			text = base64.StdEncoding.EncodeToString(b)
		case 1:
			text = base64.RawStdEncoding.EncodeToString(b)
		case 2:
			text = base64.URLEncoding.EncodeToString(b)
		default:
			text = base64.RawURLEncoding.EncodeToString(b)
		}
		if forPath {
			text = base64.RawURLEncoding.EncodeToString(b) // no '/' '=' '+'
		}
		return mk(text, protoreflect.ValueOfBytes(b))
	case "enum":
		names := []string{"RED", "GREEN", "BLUE"}
		nums := []int32{1, 2, 7}
		if r.Intn(5) == 0 {
			// proto3 enums are open: a number without a declared name is a value like any other, and its JSON text form
			// is the bare number
			n := []int32{5, 42, -1, 2147483647}[r.pick(4)]
			return mk(strconv.Itoa(int(n)), protoreflect.ValueOfEnum(protoreflect.EnumNumber(n)))
		}
		i := r.pick(3)
		text := names[i]
		if r.Bool() {
			text = strconv.Itoa(int(nums[i]))
		}
		return mk(text, protoreflect.ValueOfEnum(protoreflect.EnumNumber(nums[i])))
	case "ts":
		secs := []int64{1, 1600000000, -62135596800, 253402300799, 86400}[r.pick(5)]
		nanos := []int{0, 500000000, 1, 999999999}[r.pick(4)]
		if !table {
			secs, nanos = int64(r.Intn(2000000000)), r.Intn(1000)*1000000
		}
		t := time.Unix(secs, int64(nanos)).UTC()
		v := val{text: t.Format("2006-01-02T15:04:05.999999999Z07:00"), isMsg: true}
		v.set = func(m protoreflect.Message, fd protoreflect.FieldDescriptor) {
			sub := m.Mutable(fd).Message()
			sub.Set(sub.Descriptor().Fields().ByName("seconds"), protoreflect.ValueOfInt64(secs))
			sub.Set(sub.Descriptor().Fields().ByName("nanos"), protoreflect.ValueOfInt32(int32(nanos)))
		}
		return v
	case "du":
		secs := []int64{1, -1, 315576000000, 3600}[r.pick(4)]
		nanos := []int32{0, 500000000, 1}[r.pick(3)]
		if secs < 0 {
			nanos = -nanos
		}
		if !table {
			secs, nanos = int64(r.Intn(100000))+1, int32(r.Intn(1000))*1000000
		}
		text := strconv.FormatInt(secs, 10)
		if nanos != 0 {
			frac := strings.TrimRight(fmt.Sprintf("%09d", abs32(nanos)), "0")
			text += "." + frac
		}
		text += "s"
		v := val{text: text, isMsg: true}
		v.set = func(m protoreflect.Message, fd protoreflect.FieldDescriptor) {
			sub := m.Mutable(fd).Message()
			sub.Set(sub.Descriptor().Fields().ByName("seconds"), protoreflect.ValueOfInt64(secs))
			sub.Set(sub.Descriptor().Fields().ByName("nanos"), protoreflect.ValueOfInt32(nanos))
		}
		return v
	case "fm":
		paths := [][]string{{"a"}, {"a", "b.c"}, {"user.display_name", "photo"}}[r.pick(3)]
		var js []string
		for _, p := range paths {
			js = append(js, snakeToCamel(p))
		}
		v := val{text: strings.Join(js, ","), isMsg: true}
		v.set = func(m protoreflect.Message, fd protoreflect.FieldDescriptor) {
			sub := m.Mutable(fd).Message()
			l := sub.Mutable(sub.Descriptor().Fields().ByName("paths")).List()
			for _, p := range paths {
				l.Append(protoreflect.ValueOfString(p))
			}
		}
		return v
	}
	panic("kind " + k)
}

// zeroVal gives the zero value of presence-less scalar kinds.
func zeroVal(k string) (val, bool) {
	switch k {
	case "int32":
		return val{zero: true, text: "0", pv: protoreflect.ValueOfInt32(0)}, true
	case "int64":
		return val{zero: true, text: "0", pv: protoreflect.ValueOfInt64(0)}, true
	case "uint32":
		return val{zero: true, text: "0", pv: protoreflect.ValueOfUint32(0)}, true
	case "uint64":
		return val{zero: true, text: "0", pv: protoreflect.ValueOfUint64(0)}, true
	case "bool":
		return val{zero: true, text: "false", pv: protoreflect.ValueOfBool(false)}, true
	case "enum":
		return val{zero: true, text: "COLOR_UNSPECIFIED", pv: protoreflect.ValueOfEnum(0)}, true
	case "float":
		return val{zero: true, text: "0", pv: protoreflect.ValueOfFloat32(0)}, true
	case "double":
		return val{zero: true, text: "0", pv: protoreflect.ValueOfFloat64(0)}, true
	}
	return val{}, false
}

func abs32(x int32) int32 {
	if x < 0 {
		return -x
	}
	return x
}

func snakeToCamel(s string) string {
	var b strings.Builder
	up := false
	for _, c := range s {
		if c == '_' {
			up = true
			continue
		}
		if up {
			b.WriteString(strings.ToUpper(string(c)))
			up = false
		} else {
			b.WriteRune(c)
		}
	}
	return b.String()
}

// invalidText gives a text that is not valid for the kind under any reading.
func invalidText(k string, r *rng) (string, bool) {
	switch k {
	case "int32", "wint32":
		return []string{"", "2147483648", "-2147483649", "12x", "abc", "1.5.2", "--1", "0x10"}[r.pick(8)], true
	case "int64", "wint64":
		return []string{"", "9223372036854775808", "-9223372036854775809", "12x", "abc", "1_000"}[r.pick(6)], true
	case "uint32", "wuint32":
		return []string{"", "4294967296", "-1", "12x", "abc"}[r.pick(5)], true
	case "uint64", "wuint64":
		return []string{"", "18446744073709551616", "-1", "12x", "abc"}[r.pick(5)], true
	case "bool", "wbool":
		return []string{"", "yes", "2", "tru", "t"}[r.pick(5)], true
	case "float", "wfloat":
		return []string{"", "abc", "1.2.3", "1e", "--1", "1,5", "3.5e38", "-3.5e38", "1e39", "1e400"}[r.pick(10)], true
	case "double", "wdouble":
		return []string{"", "abc", "1.2.3", "1e", "--1", "1,5", "1e400", "-1e999"}[r.pick(8)], true
	case "bytes", "wbytes":
		return []string{"!!!!", "a", "ab!d", "****"}[r.pick(4)], true
	case "enum":
		return []string{"", "PURPLE", "red", "1x", "RED_"}[r.pick(5)], true
	case "ts":
		return []string{"yesterday", "2020-13-01T00:00:00Z", "2020-01-01", "12345"}[r.pick(4)], true
	case "du":
		return []string{"1", "1m", "abc", "1.5"}[r.pick(4)], true
	}
	return "", false
}

// ---- message plumbing -----------------------------------------------------------------

func fdPath(md protoreflect.MessageDescriptor, path []string) []protoreflect.FieldDescriptor {
	var out []protoreflect.FieldDescriptor
	for _, p := range path {
		fd := md.Fields().ByName(protoreflect.Name(p))
		out = append(out, fd)
		if fd.Message() != nil {
			md = fd.Message()
		}
	}
	return out
}

func setLeaf(m protoreflect.Message, path []string, v val, appendList bool) {
	fds := fdPath(m.Descriptor(), path)
	cur := m
	for _, fd := range fds[:len(fds)-1] {
		cur = cur.Mutable(fd).Message()
	}
	fd := fds[len(fds)-1]
	switch {
	case v.set != nil:
		v.set(cur, fd)
	case strings.HasPrefix(kindOfFd(fd), "w"):
		sub := cur.Mutable(fd).Message()
		sub.Set(sub.Descriptor().Fields().ByName("value"), v.pv)
	case fd.IsList():
		cur.Mutable(fd).List().Append(v.pv)
	default:
		cur.Set(fd, v.pv)
	}
}

func kindOfFd(fd protoreflect.FieldDescriptor) string {
	if fd.Message() != nil && strings.HasPrefix(string(fd.Message().FullName()), "google.protobuf.") && strings.HasSuffix(string(fd.Message().Name()), "Value") {
		return "w"
	}
	return ""
}

func getLeaf(m protoreflect.Message, path []string) (protoreflect.Value, bool) {
	fds := fdPath(m.Descriptor(), path)
	cur := m
	for _, fd := range fds[:len(fds)-1] {
		if !cur.Has(fd) {
			return protoreflect.Value{}, false
		}
		cur = cur.Get(fd).Message()
	}
	fd := fds[len(fds)-1]
	if !cur.Has(fd) {
		return protoreflect.Value{}, false
	}
	return cur.Get(fd), true
}

func leafEquals(got proto.Message, path []string, v val) bool {
	a := dynamicpb.NewMessage(reqDesc())
	setLeaf(a, path, v, false)
	gv, ok := getLeaf(got.ProtoReflect(), path)
	if !ok {
		return false
	}
	wv, _ := getLeaf(a, path)
	fds := fdPath(reqDesc(), path)
	fd := fds[len(fds)-1]
	if fd.Message() != nil {
		return proto.Equal(gv.Message().Interface(), wv.Message().Interface())
	}
	if fd.IsList() {
		return false
	}
	// compare through a single-field message so NaN etc. follow proto.Equal
	b := dynamicpb.NewMessage(reqDesc())
	cur := b.ProtoReflect()
	for _, f := range fds[:len(fds)-1] {
		cur = cur.Mutable(f).Message()
	}
	cur.Set(fd, gv)
	return proto.Equal(a, b)
}

func keyFor(path []string, spell string) string {
	fds := fdPath(reqDesc(), path)
	var parts []string
	for _, fd := range fds {
		if spell == "json" {
			parts = append(parts, fd.JSONName())
		} else {
			parts = append(parts, string(fd.Name()))
		}
	}
	return strings.Join(parts, ".")
}

// ---- one request case ---------------------------------------------------------------------

// runUploadCase: a client-streaming upload whose body is a google.api.HttpBody field and whose handler reads it with
// larking.AsHTTPBodyReader (the header message carries the path-bound field); a query parameter competes with the path.
func runUploadCase(c TcAbs, r *rng) TcEv {
	ev := TcEv{Ev: "Tc", Case: c.ID, C: c, Tags: map[string]string{}, Fields: map[string]string{"p1": "s:string"}}
	pathVal := []string{"cat.jpg", "a-b_c", "ünï", "x"}[r.Intn(4)]
	rule := httpRule("POST", "/tc/up/{s}")
	rule.Body = "hb"
	svc := ServiceSpec{Name: "Up", Methods: []MethodSpec{{Name: "Upload", Rule: rule, ClientStream: true}}}
	files, sds, err := BuildFiles([]ServiceSpec{svc})
	if err != nil {
		ev.Crash = "setup: " + err.Error()
		return ev
	}
	mux, err := larking.NewMux(larking.FilesOption(files))
	if err != nil {
		ev.Crash = "setup: " + err.Error()
		return ev
	}
	var got *dynamicpb.Message
	var nread int
	st := func(full string, md protoreflect.MethodDescriptor, ss grpcServerStream) error {
		m := dynamicpb.NewMessage(reqDesc())
		rd, err := larking.AsHTTPBodyReader(ss, m)
		if err != nil {
			return err
		}
		b, err := io.ReadAll(rd)
		if err != nil {
			return err
		}
		got, nread = m, len(b)
		return ss.SendMsg(repMsg(c.ID, 1, 0))
	}
	if err := larking.VerifRegisterService(mux, MakeServiceDesc(sds[0], nil, st), struct{}{}); err != nil {
		ev.Crash = "setup: register: " + err.Error()
		return ev
	}
	data := bytes.Repeat([]byte("upload "), 50+r.Intn(200))
	q := url.Values{}
	q.Set("s", "evil.jpg")
	if r.Bool() {
		q.Set("t", "other") // a second, harmless parameter
	}
	req := httptest.NewRequest("POST", "http://verif.test/", bytes.NewReader(data))
	req.URL = &url.URL{Scheme: "http", Host: "verif.test", Path: "/tc/up/" + pathVal, RawQuery: q.Encode()}
	req.Header.Set("Content-Type", "image/jpeg")
	req.Header.Set("Accept", "application/json")
	ev.URL = "POST " + req.URL.Path + "?" + req.URL.RawQuery
	w := httptest.NewRecorder()
	func() {
		defer func() {
			if p := recover(); p != nil {
				ev.Crash = fmt.Sprintf("panic: %v", p)
			}
		}()
		mux.ServeHTTP(w, req)
	}()
	ev.Status = w.Code
	if ev.Crash != "" {
		return ev
	}
	ev.Delivered = got != nil && nread == len(data)
	for _, k := range []string{"p1", "p2", "q1", "q2", "r", "n", "b1", "b2"} {
		ev.Tags[k] = "absent"
	}
	if got == nil {
		ev.Got = truncate(w.Body.String(), 160)
		return ev
	}
	switch got.Get(reqDesc().Fields().ByName("s")).String() {
	case pathVal:
		ev.Tags["p1"] = "true"
	case "evil.jpg":
		ev.Tags["p1"] = "comp"
	default:
		ev.Tags["p1"] = "other"
	}
	return ev
}

func runTcCase(c TcAbs, seed int64) TcEv {
	r := newRng(seed, c.ID, 31)
	if c.Upload {
		return runUploadCase(c, r)
	}
	ev := TcEv{Ev: "Tc", Case: c.ID, C: c, Tags: map[string]string{}, Fields: map[string]string{}}
	present := map[string]bool{}
	for _, p := range c.Present {
		present[p] = true
	}
	// assign concrete fields to roles
	used := map[string]bool{}
	take := func(pool []leaf, ok func(leaf) bool) leaf {
		for tries := 0; tries < 200; tries++ {
			l := pool[r.pick(len(pool))]
			k := strings.Join(l.path, ".")
			if !used[k] && (ok == nil || ok(l)) {
				used[k] = true
				return l
			}
		}
		panic("no field left")
	}
	role := map[string]leaf{}
	pathPool := append(append([]leaf{}, topLeaves...), nestedLeaves...)
	isPath := func(l leaf) bool { return pathSafe(l.kind) }
	role["p1"] = take(pathPool, isPath)
	role["p2"] = take(pathPool, isPath)
	role["q1"] = take(topLeaves, nil)
	role["q2"] = take(topLeaves, nil)
	role["r"] = take(repLeaves, nil)
	role["n"] = take(nestedLeaves, nil)
	role["b1"] = take(bLeaves, nil)
	role["b2"] = take(bLeaves, nil)
	for k, l := range role {
		ev.Fields[k] = strings.Join(l.path, ".") + ":" + l.kind
	}
	vals := map[string]val{}
	for k, l := range role {
		forPath := k == "p1" || k == "p2"
		vals[k] = genVal(l.kind, r, c.Table, forPath)
		for tries := 0; forPath && vals[k].text == "" && tries < 20; tries++ { // a path segment cannot be empty
			vals[k] = genVal(l.kind, r, c.Table, forPath)
		}
	}
	if c.Sibling {
		if k := role["p1"].kind; k == "string" {
			t := []string{"sib", "inner"}[r.Intn(2)]
			vals["p1"] = val{text: t, pv: protoreflect.ValueOfString(t)}
		} else {
			c.Sibling = false
		}
		ev.C.Sibling = c.Sibling
	}
	if c.ZeroPath { // the path carries the zero value of a presence-less kind; the competitors are non-zero
		if z, ok := zeroVal(role["p1"].kind); ok {
			vals["p1"] = z
		}
	}
	var rvals []val
	for i := 0; i < 1+r.Intn(3); i++ {
		rvals = append(rvals, genVal(role["r"].kind, r, c.Table, false))
	}
	comp := genVal(role["p1"].kind, r, false, false)
	for tries := 0; comp.text == vals["p1"].text && tries < 20; tries++ {
		comp = genVal(role["p1"].kind, r, false, false)
	}
	if role["p1"].kind == "bool" || role["p1"].kind == "wbool" {
		comp = val{text: "false", pv: protoreflect.ValueOfBool(false)}
	}
	// the message the client means
	M := dynamicpb.NewMessage(reqDesc())
	for _, k := range []string{"p1", "p2", "q1", "q2", "n", "b1", "b2"} {
		if present[k] {
			setLeaf(M, role[k].path, vals[k], false)
		}
	}
	if present["r"] {
		for _, v := range rvals {
			setLeaf(M, role["r"].path, v, true)
		}
	}
	// the rule
	tmpl := "/tc/{" + strings.Join(role["p1"].path, ".") + "}"
	if c.NPath == 2 {
		tmpl += "/x/{" + strings.Join(role["p2"].path, ".") + "}"
	}
	kind := "POST"
	if c.Body == "none" {
		kind = []string{"GET", "DELETE", "POST"}[r.pick(3)]
	} else {
		kind = []string{"POST", "PUT", "PATCH"}[r.pick(3)]
	}
	if c.Ws {
		kind = "WEBSOCKET"
	}
	rule := httpRule(kind, tmpl)
	switch c.Body {
	case "*":
		rule.Body = "*"
	case "b":
		rule.Body = "b"
	}
	// split
	inBody := func(k string) bool {
		switch c.Body {
		case "*":
			return k != "p1" && k != "p2"
		case "b":
			return k == "b1" || k == "b2"
		}
		return false
	}
	bodyMsg := dynamicpb.NewMessage(reqDesc())
	q := url.Values{}
	var qkeys []string
	addQ := func(k string, text string) {
		key := keyFor(role[k].path, c.Spell)
		if _, ok := q[key]; !ok {
			qkeys = append(qkeys, key)
		}
		q.Add(key, text)
	}
	textOf := func(k string) string {
		if c.Invalid == k {
			if t, ok := invalidText(role[k].kind, r); ok {
				return t
			}
			ev.C.Invalid = "" // every text is valid for this kind: an ordinary case
		}
		return vals[k].text
	}
	for _, k := range []string{"q1", "q2", "n", "b1", "b2"} {
		if !present[k] {
			continue
		}
		if inBody(k) {
			setLeaf(bodyMsg, role[k].path, vals[k], false)
		} else {
			addQ(k, textOf(k))
		}
	}
	if present["r"] {
		for _, v := range rvals {
			if inBody("r") {
				setLeaf(bodyMsg, role["r"].path, v, true)
			} else {
				addQ("r", v.text)
			}
		}
	}
	if c.ManyQ && c.Body != "*" {
		// a repeated field the case does not otherwise use, fourteen values in the query
		f, mk := "ri", func(i int) val {
			return val{text: strconv.Itoa(1000 + i), pv: protoreflect.ValueOfInt32(int32(1000 + i))}
		}
		if role["r"].path[0] == "ri" || !present["r"] && false {
			f, mk = "r", func(i int) val { s := fmt.Sprintf("m%d", i); return val{text: s, pv: protoreflect.ValueOfString(s)} }
		}
		key := keyFor([]string{f}, c.Spell)
		qkeys = append(qkeys, key)
		for i := 0; i < 14; i++ {
			v := mk(i)
			q.Add(key, v.text)
			setLeaf(M, []string{f}, v, true)
		}
	} else {
		ev.C.ManyQ = false
	}
	if c.CompQ {
		addQ("p1", comp.text)
	}
	if c.CompSub {
		sub, text := "", comp.text
		switch k := role["p1"].kind; {
		case strings.HasPrefix(k, "w"):
			sub = "value"
		case k == "ts" || k == "du":
			sub, text = "seconds", "99"
		}
		if sub != "" {
			key := keyFor(role["p1"].path, c.Spell) + "." + sub
			qkeys = append(qkeys, key)
			q.Add(key, text)
		} else {
			ev.C.CompSub = false
		}
	}
	if c.CompB {
		setLeaf(bodyMsg, role["p1"].path, comp, false)
	}
	// the path-bound field always carries the path's value - also when the request sets another member of its oneof, in the
	// query or in the body (setting a oneof member clears the others: applied after the path it would wipe the capture)
	if p1 := role["p1"].path; len(p1) == 1 && (p1[0] == "os" || p1[0] == "oi") && (c.CompQ || c.CompB) && r.Bool() {
		sib, sv := "oi", val{text: "7", pv: protoreflect.ValueOfInt32(7)}
		if p1[0] == "oi" {
			sib, sv = "os", val{text: "sibling", pv: protoreflect.ValueOfString("sibling")}
		}
		ev.C.CompSib = true
		if c.CompB && c.Body == "*" {
			setLeaf(bodyMsg, []string{sib}, sv, false)
		} else {
			key := keyFor([]string{sib}, c.Spell)
			qkeys = append(qkeys, key)
			q.Add(key, sv.text)
		}
	}
	path := "/tc/" + textOf("p1")
	if c.NPath == 2 {
		path += "/x/" + textOf("p2")
	}
	// query in a seeded order
	for i := len(qkeys) - 1; i > 0; i-- {
		j := r.Intn(i + 1)
		qkeys[i], qkeys[j] = qkeys[j], qkeys[i]
	}
	var qparts []string
	for _, k := range qkeys {
		for _, v := range q[k] {
			qparts = append(qparts, url.QueryEscape(k)+"="+url.QueryEscape(v))
		}
	}
	rawQuery := strings.Join(qparts, "&")
	// body bytes
	var body []byte
	if c.Body != "none" {
		var bm proto.Message = bodyMsg
		if c.Body == "b" {
			bm = bodyMsg.Get(reqDesc().Fields().ByName("b")).Message().Interface()
			if !bodyMsg.Has(reqDesc().Fields().ByName("b")) {
				bm = dynamicpb.NewMessage(subDesc())
			}
		}
		body = marshalMsg(c.Codec, bm)
		if c.Stream && c.Codec == "proto" {
			body = append(protowireVarint(len(body)), body...)
		}
		ev.BodyText = fmt.Sprintf("%q", truncate(string(body), 200))
		if c.Body == "b" && len(body) > 0 {
			// the body *is* field b: a non-empty body makes b present, possibly empty
			M.Mutable(reqDesc().Fields().ByName("b"))
		}
		if c.Gzip {
			// a gzip stream may consist of several members (RFC 1952 2.2; what `cat a.gz b.gz` or a flushing
			// writer produces): one case in three is cut into 2..3 members at drawn places
			if len(body) > 1 && r.Intn(3) == 0 {
				a := 1 + r.Intn(len(body)-1)
				parts := [][]byte{body[:a], body[a:]}
				if len(body)-a > 1 && r.Bool() {
					b := a + 1 + r.Intn(len(body)-a-1)
					parts = [][]byte{body[:a], body[a:b], body[b:]}
				}
				body = nil
				for _, p := range parts {
					body = append(body, gz(p)...)
				}
			} else {
				body = gz(body)
			}
		}
	}
	ev.URL = kind + " " + path + "?" + rawQuery
	// the mux
	svc := ServiceSpec{Name: "Tc", Methods: []MethodSpec{{Name: "Call", Rule: rule, ClientStream: c.Stream || c.Ws, ServerStream: c.Ws}}}
	if !c.Ws {
		// sibling rules below the same prefix: a literal leaf that only serves another verb, and a literal that is only
		// the inner node of a longer template.  A captured value that spells one of them still belongs to the variable.
		other := "GET"
		if kind == "GET" {
			other = "POST"
		}
		svc.Methods = append(svc.Methods,
			MethodSpec{Name: "Sib", Rule: httpRule(other, "/tc/sib")},
			MethodSpec{Name: "Inner", Rule: httpRule(kind, "/tc/inner/{s}/deep")})
	}
	files, sds, err := BuildFiles([]ServiceSpec{svc})
	if err != nil {
		ev.Crash = "setup: " + err.Error()
		return ev
	}
	if c.Rev { // the mux is configured with a newer revision of the messages than the handler was built against
		if fr, _, err := BuildFilesRev([]ServiceSpec{svc}); err == nil {
			files = fr
		}
	}
	mux, err := larking.NewMux(larking.FilesOption(files))
	if err != nil {
		ev.Crash = "setup: " + err.Error()
		return ev
	}
	var got *dynamicpb.Message
	un := func(ctx context.Context, full string, req *dynamicpb.Message) (proto.Message, error) {
		got = req
		return repMsg(c.ID, 1, 0), nil
	}
	st := func(full string, md protoreflect.MethodDescriptor, ss grpcServerStream) error {
		m := dynamicpb.NewMessage(reqDesc())
		if err := ss.RecvMsg(m); err != nil {
			return err
		}
		got = m
		return ss.SendMsg(repMsg(c.ID, 1, 0))
	}
	if err := larking.VerifRegisterService(mux, MakeServiceDesc(sds[0], un, st), struct{}{}); err != nil {
		ev.Crash = "setup: register: " + err.Error()
		return ev
	}
	req := httptest.NewRequest(kind, "http://verif.test/", nil)
	req.URL = &url.URL{Scheme: "http", Host: "verif.test", Path: path, RawQuery: rawQuery}
	if c.Body != "none" {
		req.Body = io.NopCloser(bytes.NewReader(body))
		req.ContentLength = int64(len(body))
		switch c.Framing {
		case "unsized":
			req.ContentLength = -1
			req.ProtoMajor, req.ProtoMinor, req.Proto = 2, 0, "HTTP/2.0"
		case "chunked":
			req.ContentLength = -1
			req.TransferEncoding = []string{"chunked"}
		}
		if c.Codec == "json" {
			req.Header.Set("Content-Type", "application/json")
		} else {
			req.Header.Set("Content-Type", "application/protobuf")
		}
		if c.Gzip {
			req.Header.Set("Content-Encoding", "gzip")
		}
	}
	// the reply may be asked for in another codec than the body is in: the body's codec is the Content-Type's
	switch c.Accept {
	case "*/*":
		req.Header.Set("Accept", "*/*")
	case "other":
		if c.Codec == "json" {
			req.Header.Set("Accept", "application/protobuf")
		} else {
			req.Header.Set("Accept", "application/json")
		}
	case "same":
		if c.Codec == "json" {
			req.Header.Set("Accept", "application/json")
		} else {
			req.Header.Set("Accept", "application/protobuf")
		}
	}
	w := httptest.NewRecorder()
	if c.Ws {
		// one text frame with the JSON body over a real socket; the handler's first message is what counts
		done := make(chan string, 1)
		srv := httptest.NewUnstartedServer(http.HandlerFunc(func(rw http.ResponseWriter, rq *http.Request) {
			defer func() {
				if p := recover(); p != nil {
					done <- fmt.Sprintf("panic: %v", p)
					return
				}
				done <- ""
			}()
			mux.ServeHTTP(rw, rq)
		}))
		srv.Config.ErrorLog = log.New(io.Discard, "", 0)
		srv.Start()
		conn, err := net.DialTimeout("tcp", srv.Listener.Addr().String(), 5*time.Second)
		if err != nil {
			srv.Close()
			ev.Crash = "infra: dial: " + err.Error()
			return ev
		}
		conn.SetDeadline(time.Now().Add(8 * time.Second))
		target := (&url.URL{Path: path, RawQuery: rawQuery}).RequestURI()
		fmt.Fprintf(conn, "GET %s HTTP/1.1\r\nHost: verif.test\r\nUpgrade: websocket\r\nConnection: Upgrade\r\nSec-WebSocket-Key: dGhlIHNhbXBsZSBub25jZQ==\r\nSec-WebSocket-Version: 13\r\n\r\n", target)
		br := bufio.NewReader(conn)
		if res, err := http.ReadResponse(br, nil); err == nil {
			w.Code = res.StatusCode
			if res.StatusCode == 101 {
				w.Code = 200
				conn.Write(wsFrame(1, true, true, 0, body))
				conn.Write(wsFrame(8, true, true, 0, []byte{0x03, 0xe8}))
				io.Copy(io.Discard, br)
			} else {
				b, _ := io.ReadAll(io.LimitReader(res.Body, 4096))
				w.Body.Write(b)
			}
		} else {
			w.Code = 0
		}
		conn.Close()
		select {
		case ev.Crash = <-done:
		case <-time.After(10 * time.Second):
			ev.Crash = "hang"
		}
		srv.Close()
	} else {
		func() {
			defer func() {
				if p := recover(); p != nil {
					ev.Crash = fmt.Sprintf("panic: %v", p)
				}
			}()
			mux.ServeHTTP(w, req)
		}()
	}
	ev.Status = w.Code
	if ev.Crash != "" {
		return ev
	}
	ev.Delivered = got != nil
	if got == nil {
		ev.Got = truncate(w.Body.String(), 160)
		return ev
	}
	if c.Body == "b" {
		// an empty body for field b (zero protobuf bytes, "{}") cannot say whether b is set: either is fine
		bfd := reqDesc().Fields().ByName("b")
		if got.Has(bfd) != M.Has(bfd) {
			if got.Has(bfd) && proto.Size(got.Get(bfd).Message().Interface()) == 0 {
				M.Mutable(bfd)
			} else if M.Has(bfd) && proto.Size(M.Get(bfd).Message().Interface()) == 0 {
				M.Clear(bfd)
			}
		}
	}
	ev.Equal = proto.Equal(M, got)
	if !ev.Equal {
		ev.Got = truncate(protojson.MarshalOptions{}.Format(got), 300)
		ev.Want = truncate(protojson.MarshalOptions{}.Format(M), 300)
	}
	for _, k := range []string{"p1", "p2", "q1", "q2", "n", "b1", "b2"} {
		_, has := getLeaf(got.ProtoReflect(), role[k].path)
		fds := fdPath(reqDesc(), role[k].path)
		emptyNoPresence := present[k] && vals[k].text == "" && !vals[k].isMsg && !fds[len(fds)-1].HasPresence()
		switch {
		case (vals[k].zero || emptyNoPresence) && !has:
			ev.Tags[k] = "true" // the zero value is the absence of the field
		case leafEquals(got, role[k].path, vals[k]):
			ev.Tags[k] = "true"
		case k == "p1" && leafEquals(got, role[k].path, comp):
			ev.Tags[k] = "comp"
		case !has:
			ev.Tags[k] = "absent"
		default:
			ev.Tags[k] = "other"
		}
		if !present[k] && ev.Tags[k] == "true" && !has {
			ev.Tags[k] = "absent"
		}
	}
	// the repeated role: all elements, in order
	{
		want := dynamicpb.NewMessage(reqDesc())
		for _, v := range rvals {
			setLeaf(want, role["r"].path, v, true)
		}
		fd := fdPath(reqDesc(), role["r"].path)[0]
		gl := got.Get(fd).List()
		wl := want.Get(fd).List()
		switch {
		case gl.Len() == 0:
			ev.Tags["r"] = "absent"
		case gl.Len() == wl.Len() && listEqual(fd, gl, wl):
			ev.Tags["r"] = "true"
		default:
			ev.Tags["r"] = "other"
		}
	}
	return ev
}

func listEqual(fd protoreflect.FieldDescriptor, a, b protoreflect.List) bool {
	for i := 0; i < a.Len(); i++ {
		if fd.Kind() == protoreflect.BytesKind {
			if !bytes.Equal(a.Get(i).Bytes(), b.Get(i).Bytes()) {
				return false
			}
		} else if a.Get(i).Interface() != b.Get(i).Interface() {
			return false
		}
	}
	return true
}

func truncate(s string, n int) string {
	if len(s) > n {
		return s[:n] + "..."
	}
	return s
}

func protowireVarint(n int) []byte {
	var out []byte
	v := uint64(n)
	for v >= 0x80 {
		out = append(out, byte(v)|0x80)
		v >>= 7
	}
	return append(out, byte(v))
}

// ---- C04: responses ----------------------------------------------------------------------------

type ARange struct {
	Type string `json:"type"`
	Q    int    `json:"q"` // tenths
}
type RespCase struct {
	ID        int      `json:"id"`
	Accept    []ARange `json:"accept"`
	Lines     int      `json:"lines"`    // split the ranges over this many Accept header lines
	ReqCT     string   `json:"reqct"`    // request content type
	Kind      string   `json:"kind"`     // msg | empty | large | httpbody
	RespBody  string   `json:"respbody"` // "" | sub | echo
	AcceptEnc string   `json:"acceptenc"`
	Junk      string   `json:"junk"` // extra unparseable text appended to the Accept header
	Hdr       string   `json:"hdr"`  // "" | set | send: the handler calls grpc.SetHeader / grpc.SendHeader before it returns the reply
}
type RespEv struct {
	Ev         string   `json:"ev"`
	Case       int      `json:"case"`
	Accept     []ARange `json:"accept"`
	ReqCT      string   `json:"reqct"`
	Kind       string   `json:"kind"`
	RespBody   string   `json:"respbody"`
	Status     int      `json:"status"`
	CT         string   `json:"ct"`
	WantCT     string   `json:"wantct"`
	CE         string   `json:"ce"`
	Decoded    bool     `json:"decoded"`
	CETruthful bool     `json:"cetruthful"`
	Crash      string   `json:"crash"`
	Header     string   `json:"header"`
}

func runRespCase(c RespCase, seed int64) RespEv {
	r := newRng(seed, c.ID, 57)
	ev := RespEv{Ev: "Resp", Case: c.ID, Accept: c.Accept, ReqCT: c.ReqCT, Kind: c.Kind, RespBody: c.RespBody}
	if ev.Accept == nil {
		ev.Accept = []ARange{}
	}
	rule := httpRule("POST", "/resp/{s}")
	rule.Body = "*"
	foreign := c.ReqCT != "" && !strings.HasPrefix(c.ReqCT, "application/json") && c.ReqCT != "application/protobuf" &&
		c.ReqCT != "application/octet-stream" && c.ReqCT != "application/x-verif"
	if foreign || c.ReqCT == "application/json; charset=utf-8" {
		// a content type no codec is registered for cannot carry a body: a body-less GET that nevertheless names one
		rule = httpRule("GET", "/resp/{s}")
		foreign = true
	}
	if c.Kind == "upecho" {
		// the request body is a raw upload into an HttpBody field; the handler answers with an ordinary message that
		// carries the uploaded bytes (the very slice it was given)
		rule = httpRule("POST", "/resp/{s}")
		rule.Body = "hb"
		foreign = false
	}
	rule.ResponseBody = c.RespBody
	out := ""
	if c.Kind == "httpbody" && c.RespBody != "hb" {
		out = ".google.api.HttpBody"
	}
	// every other case with a selector: the annotation declares the binding without response_body and a service-config
	// rule re-declares the same binding with it (google.api.http: rules in the service config override the annotation)
	var cfgOpt []larking.MuxOption
	if c.RespBody != "" && c.ID%2 == 0 {
		over := proto.Clone(rule).(*annotations.HttpRule)
		over.Selector = "vs.Rs.Call"
		rule.ResponseBody = ""
		cfgOpt = append(cfgOpt, larking.ServiceConfigOption(&serviceconfig.Service{Http: &annotations.Http{Rules: []*annotations.HttpRule{over}}}))
	}
	svc := ServiceSpec{Name: "Rs", Methods: []MethodSpec{{Name: "Call", Rule: rule, Out: out}}}
	files, sds, err := BuildFiles([]ServiceSpec{svc})
	if err != nil {
		ev.Crash = "setup: " + err.Error()
		return ev
	}
	if c.ID%4 == 1 { // rolling upgrade: the mux knows a newer revision of the messages than the handler
		if fr, _, err := BuildFilesRev([]ServiceSpec{svc}); err == nil {
			files = fr
		}
	}
	// a codec the user registered for a media type of their own, next to the built-in ones
	// an HttpBody reply whose data is exactly as long as the send limit allows (what is sent is the data, not the HttpBody
	// message around it)
	exactSend := c.Kind == "httpbody" && c.RespBody == "" && c.ID%4 == 3
	if exactSend {
		cfgOpt = append(cfgOpt, larking.MaxSendMessageSizeOption(300))
	}
	if c.ID%5 == 2 && c.Kind != "upecho" {
		// a mux that restricts what it receives (uploads) says nothing about what it may send: replies of any size go out
		cfgOpt = append(cfgOpt, larking.MaxReceiveMessageSizeOption(256))
	}
	mux, err := larking.NewMux(append([]larking.MuxOption{larking.FilesOption(files), larking.CodecOption("application/x-verif", larking.CodecJSON{})}, cfgOpt...)...)
	if err != nil {
		ev.Crash = "setup: " + err.Error()
		return ev
	}
	// the reply
	var reply proto.Message
	var wantSel proto.Message
	rawData := []byte{}
	switch c.Kind {
	case "httpbody":
		rawData = []byte("raw \x00\xff bytes " + strings.Repeat("z", r.Intn(300)))
		if exactSend {
			rawData = append(rawData, bytes.Repeat([]byte("y"), 300)...)[:300-c.ID%8/7]
		}
		ev.WantCT = []string{"image/png", "text/plain; charset=utf-8", "application/x-thing", "application/json", ""}[r.pick(5)]
		reply = &httpbody.HttpBody{ContentType: ev.WantCT, Data: rawData}
		if c.RespBody == "hb" { // the raw body is a field of a wrapper reply, selected by response_body
			rp := repMsg(c.ID, 1, 0)
			hb := dynamicpb.NewMessage(repDesc().Fields().ByName("hb").Message())
			hb.Set(hb.Descriptor().Fields().ByName("content_type"), protoreflect.ValueOfString(ev.WantCT))
			hb.Set(hb.Descriptor().Fields().ByName("data"), protoreflect.ValueOfBytes(rawData))
			rp.Set(repDesc().Fields().ByName("hb"), protoreflect.ValueOfMessage(hb))
			reply = rp
		}
	case "upecho":
		rawData = []byte("{\"upload\": \"" + strings.Repeat("u", 1+r.Intn(400)) + "\"}")
		rp := repMsg(c.ID, 1, 0)
		rp.Set(repDesc().Fields().ByName("pad"), protoreflect.ValueOfBytes(append([]byte{}, rawData...)))
		wantSel = rp
	default:
		rp := repMsg(c.ID, 1, 0)
		if c.Kind != "empty" {
			echo := dynamicpb.NewMessage(reqDesc())
			setLeaf(echo, []string{"s"}, genVal("string", r, true, false), false)
			setLeaf(echo, []string{"i64"}, genVal("int64", r, true, false), false)
			setLeaf(echo, []string{"by"}, genVal("bytes", r, true, false), false)
			setLeaf(echo, []string{"db"}, genVal("double", r, true, false), false)
			setLeaf(echo, []string{"n", "s"}, genVal("string", r, true, false), false)
			setLeaf(echo, []string{"ts"}, genVal("ts", r, true, false), false)
			setLeaf(echo, []string{"r"}, genVal("string", r, true, false), true)
			rp.Set(repDesc().Fields().ByName("echo"), protoreflect.ValueOfMessage(echo))
			sub := dynamicpb.NewMessage(subDesc())
			sub.Set(subDesc().Fields().ByName("s"), protoreflect.ValueOfString("sub-"+strconv.Itoa(c.ID)))
			rp.Set(repDesc().Fields().ByName("sub"), protoreflect.ValueOfMessage(sub))
			if c.Kind == "large" {
				rp.Set(repDesc().Fields().ByName("pad"), protoreflect.ValueOfBytes(bytes.Repeat([]byte("L"), 100000)))
			}
		} else {
			rp = dynamicpb.NewMessage(repDesc())
		}
		reply = rp
		wantSel = rp
		switch c.RespBody {
		case "sub":
			wantSel = rp.Get(repDesc().Fields().ByName("sub")).Message().Interface()
		case "echo":
			wantSel = rp.Get(repDesc().Fields().ByName("echo")).Message().Interface()
		}
	}
	un := func(ctx context.Context, full string, req *dynamicpb.Message) (proto.Message, error) {
		switch c.Hdr {
		case "set":
			grpc.SetHeader(ctx, metadata.Pairs("x-h", "1"))
		case "send":
			grpc.SendHeader(ctx, metadata.Pairs("x-h", "1"))
		}
		if c.Kind == "upecho" {
			rp := repMsg(c.ID, 1, 0)
			hbv := req.Get(req.Descriptor().Fields().ByName("hb")).Message()
			rp.Set(repDesc().Fields().ByName("pad"), hbv.Get(hbv.Descriptor().Fields().ByName("data"))) // not copied
			return rp, nil
		}
		return reply, nil
	}
	if err := larking.VerifRegisterService(mux, MakeServiceDesc(sds[0], un, nil), struct{}{}); err != nil {
		ev.Crash = "setup: register: " + err.Error()
		return ev
	}
	reqBody := []byte("{}")
	if c.ReqCT == "application/protobuf" || c.ReqCT == "application/octet-stream" {
		reqBody = []byte{}
	}
	if c.Kind == "upecho" {
		reqBody = rawData
	}
	// one request in three uploads its body gzip-compressed: how the reply is encoded is the business of Accept-Encoding
	// alone
	gzUpload := c.ID%3 == 1 && !foreign && c.Kind != "upecho"
	if gzUpload {
		reqBody = gz(reqBody)
	}
	req := httptest.NewRequest("POST", "http://verif.test/resp/x", bytes.NewReader(reqBody))
	req.ContentLength = int64(len(reqBody))
	if foreign {
		req = httptest.NewRequest("GET", "http://verif.test/resp/x", nil)
	}
	if gzUpload {
		req.Header.Set("Content-Encoding", "gzip")
	}
	if c.ReqCT != "" {
		req.Header.Set("Content-Type", c.ReqCT)
	}
	// render the Accept header
	var parts []string
	for _, rg := range c.Accept {
		p := rg.Type
		switch {
		case rg.Q == 10 && r.Bool():
		case rg.Q == 10: // every legal spelling of a weight (RFC 9110: up to three decimals)
			p += []string{";q=1", ";q=1.0", "; q=1.00", ";q=1.000", ";Q=1"}[r.Intn(5)]
		case rg.Q == 0:
			p += []string{";q=0", ";q=0.0", "; q=0.000", ";q=0."}[r.Intn(4)]
		default:
			p += []string{fmt.Sprintf("; q=0.%d", rg.Q), fmt.Sprintf(";q=0.%d0", rg.Q), fmt.Sprintf(";q=0.%d00", rg.Q), fmt.Sprintf(" ; q=.%d", rg.Q)[0:0] + fmt.Sprintf(";q=0.%d", rg.Q)}[r.Intn(4)]
		}
		parts = append(parts, p)
	}
	if c.Junk != "" {
		parts = append(parts, c.Junk)
	}
	if len(parts) > 0 {
		lines := c.Lines
		if lines < 1 {
			lines = 1
		}
		per := (len(parts) + lines - 1) / lines
		for i := 0; i < len(parts); i += per {
			e := i + per
			if e > len(parts) {
				e = len(parts)
			}
			// list separators with and without optional whitespace on either side of the comma (RFC 9110 5.6.1)
			line := ""
			for k, p := range parts[i:e] {
				if k > 0 {
					line += []string{", ", ",", " , ", "\t,\t", " ,"}[r.Intn(5)]
				}
				line += p
			}
			req.Header.Add("Accept", line)
		}
	}
	ev.Header = strings.Join(req.Header["Accept"], " | ")
	if c.AcceptEnc != "" {
		req.Header.Set("Accept-Encoding", c.AcceptEnc)
	}
	w := httptest.NewRecorder()
	func() {
		defer func() {
			if p := recover(); p != nil {
				ev.Crash = fmt.Sprintf("panic: %v", p)
			}
		}()
		mux.ServeHTTP(w, req)
	}()
	if ev.Crash != "" {
		return ev
	}
	res := w.Result()
	ev.Status = res.StatusCode
	ev.CT = res.Header.Get("Content-Type")
	ev.CE = res.Header.Get("Content-Encoding")
	body := w.Body.Bytes()
	ev.CETruthful = true
	isGz := len(body) >= 2 && body[0] == 0x1f && body[1] == 0x8b
	switch ev.CE {
	case "gzip":
		zr, err := gzipNewReader(body)
		if err != nil {
			ev.CETruthful = false
		} else {
			body = zr
		}
	case "", "identity":
		if isGz && c.Kind != "httpbody" {
			ev.CETruthful = false
		}
	default:
		ev.CETruthful = false
	}
	if c.Kind == "httpbody" {
		ev.Decoded = bytes.Equal(body, rawData)
		return ev
	}
	got := wantSel.ProtoReflect().New().Interface()
	switch ev.CT {
	case "application/json", "application/x-verif":
		ev.Decoded = protojson.Unmarshal(body, got) == nil && proto.Equal(got, wantSel)
	case "application/protobuf", "application/octet-stream":
		ev.Decoded = proto.Unmarshal(body, got) == nil && proto.Equal(got, wantSel)
	default:
		ev.Decoded = false
	}
	return ev
}

func gzipNewReader(b []byte) ([]byte, error) {
	zr, err := gzipReaderOf(b)
	if err != nil {
		return nil, err
	}
	return zr, nil
}

func init() { drivers["transcode"] = transcodeMain }

func transcodeMain(args []string) error {
	c := newCommon("transcode")
	c.fs.Parse(args)
	tw, err := newTraceWriter(c.out)
	if err != nil {
		return err
	}
	type item struct {
		tc *TcAbs
		rc *RespCase
	}
	var items []item
	err = readLines(c.cases, func(b []byte) error {
		var probe struct {
			Fam string `json:"fam"`
		}
		json.Unmarshal(b, &probe)
		if probe.Fam == "resp" {
			var rc RespCase
			if err := json.Unmarshal(b, &rc); err != nil {
				return err
			}
			items = append(items, item{rc: &rc})
		} else {
			var tc TcAbs
			if err := json.Unmarshal(b, &tc); err != nil {
				return err
			}
			items = append(items, item{tc: &tc})
		}
		return nil
	})
	if err != nil {
		return err
	}
	work := make(chan item, 64)
	var wg sync.WaitGroup
	for i := 0; i < runtime.NumCPU(); i++ {
		wg.Add(1)
		go func() {
			defer wg.Done()
			for it := range work {
				if it.tc != nil {
					ev := func() (ev TcEv) {
						defer func() {
							if p := recover(); p != nil {
								ev = TcEv{Ev: "Tc", Case: it.tc.ID, C: *it.tc, Tags: map[string]string{}, Fields: map[string]string{}, Crash: fmt.Sprintf("driver: %v", p)}
							}
						}()
						return runTcCase(*it.tc, c.seed)
					}()
					if ev.C.Present == nil {
						ev.C.Present = []string{}
					}
					for _, k := range []string{"p1", "p2", "q1", "q2", "r", "n", "b1", "b2"} {
						if _, ok := ev.Tags[k]; !ok {
							ev.Tags[k] = "absent"
						}
					}
					tw.Emit(ev)
				} else {
					tw.Emit(runRespCase(*it.rc, c.seed))
				}
			}
		}()
	}
	for _, it := range items {
		work <- it
	}
	close(work)
	wg.Wait()
	fmt.Printf("transcode: cases=%d events=%d\n", len(items), tw.n)
	return tw.Close()
}

var _ = annotations.E_Http

type grpcServerStream = grpc.ServerStream

func gzipReaderOf(b []byte) ([]byte, error) {
	zr, err := gzip.NewReader(bytes.NewReader(b))
	if err != nil {
		return nil, err
	}
	return io.ReadAll(zr)
}
