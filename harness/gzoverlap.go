package main

// Driver "gzoverlap" (C13): a proxied HTTP client stream with a gzip request body whose backend fails while the client is
// still sending, followed by another gzip upload on the same mux.  Whatever the first call leaves behind (its forwarder's
// pump may still be reading the first body, see F51) must not reach the second call: its backend receives exactly the
// second call's messages.

import (
	"bytes"
	"compress/gzip"
	"context"
	"fmt"
	"io"
	"net"
	"net/http"
	"net/http/httptest"
	"strings"
	"sync"
	"time"

	"google.golang.org/grpc"
	"google.golang.org/grpc/codes"
	"google.golang.org/grpc/credentials/insecure"
	"google.golang.org/grpc/reflection"
	rpb "google.golang.org/grpc/reflection/grpc_reflection_v1alpha"
	"google.golang.org/grpc/status"
	"google.golang.org/grpc/test/bufconn"
	"google.golang.org/protobuf/encoding/protojson"
	"google.golang.org/protobuf/proto"
	"google.golang.org/protobuf/reflect/protoreflect"
	"google.golang.org/protobuf/types/dynamicpb"
	"larking.io/larking"
)

type OverlapEv struct {
	Ev          string   `json:"ev"`
	Case        int      `json:"case"`
	FirstStatus int      `json:"firststatus"` // HTTP status of the call whose backend failed
	Status      int      `json:"status"`      // HTTP status of the following call
	Sent        []string `json:"sent"`        // ids the following call uploaded
	Got         []string `json:"got"`         // ids its backend received, in order
	Crash       string   `json:"crash"`
}

func runGzOverlap(id int, nsecond int) OverlapEv {
	ev := OverlapEv{Ev: "Overlap", Case: id, Sent: []string{}, Got: []string{}}
	defer func() {
		if p := recover(); p != nil {
			ev.Crash = fmt.Sprint(p)
		}
	}()
	rule := httpRule("POST", "/t/up")
	rule.Body = "*"
	svc := ServiceSpec{Pkg: "vg", Name: "U", Methods: []MethodSpec{{Name: "Up", ClientStream: true, Rule: rule}}}
	files, sds, err := BuildFiles([]ServiceSpec{svc})
	if err != nil {
		ev.Crash = "setup: " + err.Error()
		return ev
	}
	var mu sync.Mutex
	got := map[string][]string{}
	st := func(full string, md protoreflect.MethodDescriptor, ss grpc.ServerStream) error {
		call := ""
		for {
			m := dynamicpb.NewMessage(reqDesc())
			if err := ss.RecvMsg(m); err != nil {
				if err == io.EOF {
					return ss.SendMsg(tagReply("done"))
				}
				return err
			}
			s := m.Get(reqDesc().Fields().ByName("s")).String()
			if call == "" {
				call = strings.SplitN(s, "-", 2)[0]
			}
			mu.Lock()
			got[call] = append(got[call], s)
			mu.Unlock()
			if strings.HasPrefix(s, "fail") {
				return status.Error(codes.PermissionDenied, "uploads are closed")
			}
		}
	}
	lis := bufconn.Listen(1 << 16)
	gs := grpc.NewServer()
	gs.RegisterService(MakeServiceDesc(sds[0], nil, st), struct{}{})
	rpb.RegisterServerReflectionServer(gs, reflection.NewServer(reflection.ServerOptions{Services: gs, DescriptorResolver: fallbackResolver{files}}))
	go gs.Serve(lis)
	defer gs.Stop()
	cc, err := grpc.NewClient("passthrough:///u", grpc.WithContextDialer(func(ctx context.Context, _ string) (net.Conn, error) { return lis.DialContext(ctx) }),
		grpc.WithTransportCredentials(insecure.NewCredentials()))
	if err != nil {
		ev.Crash = "setup: " + err.Error()
		return ev
	}
	defer cc.Close()
	mux, err := larking.NewMux()
	if err != nil {
		ev.Crash = "setup: " + err.Error()
		return ev
	}
	ctx, cancel := context.WithTimeout(context.Background(), 10*time.Second)
	err = mux.RegisterConn(ctx, cc)
	cancel()
	if err != nil {
		ev.Crash = "setup: RegisterConn: " + err.Error()
		return ev
	}
	msg := func(id string, pad int) []byte {
		m := dynamicpb.NewMessage(reqDesc())
		m.Set(reqDesc().Fields().ByName("s"), protoreflect.ValueOfString(id))
		m.Set(reqDesc().Fields().ByName("t"), protoreflect.ValueOfString(filler(pad, len(id))))
		b, _ := protojson.Marshal(m)
		return b
	}
	// first call: the body is a pipe; one message goes out (flushed through the gzip writer), the client stays in the upload
	pr, pw := io.Pipe()
	zw := gzip.NewWriter(pw)
	firstDone := make(chan int, 1)
	go func() {
		req := httptest.NewRequest("POST", "http://verif.test/t/up", pr)
		req.ContentLength = -1
		req.Header.Set("Content-Type", "application/json")
		req.Header.Set("Content-Encoding", "gzip")
		w := httptest.NewRecorder()
		mux.ServeHTTP(w, req)
		firstDone <- w.Code
	}()
	zw.Write(msg("fail-1", 40))
	zw.Flush()
	select {
	case ev.FirstStatus = <-firstDone:
	case <-time.After(10 * time.Second):
		ev.Crash = "hang: the call whose backend failed did not end"
		pw.CloseWithError(io.ErrClosedPipe)
		return ev
	}
	// second call, while the first upload is still open
	var body bytes.Buffer
	z2 := gzip.NewWriter(&body)
	for k := 1; k <= nsecond; k++ {
		sid := fmt.Sprintf("b%d-%d", id, k)
		ev.Sent = append(ev.Sent, sid)
		z2.Write(msg(sid, 30+17*k))
	}
	z2.Close()
	secondDone := make(chan int, 1)
	go func() {
		req := httptest.NewRequest("POST", "http://verif.test/t/up", bytes.NewReader(body.Bytes()))
		req.Header.Set("Content-Type", "application/json")
		req.Header.Set("Content-Encoding", "gzip")
		w := httptest.NewRecorder()
		mux.ServeHTTP(w, req)
		secondDone <- w.Code
	}()
	// the first client goes on sending for a moment (nobody may be reading any more: the writes must not hold up the driver)
	go func() {
		zw.Write(msg("fail-2", 500))
		zw.Flush()
	}()
	select {
	case ev.Status = <-secondDone:
	case <-time.After(10 * time.Second):
		ev.Crash = "hang: the upload after the failed one did not end"
	}
	pw.CloseWithError(io.ErrClosedPipe) // ... and gives up
	mu.Lock()
	ev.Got = append(ev.Got, got[fmt.Sprintf("b%d", id)]...)
	mu.Unlock()
	return ev
}

func init() { drivers["gzoverlap"] = gzOverlapMain }

func gzOverlapMain(args []string) error {
	c := newCommon("gzoverlap")
	c.fs.Parse(args)
	tw, err := newTraceWriter(c.out)
	if err != nil {
		return err
	}
	n := c.n
	if n <= 0 {
		n = 12
	}
	for i := 1; i <= n; i++ {
		tw.Emit(runGzOverlap(i, 1+i%4))
	}
	return tw.Close()
}

var _ = http.StatusOK
var _ proto.Message
