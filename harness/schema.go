package main

// Dynamic proto schemas: messages with every field kind and services whose
// google.api.http options are chosen per case. No protoc involved.

import (
	"fmt"
	"sync"

	"google.golang.org/genproto/googleapis/api/annotations"
	_ "google.golang.org/genproto/googleapis/api/httpbody"
	"google.golang.org/protobuf/proto"
	"google.golang.org/protobuf/reflect/protodesc"
	"google.golang.org/protobuf/reflect/protoreflect"
	"google.golang.org/protobuf/reflect/protoregistry"
	"google.golang.org/protobuf/types/descriptorpb"
	_ "google.golang.org/protobuf/types/known/anypb"
	_ "google.golang.org/protobuf/types/known/durationpb"
	_ "google.golang.org/protobuf/types/known/emptypb"
	_ "google.golang.org/protobuf/types/known/fieldmaskpb"
	_ "google.golang.org/protobuf/types/known/structpb"
	_ "google.golang.org/protobuf/types/known/timestamppb"
	_ "google.golang.org/protobuf/types/known/wrapperspb"
)

const msgsFile = "verif/msgs.proto"

type fdef struct {
	name  string
	num   int32
	typ   descriptorpb.FieldDescriptorProto_Type
	tname string // for message / enum
	rep   bool
	oneof int32 // 1-based oneof index, 0 = none
}

func mkField(f fdef) *descriptorpb.FieldDescriptorProto {
	fd := &descriptorpb.FieldDescriptorProto{
		Name:   proto.String(f.name),
		Number: proto.Int32(f.num),
		Type:   f.typ.Enum(),
		Label:  descriptorpb.FieldDescriptorProto_LABEL_OPTIONAL.Enum(),
	}
	if f.rep {
		fd.Label = descriptorpb.FieldDescriptorProto_LABEL_REPEATED.Enum()
	}
	if f.tname != "" {
		fd.TypeName = proto.String(f.tname)
	}
	if f.oneof > 0 {
		fd.OneofIndex = proto.Int32(f.oneof - 1)
	}
	return fd
}

const (
	tString = descriptorpb.FieldDescriptorProto_TYPE_STRING
	tInt32  = descriptorpb.FieldDescriptorProto_TYPE_INT32
	tInt64  = descriptorpb.FieldDescriptorProto_TYPE_INT64
	tUint32 = descriptorpb.FieldDescriptorProto_TYPE_UINT32
	tUint64 = descriptorpb.FieldDescriptorProto_TYPE_UINT64
	tSint32 = descriptorpb.FieldDescriptorProto_TYPE_SINT32
	tSint64 = descriptorpb.FieldDescriptorProto_TYPE_SINT64
	tFix32  = descriptorpb.FieldDescriptorProto_TYPE_FIXED32
	tFix64  = descriptorpb.FieldDescriptorProto_TYPE_FIXED64
	tSfix32 = descriptorpb.FieldDescriptorProto_TYPE_SFIXED32
	tSfix64 = descriptorpb.FieldDescriptorProto_TYPE_SFIXED64
	tFloat  = descriptorpb.FieldDescriptorProto_TYPE_FLOAT
	tDouble = descriptorpb.FieldDescriptorProto_TYPE_DOUBLE
	tBool   = descriptorpb.FieldDescriptorProto_TYPE_BOOL
	tBytes  = descriptorpb.FieldDescriptorProto_TYPE_BYTES
	tEnum   = descriptorpb.FieldDescriptorProto_TYPE_ENUM
	tMsg    = descriptorpb.FieldDescriptorProto_TYPE_MESSAGE
)

// msgsProto is the shared message file (package vr).
func msgsProto() *descriptorpb.FileDescriptorProto {
	sub := &descriptorpb.DescriptorProto{
		Name: proto.String("Sub"),
		Field: []*descriptorpb.FieldDescriptorProto{
			mkField(fdef{name: "s", num: 1, typ: tString}),
			mkField(fdef{name: "i", num: 2, typ: tInt32}),
			mkField(fdef{name: "deep", num: 3, typ: tMsg, tname: ".vr.Leaf"}),
			mkField(fdef{name: "rs", num: 4, typ: tString, rep: true}),
			mkField(fdef{name: "sub_name", num: 5, typ: tString}),
		},
	}
	leaf := &descriptorpb.DescriptorProto{
		Name: proto.String("Leaf"),
		Field: []*descriptorpb.FieldDescriptorProto{
			mkField(fdef{name: "s", num: 1, typ: tString}),
			mkField(fdef{name: "i", num: 2, typ: tInt32}),
		},
	}
	mapEntry := &descriptorpb.DescriptorProto{
		Name: proto.String("MpEntry"),
		Field: []*descriptorpb.FieldDescriptorProto{
			mkField(fdef{name: "key", num: 1, typ: tString}),
			mkField(fdef{name: "value", num: 2, typ: tString}),
		},
		Options: &descriptorpb.MessageOptions{MapEntry: proto.Bool(true)},
	}
	req := &descriptorpb.DescriptorProto{
		Name: proto.String("Req"),
		Field: []*descriptorpb.FieldDescriptorProto{
			mkField(fdef{name: "s", num: 1, typ: tString}),
			mkField(fdef{name: "t", num: 2, typ: tString}),
			mkField(fdef{name: "i", num: 3, typ: tInt32}),
			mkField(fdef{name: "n", num: 4, typ: tMsg, tname: ".vr.Sub"}),
			mkField(fdef{name: "r", num: 5, typ: tString, rep: true}),
			mkField(fdef{name: "b", num: 6, typ: tMsg, tname: ".vr.Sub"}),
			mkField(fdef{name: "i64", num: 7, typ: tInt64}),
			mkField(fdef{name: "u32", num: 8, typ: tUint32}),
			mkField(fdef{name: "u64", num: 9, typ: tUint64}),
			mkField(fdef{name: "s32", num: 10, typ: tSint32}),
			mkField(fdef{name: "s64", num: 11, typ: tSint64}),
			mkField(fdef{name: "f32", num: 12, typ: tFix32}),
			mkField(fdef{name: "f64", num: 13, typ: tFix64}),
			mkField(fdef{name: "sf32", num: 14, typ: tSfix32}),
			mkField(fdef{name: "sf64", num: 15, typ: tSfix64}),
			mkField(fdef{name: "fl", num: 16, typ: tFloat}),
			mkField(fdef{name: "db", num: 17, typ: tDouble}),
			mkField(fdef{name: "bo", num: 18, typ: tBool}),
			mkField(fdef{name: "by", num: 19, typ: tBytes}),
			mkField(fdef{name: "en", num: 20, typ: tEnum, tname: ".vr.Color"}),
			mkField(fdef{name: "ri", num: 21, typ: tInt32, rep: true}),
			mkField(fdef{name: "rn", num: 22, typ: tMsg, tname: ".vr.Sub", rep: true}),
			mkField(fdef{name: "mp", num: 23, typ: tMsg, tname: ".vr.Req.MpEntry", rep: true}),
			mkField(fdef{name: "os", num: 24, typ: tString, oneof: 1}),
			mkField(fdef{name: "oi", num: 25, typ: tInt32, oneof: 1}),
			mkField(fdef{name: "ts", num: 26, typ: tMsg, tname: ".google.protobuf.Timestamp"}),
			mkField(fdef{name: "du", num: 27, typ: tMsg, tname: ".google.protobuf.Duration"}),
			mkField(fdef{name: "fm", num: 28, typ: tMsg, tname: ".google.protobuf.FieldMask"}),
			mkField(fdef{name: "wb", num: 29, typ: tMsg, tname: ".google.protobuf.BoolValue"}),
			mkField(fdef{name: "wi32", num: 30, typ: tMsg, tname: ".google.protobuf.Int32Value"}),
			mkField(fdef{name: "wi64", num: 31, typ: tMsg, tname: ".google.protobuf.Int64Value"}),
			mkField(fdef{name: "wu32", num: 32, typ: tMsg, tname: ".google.protobuf.UInt32Value"}),
			mkField(fdef{name: "wu64", num: 33, typ: tMsg, tname: ".google.protobuf.UInt64Value"}),
			mkField(fdef{name: "wf", num: 34, typ: tMsg, tname: ".google.protobuf.FloatValue"}),
			mkField(fdef{name: "wd", num: 35, typ: tMsg, tname: ".google.protobuf.DoubleValue"}),
			mkField(fdef{name: "wby", num: 36, typ: tMsg, tname: ".google.protobuf.BytesValue"}),
			mkField(fdef{name: "ws", num: 37, typ: tMsg, tname: ".google.protobuf.StringValue"}),
			mkField(fdef{name: "long_name", num: 38, typ: tString}),
			mkField(fdef{name: "re", num: 39, typ: tEnum, tname: ".vr.Color", rep: true}),
			mkField(fdef{name: "rby", num: 40, typ: tBytes, rep: true}),
			mkField(fdef{name: "hb", num: 41, typ: tMsg, tname: ".google.api.HttpBody"}),
			mkField(fdef{name: "pad", num: 42, typ: tBytes}),
		},
		NestedType: []*descriptorpb.DescriptorProto{mapEntry},
		OneofDecl:  []*descriptorpb.OneofDescriptorProto{{Name: proto.String("o")}},
	}
	rep := &descriptorpb.DescriptorProto{
		Name: proto.String("Rep"),
		Field: []*descriptorpb.FieldDescriptorProto{
			mkField(fdef{name: "id", num: 1, typ: tString}),
			mkField(fdef{name: "echo", num: 2, typ: tMsg, tname: ".vr.Req"}),
			mkField(fdef{name: "sub", num: 3, typ: tMsg, tname: ".vr.Sub"}),
			mkField(fdef{name: "hb", num: 4, typ: tMsg, tname: ".google.api.HttpBody"}),
			mkField(fdef{name: "seq", num: 5, typ: tInt32}),
			mkField(fdef{name: "pad", num: 6, typ: tBytes}),
		},
	}
	color := &descriptorpb.EnumDescriptorProto{
		Name: proto.String("Color"),
		Value: []*descriptorpb.EnumValueDescriptorProto{
			{Name: proto.String("COLOR_UNSPECIFIED"), Number: proto.Int32(0)},
			{Name: proto.String("RED"), Number: proto.Int32(1)},
			{Name: proto.String("GREEN"), Number: proto.Int32(2)},
			{Name: proto.String("BLUE"), Number: proto.Int32(7)},
		},
	}
	return &descriptorpb.FileDescriptorProto{
		Name:    proto.String(msgsFile),
		Package: proto.String("vr"),
		Syntax:  proto.String("proto3"),
		Dependency: []string{
			"google/protobuf/timestamp.proto",
			"google/protobuf/duration.proto",
			"google/protobuf/field_mask.proto",
			"google/protobuf/wrappers.proto",
			"google/api/httpbody.proto",
		},
		MessageType: []*descriptorpb.DescriptorProto{leaf, sub, req, rep},
		EnumType:    []*descriptorpb.EnumDescriptorProto{color},
	}
}

// fallbackResolver looks in the private registry first, then the global one.
type fallbackResolver struct{ files *protoregistry.Files }

func (r fallbackResolver) FindFileByPath(p string) (protoreflect.FileDescriptor, error) {
	if fd, err := r.files.FindFileByPath(p); err == nil {
		return fd, nil
	}
	return protoregistry.GlobalFiles.FindFileByPath(p)
}
func (r fallbackResolver) FindDescriptorByName(n protoreflect.FullName) (protoreflect.Descriptor, error) {
	if d, err := r.files.FindDescriptorByName(n); err == nil {
		return d, nil
	}
	return protoregistry.GlobalFiles.FindDescriptorByName(n)
}

var (
	msgsOnce sync.Once
	msgsFD   protoreflect.FileDescriptor
)

func msgsFileDesc() protoreflect.FileDescriptor {
	msgsOnce.Do(func() {
		fd, err := protodesc.NewFile(msgsProto(), protoregistry.GlobalFiles)
		if err != nil {
			panic(err)
		}
		msgsFD = fd
	})
	return msgsFD
}

// msgsFileDescRev is a NEWER REVISION of the same messages file: every message has a field added in front of the others
// (new number, so wire- and name-compatible; but every field index moves up by one).  A mux configured with these
// descriptors (FilesOption) in front of handlers built against the older revision is what a rolling upgrade looks like.
var (
	msgsRevOnce sync.Once
	msgsRevFD   protoreflect.FileDescriptor
)

func msgsFileDescRev() protoreflect.FileDescriptor {
	msgsRevOnce.Do(func() {
		fdp := msgsProto()
		for _, m := range fdp.MessageType {
			if m.GetName() == "Req" || m.GetName() == "Sub" || m.GetName() == "Leaf" || m.GetName() == "Rep" {
				added := mkField(fdef{name: "zz_added_in_rev", num: 900, typ: tString})
				m.Field = append([]*descriptorpb.FieldDescriptorProto{added}, m.Field...)
			}
		}
		fd, err := protodesc.NewFile(fdp, protoregistry.GlobalFiles)
		if err != nil {
			panic(err)
		}
		msgsRevFD = fd
	})
	return msgsRevFD
}

func reqDesc() protoreflect.MessageDescriptor { return msgsFileDesc().Messages().ByName("Req") }
func repDesc() protoreflect.MessageDescriptor { return msgsFileDesc().Messages().ByName("Rep") }
func subDesc() protoreflect.MessageDescriptor { return msgsFileDesc().Messages().ByName("Sub") }

// MethodSpec describes one method of a dynamic service.
type MethodSpec struct {
	Name         string
	ClientStream bool
	ServerStream bool
	Rule         *annotations.HttpRule // proto annotation, may be nil
	In, Out      string                // fully-qualified, default .vr.Req / .vr.Rep
}

// ServiceSpec describes one dynamic service.
type ServiceSpec struct {
	Pkg     string // proto package, default "vs"
	Name    string
	Methods []MethodSpec
}

func (s ServiceSpec) FullName() string {
	pkg := s.Pkg
	if pkg == "" {
		pkg = "vs"
	}
	return pkg + "." + s.Name
}

var fileSeq struct {
	sync.Mutex
	n int
}

// BuildFiles creates one file per service (so that services can live in
// different packages) and a registry holding them plus the messages file.
func BuildFiles(svcs []ServiceSpec) (*protoregistry.Files, []protoreflect.ServiceDescriptor, error) {
	return buildFilesWith(msgsFileDesc(), svcs)
}

// BuildFilesRev: the same services over the newer revision of the messages (for the mux's FilesOption).
func BuildFilesRev(svcs []ServiceSpec) (*protoregistry.Files, []protoreflect.ServiceDescriptor, error) {
	return buildFilesWith(msgsFileDescRev(), svcs)
}

// BuildFilesOneFile declares all the services (of one package) in ONE proto file, as hand-written APIs usually do.
func BuildFilesOneFile(svcs []ServiceSpec) (*protoregistry.Files, []protoreflect.ServiceDescriptor, error) {
	files := &protoregistry.Files{}
	if err := files.RegisterFile(msgsFileDesc()); err != nil {
		return nil, nil, err
	}
	pkg := svcs[0].Pkg
	if pkg == "" {
		pkg = "vs"
	}
	fileSeq.Lock()
	fileSeq.n++
	fname := fmt.Sprintf("verif/multi_%d.proto", fileSeq.n)
	fileSeq.Unlock()
	fdp := &descriptorpb.FileDescriptorProto{
		Name:       proto.String(fname),
		Package:    proto.String(pkg),
		Syntax:     proto.String("proto3"),
		Dependency: []string{msgsFile, "google/api/annotations.proto", "google/api/httpbody.proto", "google/protobuf/empty.proto"},
	}
	for _, svc := range svcs {
		fdp.Service = append(fdp.Service, serviceProto(svc))
	}
	fd, err := protodesc.NewFile(fdp, fallbackResolver{files})
	if err != nil {
		return nil, nil, fmt.Errorf("protodesc: %w", err)
	}
	if err := files.RegisterFile(fd); err != nil {
		return nil, nil, err
	}
	var sds []protoreflect.ServiceDescriptor
	for i := 0; i < fd.Services().Len(); i++ {
		sds = append(sds, fd.Services().Get(i))
	}
	return files, sds, nil
}

func serviceProto(svc ServiceSpec) *descriptorpb.ServiceDescriptorProto {
	sdp := &descriptorpb.ServiceDescriptorProto{Name: proto.String(svc.Name)}
	for _, m := range svc.Methods {
		in, out := m.In, m.Out
		if in == "" {
			in = ".vr.Req"
		}
		if out == "" {
			out = ".vr.Rep"
		}
		mdp := &descriptorpb.MethodDescriptorProto{
			Name:            proto.String(m.Name),
			InputType:       proto.String(in),
			OutputType:      proto.String(out),
			ClientStreaming: proto.Bool(m.ClientStream),
			ServerStreaming: proto.Bool(m.ServerStream),
		}
		if m.Rule != nil {
			opts := &descriptorpb.MethodOptions{}
			proto.SetExtension(opts, annotations.E_Http, m.Rule)
			mdp.Options = opts
		}
		sdp.Method = append(sdp.Method, mdp)
	}
	return sdp
}

func buildFilesWith(msgs protoreflect.FileDescriptor, svcs []ServiceSpec) (*protoregistry.Files, []protoreflect.ServiceDescriptor, error) {
	files := &protoregistry.Files{}
	if err := files.RegisterFile(msgs); err != nil {
		return nil, nil, err
	}
	var sds []protoreflect.ServiceDescriptor
	for _, svc := range svcs {
		pkg := svc.Pkg
		if pkg == "" {
			pkg = "vs"
		}
		fileSeq.Lock()
		fileSeq.n++
		fname := fmt.Sprintf("verif/svc_%d.proto", fileSeq.n)
		fileSeq.Unlock()
		sdp := &descriptorpb.ServiceDescriptorProto{Name: proto.String(svc.Name)}
		for _, m := range svc.Methods {
			in, out := m.In, m.Out
			if in == "" {
				in = ".vr.Req"
			}
			if out == "" {
				out = ".vr.Rep"
			}
			mdp := &descriptorpb.MethodDescriptorProto{
				Name:            proto.String(m.Name),
				InputType:       proto.String(in),
				OutputType:      proto.String(out),
				ClientStreaming: proto.Bool(m.ClientStream),
				ServerStreaming: proto.Bool(m.ServerStream),
			}
			if m.Rule != nil {
				opts := &descriptorpb.MethodOptions{}
				proto.SetExtension(opts, annotations.E_Http, m.Rule)
				mdp.Options = opts
			}
			sdp.Method = append(sdp.Method, mdp)
		}
		fdp := &descriptorpb.FileDescriptorProto{
			Name:       proto.String(fname),
			Package:    proto.String(pkg),
			Syntax:     proto.String("proto3"),
			Dependency: []string{msgsFile, "google/api/annotations.proto", "google/api/httpbody.proto", "google/protobuf/empty.proto"},
			Service:    []*descriptorpb.ServiceDescriptorProto{sdp},
		}
		fd, err := protodesc.NewFile(fdp, fallbackResolver{files})
		if err != nil {
			return nil, nil, fmt.Errorf("protodesc: %w", err)
		}
		if err := files.RegisterFile(fd); err != nil {
			return nil, nil, err
		}
		sds = append(sds, fd.Services().Get(0))
	}
	return files, sds, nil
}
