package main

// WebSocket transport of the rpc driver (proto "ws"): a real loopback server in front of
// the case's mux, a raw client that speaks RFC 6455 frames, JSON text messages.

import (
	"bufio"
	"encoding/binary"
	"fmt"
	"io"
	"log"
	"net"
	"net/http"
	"net/http/httptest"
	"strings"
	"time"
	"unicode/utf8"
)

// wantMessage is the status message of the first failing ret step of the script.
func (e *rpcEnv) wantMessage() (string, bool) {
	for _, st := range e.c.Script {
		if st.Op == "ret" {
			if st.Code == 0 {
				return "", false
			}
			if re, ok := rawErrors[st.Code]; ok {
				return re.Error(), true
			}
			return statusText(st.Msg), true
		}
	}
	return "", false
}

func (e *rpcEnv) runWs(ev *RpcEv) {
	c := e.c
	done := make(chan string, 1)
	srv := httptest.NewUnstartedServer(http.HandlerFunc(func(w http.ResponseWriter, r *http.Request) {
		defer func() {
			if p := recover(); p != nil {
				done <- fmt.Sprintf("panic: %v", p)
				return
			}
			done <- ""
		}()
		e.mux.ServeHTTP(w, r)
	}))
	srv.Config.ErrorLog = log.New(io.Discard, "", 0)
	srv.Start()
	defer srv.Close()
	_, path := methodOf(c.Shape)
	path = "/w" + strings.TrimPrefix(path, "/t")
	if c.WsNoBody {
		path = "/wn" + strings.TrimPrefix(path, "/w")
	}
	conn, err := net.DialTimeout("tcp", srv.Listener.Addr().String(), 5*time.Second)
	if err != nil {
		ev.Crash = "infra: dial: " + err.Error()
		return
	}
	defer conn.Close()
	conn.SetDeadline(time.Now().Add(10 * time.Second))
	fmt.Fprintf(conn, "GET %s HTTP/1.1\r\nHost: verif.test\r\nUpgrade: websocket\r\nConnection: Upgrade\r\nSec-WebSocket-Key: dGhlIHNhbXBsZSBub25jZQ==\r\nSec-WebSocket-Version: 13\r\n\r\n", path)
	br := bufio.NewReader(conn)
	res, err := http.ReadResponse(br, nil)
	co := ClientObs{Msgs: []RecvObs{}, Hdr: MD{}, Trl: MD{}, Clean: true, Status: StatusObs{Shape: []string{}}, Forged: []string{}}
	if err != nil {
		co.Note = "no HTTP response: " + err.Error()
		co.Clean = false
	} else {
		co.HTTP = res.StatusCode
	}
	if co.HTTP == 101 {
		for _, m := range e.sent {
			if c.WsNoBody {
				break // nothing travels in frames
			}
			p := marshalMsg("json", m)
			var wire []byte
			if c.WsFrag > 0 && len(p) > c.WsFrag { // one message as a run of continuation frames
				for off, first := 0, true; off < len(p); off += c.WsFrag {
					end := off + c.WsFrag
					if end > len(p) {
						end = len(p)
					}
					op := byte(0)
					if first {
						op, first = 1, false
					}
					wire = append(wire, wsFrame(op, end == len(p), true, 0, p[off:end])...)
				}
			} else {
				wire = wsFrame(1, true, true, 0, p)
			}
			if _, err := conn.Write(wire); err != nil {
				break
			}
		}
		if c.WsClose {
			switch c.WsCloseAs {
			case 1001:
				conn.Write(wsFrame(8, true, true, 0, []byte{0x03, 0xe9}))
			case -1:
				conn.Write(wsFrame(8, true, true, 0, nil)) // no status code at all
			default:
				conn.Write(wsFrame(8, true, true, 0, []byte{0x03, 0xe8})) // 1000, no reason
			}
		}
		rest, _ := io.ReadAll(br) // until the server closes the connection (or the deadline)
		co.BodyLen = len(rest)
		e.parseWsFrames(&co, rest)
	}
	conn.Close()
	select {
	case ev.Crash = <-done:
	case <-time.After(10 * time.Second):
		ev.Crash = "hang"
	}
	ev.Cl = co
}

func (e *rpcEnv) parseWsFrames(co *ClientObs, b []byte) {
	want, failing := e.wantMessage()
	co.WsFits = len(want) <= 123
	for len(b) > 0 {
		if len(b) < 2 {
			co.Clean, co.Note = false, co.Note+" short frame header"
			return
		}
		op, fin := b[0]&0x0f, b[0]&0x80 != 0
		n, off := int(b[1]&0x7f), 2
		if b[1]&0x80 != 0 || b[0]&0x70 != 0 {
			co.Clean, co.Note = false, co.Note+" masked server frame or RSV bits"
			return
		}
		switch n {
		case 126:
			if len(b) < 4 {
				co.Clean = false
				return
			}
			n, off = int(binary.BigEndian.Uint16(b[2:4])), 4
		case 127:
			if len(b) < 10 {
				co.Clean = false
				return
			}
			n, off = int(binary.BigEndian.Uint64(b[2:10])), 10
		}
		if n < 0 || off+n > len(b) {
			co.Clean, co.Note = false, co.Note+fmt.Sprintf(" frame of %d bytes cut at %d", n, len(b)-off)
			return
		}
		p := b[off : off+n]
		b = b[off+n:]
		if op >= 8 && (n > 125 || !fin) {
			co.Clean, co.Note = false, co.Note+fmt.Sprintf(" control frame (opcode %d) of %d bytes", op, n)
			if op == 8 {
				return
			}
			continue
		}
		switch op {
		case 1:
			if co.Status.Present {
				co.Clean, co.Note = false, co.Note+" data frame after close"
				continue
			}
			co.Msgs = append(co.Msgs, e.matchReply(p, "json"))
		case 8:
			if co.Status.Present {
				continue // a second close frame (the server's own after the echo) carries nothing new
			}
			co.Status.Present = true
			if n == 1 {
				co.Clean, co.Note = false, co.Note+" close frame of 1 byte"
			}
			if n >= 2 {
				co.Status.Code = int(binary.BigEndian.Uint16(p[:2]))
				reason := string(p[2:])
				switch {
				case !utf8.ValidString(reason):
					co.Status.Name = "invalid-utf8"
				case failing && reason == want, !failing && reason == "":
					co.Status.Name, co.Status.MsgEqual = "equal", true
				case failing && len(reason) >= 100 && strings.HasPrefix(want, reason):
					co.Status.Name = "prefix"
				default:
					co.Status.Name = "other"
				}
			} else {
				co.Status.Code, co.Status.Name = 1005, "none"
			}
		case 9, 10:
		default:
			co.Clean, co.Note = false, co.Note+fmt.Sprintf(" unexpected opcode %d", op)
		}
	}
}
