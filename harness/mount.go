package main

// Mount driver (C20): NewServer(mux, MuxHandleOption(...), HTTPHandlerOption(...)).Handler
// against the bare Mux, on transcoding, Twirp, gRPC framing and gRPC-web.

import (
	"bytes"
	"context"
	"crypto/sha256"
	"crypto/tls"
	"encoding/hex"
	"encoding/json"
	"fmt"
	"net/http"
	"net/http/httptest"
	"net/url"
	"sort"
	"strings"
	"sync"

	"google.golang.org/protobuf/proto"
	"google.golang.org/protobuf/reflect/protoreflect"
	"google.golang.org/protobuf/types/dynamicpb"
	"larking.io/larking"
)

type MPat struct {
	Segs  []string `json:"segs"`
	Slash bool     `json:"slash"`
}
type MExtra struct {
	Pat  MPat   `json:"pat"`
	Tag  string `json:"tag"`
	Host string `json:"host"` // "" = any host
	Meth string `json:"meth"` // "" = any method
}

// the pattern text HTTPHandlerOption gets: [METHOD ][HOST]/path
func extraText(e MExtra) string {
	t := e.Host + patText(e.Pat)
	if e.Meth != "" {
		t = e.Meth + " " + t
	}
	return t
}

type MountCase struct {
	ID       int      `json:"id"`
	Patterns []MPat   `json:"patterns"`
	Extras   []MExtra `json:"extras"`
}
type MBare struct {
	N      int    `json:"n"`
	Digest string `json:"digest"`
}
type MountEv struct {
	Ev       string   `json:"ev"`
	Case     int      `json:"case"`
	Patterns []MPat   `json:"patterns"`
	Extras   []MExtra `json:"extras"`
	Path     []string `json:"path"`
	Host     string   `json:"host"`
	Meth     string   `json:"meth"`
	Query    string   `json:"query"`
	Proto    string   `json:"proto"`
	Got      string   `json:"got"`
	GotTag   string   `json:"gottag"`
	Bares    []MBare  `json:"bares"`
	Crash    string   `json:"crash"`
	Text     string   `json:"text"`
	Status   int      `json:"status"`
}

func patText(p MPat) string {
	s := "/" + strings.Join(p.Segs, "/")
	if p.Slash && len(p.Segs) > 0 {
		s += "/"
	}
	return s
}

type mprobe struct {
	proto string
	meth  string
	path  []string
	body  []byte
	hdr   map[string]string
	query string
	host  string
}

func mountProbes() []mprobe {
	m := reqMsg(7, 1, 3)
	j := marshalMsg("json", m)
	p := marshalMsg("proto", m)
	return []mprobe{
		{proto: "http", meth: "POST", path: []string{"t", "unary"}, body: j, hdr: map[string]string{"Content-Type": "application/json"}},
		{proto: "http", meth: "GET", path: []string{"t", "get", "abc"}},
		{proto: "http", meth: "GET", path: []string{"t", "get", "abc"}, query: "t=from-query&i=7"},
		{proto: "http", meth: "POST", path: []string{"t", "unary"}, body: j, hdr: map[string]string{"Content-Type": "application/json"}, query: "i=9"},
		{proto: "http", meth: "GET", path: []string{"t", "get", "abc"}, host: "admin.test"},
		{proto: "http", meth: "GET", path: []string{"t", "nosuch"}},
		{proto: "http", meth: "POST", path: []string{"t", "sstream"}, body: j, hdr: map[string]string{"Content-Type": "application/json"}},
		{proto: "twirp", meth: "POST", path: []string{"vs.T", "Unary"}, body: j, hdr: map[string]string{"Content-Type": "application/json", "Twirp-Version": "v7"}},
		{proto: "twirp", meth: "POST", path: []string{"vs.T", "Nope"}, body: j, hdr: map[string]string{"Content-Type": "application/json", "Twirp-Version": "v7"}},
		{proto: "grpc", meth: "POST", path: []string{"vs.T", "Unary"}, body: grpcFrame(p, false), hdr: map[string]string{"Content-Type": "application/grpc+proto", "Te": "trailers"}},
		{proto: "grpc", meth: "POST", path: []string{"vs.T", "Bidi"}, body: append(grpcFrame(p, false), grpcFrame(p, false)...), hdr: map[string]string{"Content-Type": "application/grpc+proto", "Te": "trailers"}},
		{proto: "grpcweb", meth: "POST", path: []string{"vs.T", "Unary"}, body: grpcFrame(p, false), hdr: map[string]string{"Content-Type": "application/grpc-web+proto"}},
		{proto: "grpcweb", meth: "POST", path: []string{"vs.T", "Nope"}, body: grpcFrame(p, false), hdr: map[string]string{"Content-Type": "application/grpc-web+proto"}},
	}
}

func mountMux() (*larking.Mux, error) {
	svc := testService()
	svc.Methods = append(svc.Methods, MethodSpec{Name: "Get", Rule: httpRule("GET", "/t/get/{s}")})
	files, sds, err := BuildFiles([]ServiceSpec{svc})
	if err != nil {
		return nil, err
	}
	mux, err := larking.NewMux(larking.FilesOption(files))
	if err != nil {
		return nil, err
	}
	un := func(ctx context.Context, full string, req *dynamicpb.Message) (proto.Message, error) {
		rep := dynamicpb.NewMessage(repDesc())
		rep.Set(repDesc().Fields().ByName("id"), protoreflect.ValueOfString(fmt.Sprintf("%s|%s|%s|%d", full, req.Get(reqDesc().Fields().ByName("s")).String(),
			req.Get(reqDesc().Fields().ByName("t")).String(), req.Get(reqDesc().Fields().ByName("i")).Int())))
		return rep, nil
	}
	st := func(full string, md protoreflect.MethodDescriptor, ss grpcServerStream) error {
		for i := 0; i < 2; i++ {
			m := dynamicpb.NewMessage(reqDesc())
			if err := ss.RecvMsg(m); err != nil {
				break
			}
			rep := dynamicpb.NewMessage(repDesc())
			rep.Set(repDesc().Fields().ByName("id"), protoreflect.ValueOfString(full))
			if err := ss.SendMsg(rep); err != nil {
				return err
			}
			if !md.IsStreamingClient() {
				break
			}
		}
		return nil
	}
	if err := larking.VerifRegisterService(mux, MakeServiceDesc(sds[0], un, st), struct{}{}); err != nil {
		return nil, err
	}
	return mux, nil
}

func doMount(h http.Handler, pr mprobe, path string) (digest, tag, text string, status int, crash string) {
	defer func() {
		if p := recover(); p != nil {
			crash = fmt.Sprint(p)
		}
	}()
	host := pr.host
	if host == "" {
		host = "verif.test"
	}
	req := httptest.NewRequest(pr.meth, "http://"+host+"/", bytes.NewReader(pr.body))
	req.URL = &url.URL{Scheme: "http", Host: host, Path: path, RawQuery: pr.query}
	req.Host = host
	req.RequestURI = path
	if pr.query != "" {
		req.RequestURI += "?" + pr.query
	}
	req.ContentLength = int64(len(pr.body))
	for k, v := range pr.hdr {
		req.Header.Set(k, v)
	}
	if pr.proto == "grpc" {
		req.ProtoMajor, req.ProtoMinor, req.Proto = 2, 0, "HTTP/2.0"
	}
	w := httptest.NewRecorder()
	h.ServeHTTP(w, req)
	res := w.Result()
	hs := sha256.New()
	fmt.Fprintf(hs, "%d\n", res.StatusCode)
	var keys []string
	for k := range res.Header {
		if k != "Date" {
			keys = append(keys, k)
		}
	}
	sort.Strings(keys)
	for _, k := range keys {
		fmt.Fprintf(hs, "%s: %q\n", k, res.Header[k])
	}
	keys = keys[:0]
	for k := range res.Trailer {
		keys = append(keys, k)
	}
	sort.Strings(keys)
	for _, k := range keys {
		fmt.Fprintf(hs, "T %s: %q\n", k, res.Trailer[k])
	}
	hs.Write(w.Body.Bytes())
	tag = res.Header.Get("X-Extra")
	body := w.Body.String()
	if tag == "" && res.StatusCode == 404 && strings.HasPrefix(body, "404 page not found") {
		tag = "servemux404"
	}
	if tag == "" && res.StatusCode == 405 && strings.HasPrefix(body, "Method Not Allowed") {
		tag = "servemux405"
	}
	return hex.EncodeToString(hs.Sum(nil))[:16], tag, fmt.Sprintf("%d %s", res.StatusCode, truncate(body, 60)), res.StatusCode, ""
}

func runMountCase(c MountCase, seed int64) []interface{} {
	var evs []interface{}
	mux, err := mountMux()
	if err != nil {
		return []interface{}{MountEv{Ev: "Mount", Case: c.ID, Crash: "setup: " + err.Error(), Patterns: c.Patterns, Extras: c.Extras, Path: []string{}, Bares: []MBare{}}}
	}
	var opts []larking.ServerOption
	var pats []string
	for _, p := range c.Patterns {
		pats = append(pats, patText(p))
	}
	// the mount table is a set: the order in which MuxHandleOption lists the patterns is drawn
	{
		r := newRng(seed, c.ID, 33)
		for i := len(pats) - 1; i > 0; i-- {
			j := r.Intn(i + 1)
			pats[i], pats[j] = pats[j], pats[i]
		}
	}
	opts = append(opts, larking.MuxHandleOption(pats...))
	for _, e := range c.Extras {
		tag := e.Tag
		opts = append(opts, larking.HTTPHandlerOption(extraText(e), http.HandlerFunc(func(w http.ResponseWriter, r *http.Request) {
			w.Header().Set("X-Extra", tag)
			w.Write([]byte("extra " + tag))
		})))
	}
	// every third server is a TLS one (the mount table does not depend on the transport); the option's place among the
	// others is drawn
	if c.ID%3 == 0 {
		r := newRng(seed, c.ID, 20)
		k := r.Intn(len(opts) + 1)
		opts = append(opts[:k:k], append([]larking.ServerOption{larking.TLSCredsOption(&tls.Config{MinVersion: tls.VersionTLS12})}, opts[k:]...)...)
	}
	var srv *http.Server
	func() {
		defer func() {
			if p := recover(); p != nil {
				err = fmt.Errorf("panic: %v", p)
			}
		}()
		srv, err = larking.NewServer(mux, opts...)
	}()
	if err != nil {
		return []interface{}{MountEv{Ev: "Mount", Case: c.ID, Crash: "NewServer: " + err.Error(), Patterns: c.Patterns, Extras: c.Extras, Path: []string{}, Bares: []MBare{}}}
	}
	// request paths: every mount prefix, no prefix, look-alike and foreign prefixes, extra handler patterns
	prefixes := [][]string{{}, {"xx"}, {"other", "z"}}
	for _, p := range c.Patterns {
		prefixes = append(prefixes, p.Segs)
	}
	seen := map[string]bool{}
	for _, pre := range prefixes {
		for _, pr := range mountProbes() {
			path := append(append([]string{}, pre...), pr.path...)
			text := "/" + strings.Join(path, "/")
			if seen[pr.proto+pr.meth+text+"?"+pr.query+"@"+pr.host] {
				continue
			}
			seen[pr.proto+pr.meth+text+"?"+pr.query+"@"+pr.host] = true
			ev := MountEv{Ev: "Mount", Case: c.ID, Patterns: c.Patterns, Extras: c.Extras, Path: path, Proto: pr.proto, Bares: []MBare{}, Meth: pr.meth, Query: pr.query, Host: pr.host}
			if ev.Host == "" {
				ev.Host = "verif.test"
			}
			ev.Got, ev.GotTag, ev.Text, ev.Status, ev.Crash = doMount(srv.Handler, pr, text)
			for _, p := range c.Patterns {
				if len(p.Segs) <= len(path) && strings.Join(path[:len(p.Segs)], "/") == strings.Join(p.Segs, "/") {
					d, _, _, _, cr := doMount(mux, pr, "/"+strings.Join(path[len(p.Segs):], "/"))
					if cr == "" {
						ev.Bares = append(ev.Bares, MBare{N: len(p.Segs), Digest: d})
					}
				}
			}
			evs = append(evs, ev)
		}
	}
	for _, e := range c.Extras {
		path := append([]string{}, e.Pat.Segs...)
		if e.Pat.Slash {
			path = append(path, "file.js")
		}
		// the handler's own host and method, and for a qualified pattern another host / another method too
		type hm struct{ host, meth string }
		own := hm{e.Host, e.Meth}
		if own.host == "" {
			own.host = "verif.test"
		}
		if own.meth == "" {
			own.meth = "GET"
		}
		tries := []hm{own}
		if e.Host != "" {
			tries = append(tries, hm{"verif.test", own.meth})
		}
		if e.Meth != "" {
			tries = append(tries, hm{own.host, "POST"})
		}
		for _, t := range tries {
			pr := mprobe{proto: "http", meth: t.meth, path: path, host: t.host}
			ev := MountEv{Ev: "Mount", Case: c.ID, Patterns: c.Patterns, Extras: c.Extras, Path: path, Proto: "http", Bares: []MBare{}, Host: t.host, Meth: t.meth}
			ev.Got, ev.GotTag, ev.Text, ev.Status, ev.Crash = doMount(srv.Handler, pr, "/"+strings.Join(path, "/"))
			for _, p := range c.Patterns {
				if len(p.Segs) <= len(path) && strings.Join(path[:len(p.Segs)], "/") == strings.Join(p.Segs, "/") {
					d, _, _, _, cr := doMount(mux, pr, "/"+strings.Join(path[len(p.Segs):], "/"))
					if cr == "" {
						ev.Bares = append(ev.Bares, MBare{N: len(p.Segs), Digest: d})
					}
				}
			}
			evs = append(evs, ev)
		}
	}
	return evs
}

func init() { drivers["mount"] = mountMain }

func mountMain(args []string) error {
	c := newCommon("mount")
	c.fs.Parse(args)
	tw, err := newTraceWriter(c.out)
	if err != nil {
		return err
	}
	var cases []MountCase
	err = readLines(c.cases, func(b []byte) error {
		var mc MountCase
		if err := json.Unmarshal(b, &mc); err != nil {
			return err
		}
		mc.ID = len(cases) + 1
		for i := range mc.Patterns {
			if mc.Patterns[i].Segs == nil {
				mc.Patterns[i].Segs = []string{}
			}
		}
		if mc.Extras == nil {
			mc.Extras = []MExtra{}
		}
		cases = append(cases, mc)
		return nil
	})
	if err != nil {
		return err
	}
	var wg sync.WaitGroup
	work := make(chan MountCase, 16)
	for i := 0; i < 16; i++ {
		wg.Add(1)
		go func() {
			defer wg.Done()
			for mc := range work {
				tw.EmitAll(runMountCase(mc, c.seed))
			}
		}()
	}
	for _, mc := range cases {
		work <- mc
	}
	close(work)
	wg.Wait()
	fmt.Printf("mount: cases=%d events=%d\n", len(cases), tw.n)
	return tw.Close()
}
