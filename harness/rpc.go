package main

// RPC executor: one real Mux per case with a scripted dynamic service, driven
// directly through Mux.ServeHTTP on every protocol larking serves (HTTP/JSON,
// HTTP/protobuf, Twirp, gRPC, gRPC-web, gRPC-web-text).  Handler scripts and
// client inputs come from Rpc.tla / Transcode.tla cases; the event written per
// RPC holds what the handler and the client observed.

import (
	"bufio"
	"bytes"
	"compress/gzip"
	"context"
	"encoding/base64"
	"encoding/binary"
	"encoding/hex"
	"encoding/json"
	"errors"
	"fmt"
	"google.golang.org/genproto/googleapis/api/httpbody"
	"io"
	"net/http"
	"net/http/httptest"
	"net/textproto"
	"net/url"
	"os"
	"sort"
	"strconv"
	"strings"
	"sync"
	"sync/atomic"
	"time"

	"google.golang.org/genproto/googleapis/api/annotations"
	spb "google.golang.org/genproto/googleapis/rpc/status"
	"google.golang.org/grpc"
	"google.golang.org/grpc/codes"
	"google.golang.org/grpc/metadata"
	"google.golang.org/grpc/stats"
	"google.golang.org/grpc/status"
	"google.golang.org/protobuf/encoding/protojson"
	"google.golang.org/protobuf/encoding/protowire"
	"google.golang.org/protobuf/proto"
	"google.golang.org/protobuf/reflect/protoreflect"
	"google.golang.org/protobuf/types/dynamicpb"
	"google.golang.org/protobuf/types/known/anypb"
	"google.golang.org/protobuf/types/known/durationpb"
	"larking.io/larking"
)

// ---- case description ----------------------------------------------------------

type MD map[string][]string

type Step struct {
	Op   string   `json:"op"` // sethdr | sendhdr | recv | send | settrl | ret
	MD   MD       `json:"md"`
	Size int      `json:"size"` // send: reply payload size class
	Code int      `json:"code"` // ret
	Msg  []string `json:"msg"`  // ret: status message shape (plain|pct|ctl|u2|u3|long)
	Det  int      `json:"det"`  // ret: number of details
}

type RpcCase struct {
	ID          int      `json:"id"`
	Proto       string   `json:"proto"`      // http | twirp | grpc | grpcweb | grpcwebtext
	Codec       string   `json:"codec"`      // json | proto
	Comp        string   `json:"comp"`       // "" | gzip
	Shape       string   `json:"shape"`      // unary | cstream | sstream | bidi
	Duplex      bool     `json:"duplex"`     // the handler sends from a goroutine of its own while it receives (the two directions of a stream are independent)
	BodyWriter  bool     `json:"bodywriter"` // server stream over HTTP whose one reply goes out through larking.AsHTTPBodyWriter (method Dl, HttpBody output)
	Opts        []string `json:"opts"`       // unaryInt | streamInt | stats
	Sizes       []int    `json:"sizes"`      // sizes of the client messages (payload filler bytes)
	Script      []Step   `json:"script"`
	ReuseMD     bool     `json:"reusemd"` // the handler reuses one metadata.MD for all its SetHeader/SendHeader/SetTrailer calls
	ReqMD       MD       `json:"reqmd"`
	MaxRecv     int      `json:"maxrecv"`
	MaxSend     int      `json:"maxsend"`
	Sched       []int    `json:"sched"` // read schedule of the request body
	EofWith     bool     `json:"eofwith"`
	Trunc       int      `json:"trunc"` // cut the request body after this many bytes (0 = whole)
	Timeout     string   `json:"timeout"`
	Accept      string   `json:"accept"`
	Tag         string   `json:"tag"`
	BinPad      bool     `json:"binpad"`
	ReqWant     MD       `json:"reqwant"`     // what the specification expects the handler to see for ReqMD
	Exact       bool     `json:"exact"`       // sizes are exact wire sizes in the case's codec
	TruncK      int      `json:"trunck"`      // with Trunc > 0: number of complete client messages kept
	Corrupt     bool     `json:"corrupt"`     // gRPC: the first frame claims to be compressed but holds garbage
	Noise       bool     `json:"noise"`       // the client messages carry incompressible bytes (field by) instead of letters
	WsCloseAs   int      `json:"wscloseas"`   // ws + wsclose: how the client spells its close: 0 = 1000, 1001 = going away, -1 = a Close frame without a status code (what a browser's socket.close() sends)
	PlainFrames bool     `json:"plainframes"` // gRPC family: Grpc-Encoding is announced but the frames are sent uncompressed (flag 0), as the protocol allows per message
	WsNoBody    bool     `json:"wsnobody"`    // ws: the body-less binding /wn/...: no frame is sent, the single (empty) message is the URL
	WsFrag      int      `json:"wsfrag"`      // ws: every message is sent as continuation frames of at most this many bytes (0 = one frame)
	ReqCT       string   `json:"reqct"`       // http: Content-Type of a request WITHOUT a body (the one message is the empty message)
	ExactRep    bool     `json:"exactrep"`    // send sizes are exact wire sizes of the replies in the case's codec
	WsClose     bool     `json:"wsclose"`     // ws: the client sends a close frame (1000) after its messages; else it waits for the server's
	H2          bool     `json:"h2"`          // gRPC-web / HTTP / Twirp request arrives over HTTP/2 (gRPC always does)
	Boundary    int      `json:"boundary"`    // >0: the first message is 8+Boundary-1 small records and the receive limit is exactly 8 records
}

// ---- observation ----------------------------------------------------------------

type RecvObs struct {
	Idx   int    `json:"idx"`   // index of the client message it equals, 0 = none
	Size  int    `json:"size"`  // encoded size (proto) of what the handler got
	Equal bool   `json:"equal"` // proto.Equal with the message the client sent at idx
	Err   string `json:"err"`   // "" | eof | error
}
type SendObs struct {
	Step int    `json:"step"`
	Err  string `json:"err"` // "" | error text class
}
type HandlerObs struct {
	Invoked  int       `json:"invoked"`
	Recv     []RecvObs `json:"recv"`
	Sends    []SendObs `json:"sends"`
	HdrErrs  []string  `json:"hdrerrs"` // result of each sethdr/sendhdr step ("" = ok)
	MD       MD        `json:"md"`
	Deadline int64     `json:"deadline"` // ms until deadline at entry, -1 none
	HasDL    bool      `json:"hasdl"`
	Method   string    `json:"method"`
	Tagged   bool      `json:"tagged"` // the handler's context carries the value TagRPC attached
}
type StatusObs struct {
	Code     int      `json:"code"`
	Shape    []string `json:"shape"`
	MsgEqual bool     `json:"msgequal"`
	Details  int      `json:"details"`
	DetEqual bool     `json:"detequal"`
	Name     string   `json:"name"` // twirp code name
	Present  bool     `json:"present"`
}
type ClientObs struct {
	HTTP    int       `json:"http"`
	CT      string    `json:"ct"`
	CE      string    `json:"ce"`
	Msgs    []RecvObs `json:"msgs"`
	Status  StatusObs `json:"status"`
	Hdr     MD        `json:"hdr"`
	Trl     MD        `json:"trl"`
	Clean   bool      `json:"clean"`  // response stream well-formed to the end
	Forged  []string  `json:"forged"` // reserved keys under which the client can see a value the handler put there
	WsFits  bool      `json:"wsfits"` // ws: the status message fits into a close frame (<= 123 bytes)
	Note    string    `json:"note"`
	BodyLen int       `json:"bodylen"`
}
type StatEv struct {
	T    string `json:"t"`   // tag | inheader | begin | inpayload | outheader | outpayload | outtrailer | end
	Err  int    `json:"err"` // end: status code of the error (-1 none)
	Len  int    `json:"len"` // payload length
	Meth string `json:"meth"`
	CS   bool   `json:"cs"`
	SS   bool   `json:"ss"`
	Tag  bool   `json:"tag"` // the event arrived on the context TagRPC returned
}
type ICall struct {
	Kind string `json:"kind"` // unary | stream
	Meth string `json:"meth"`
	CS   bool   `json:"cs"`
	SS   bool   `json:"ss"`
	Err  int    `json:"err"`  // code of the error the interceptor saw from the handler, -1 none
	Recv int    `json:"recv"` // stream: messages the interceptor's wrapping stream saw arrive (successful RecvMsg)
	Send int    `json:"send"` // stream: messages it saw leave (SendMsg)
	Tag  bool   `json:"tag"`  // the interceptor's context carries the stats tag (stats on)
}
type RpcEv struct {
	Ev      string     `json:"ev"`
	Case    int        `json:"case"`
	C       RpcCase    `json:"c"`
	H       HandlerObs `json:"h"`
	Cl      ClientObs  `json:"cl"`
	Stats   []StatEv   `json:"stats"`
	ICalls  []ICall    `json:"icalls"`
	Crash   string     `json:"crash"`   // "" | panic text | hang
	Sent    []int      `json:"sent"`    // encoded (proto) size of each client message
	Replies []int      `json:"replies"` // encoded (proto) size of each reply the script sends
	ReqWant MD         `json:"reqwant"`
}

// ---- payloads --------------------------------------------------------------------

func filler(n, salt int) string {
	b := make([]byte, n)
	for i := range b {
		b[i] = byte('a' + (i+salt)%26)
	}
	return string(b)
}

var trickyTails = []string{"", "\\", "", "\"", "\\\"", "", "{", "}", "\\\\", "", "\"}", "{\"", "\\n", "\u00e9", "}{", "\\\\\\"}

func reqMsg(caseID, idx, size int) *dynamicpb.Message {
	m := dynamicpb.NewMessage(reqDesc())
	if size < 0 { // a truly empty message (zero bytes on the wire)
		return m
	}
	m.Set(reqDesc().Fields().ByName("s"), protoreflect.ValueOfString(fmt.Sprintf("c%d-m%d", caseID, idx)))
	if size >= 8 && (caseID+idx)%3 == 1 {
		// one message in three carries its bulk inside nested messages (in JSON: objects within the object, the last one
		// holding most of the bytes), not in a top-level string
		sd := subDesc()
		n := dynamicpb.NewMessage(sd)
		n.Set(sd.Fields().ByName("s"), protoreflect.ValueOfString("x"))
		m.Set(reqDesc().Fields().ByName("n"), protoreflect.ValueOfMessage(n))
		b := dynamicpb.NewMessage(sd)
		b.Set(sd.Fields().ByName("s"), protoreflect.ValueOfString(filler(size-1, idx)))
		m.Set(reqDesc().Fields().ByName("b"), protoreflect.ValueOfMessage(b))
		return m
	}
	if size > 0 {
		// the text ends in characters a JSON scanner has to get right: a trailing backslash, quotes, braces
		t := filler(size, idx)
		if tail := trickyTails[(caseID+idx+size)%len(trickyTails)]; size >= 3 && len(tail) <= size {
			t = t[:size-len(tail)] + tail
		}
		m.Set(reqDesc().Fields().ByName("t"), protoreflect.ValueOfString(t))
	}
	return m
}
func repMsg(caseID, idx, size int) *dynamicpb.Message {
	m := dynamicpb.NewMessage(repDesc())
	if size < 0 {
		return m
	}
	m.Set(repDesc().Fields().ByName("id"), protoreflect.ValueOfString(fmt.Sprintf("h%d-r%d", caseID, idx)))
	if size > 0 {
		m.Set(repDesc().Fields().ByName("pad"), protoreflect.ValueOfBytes([]byte(filler(size, idx))))
	}
	return m
}

// exactRepPad is the filler size that makes reply idx exactly want bytes on the wire in codec (or the smallest above).
func exactRepPad(caseID, idx, want int, codec string) int {
	pad := want - len(marshalMsg(codec, repMsg(caseID, idx, 0)))
	if pad < 0 {
		pad = 0
	}
	for i := 0; i < 8; i++ {
		n := len(marshalMsg(codec, repMsg(caseID, idx, pad)))
		if n == want || (n > want && pad == 0) {
			break
		}
		pad += want - n
		if pad < 0 {
			pad = 0
		}
	}
	for len(marshalMsg(codec, repMsg(caseID, idx, pad))) < want {
		pad++
	}
	return pad
}

// recordsMsg is client message idx made of n small repeated records (after the id).
func recordsMsg(caseID, idx, n int) *dynamicpb.Message {
	m := reqMsg(caseID, idx, 0)
	l := m.Mutable(reqDesc().Fields().ByName("r")).List()
	for i := 0; i < n; i++ {
		l.Append(protoreflect.ValueOfString("aaaaa"))
	}
	return m
}

// exactReq builds client message idx whose wire size in codec is exactly want (or the smallest possible above it).
// noiseMsg is client message idx with size pseudo-random (incompressible) bytes.
func noiseMsg(caseID, idx, size int) *dynamicpb.Message {
	m := reqMsg(caseID, idx, 0)
	if size > 0 {
		b := make([]byte, size)
		x := uint64(caseID)*0x9E3779B97F4A7C15 + uint64(idx)*0xBF58476D1CE4E5B9 + 1
		for i := range b {
			x ^= x << 13
			x ^= x >> 7
			x ^= x << 17
			b[i] = byte(x >> 24)
		}
		m.Set(reqDesc().Fields().ByName("by"), protoreflect.ValueOfBytes(b))
	}
	return m
}

// exactNoise: like exactReq with incompressible content.
func exactNoise(caseID, idx, want int, codec string) *dynamicpb.Message {
	pad := want - len(marshalMsg(codec, noiseMsg(caseID, idx, 0)))
	if pad < 0 {
		pad = 0
	}
	for i := 0; i < 8; i++ {
		n := len(marshalMsg(codec, noiseMsg(caseID, idx, pad)))
		if n == want || (n > want && pad == 0) {
			break
		}
		pad += want - n
		if pad < 0 {
			pad = 0
		}
	}
	for len(marshalMsg(codec, noiseMsg(caseID, idx, pad))) < want {
		pad++
	}
	return noiseMsg(caseID, idx, pad)
}

func exactReq(caseID, idx, want int, codec string) *dynamicpb.Message {
	pad := want - len(marshalMsg(codec, reqMsg(caseID, idx, 0)))
	if pad < 0 {
		pad = 0
	}
	for i := 0; i < 8; i++ { // the length prefix of the filler grows with it: converge
		n := len(marshalMsg(codec, reqMsg(caseID, idx, pad)))
		if n == want || (n > want && pad == 0) {
			break
		}
		pad += want - n
		if pad < 0 {
			pad = 0
		}
	}
	for len(marshalMsg(codec, reqMsg(caseID, idx, pad))) < want {
		pad++
	}
	return reqMsg(caseID, idx, pad)
}

var shapeChars = map[string]string{"plain": "a", "pct": "%", "ctl": "\n", "u2": "é", "u3": "書", "sp": " ", "tilde": "~", "hex": "41"}

func statusText(shape []string) string {
	var b strings.Builder
	for i, s := range shape {
		if s == "long" {
			b.WriteString(strings.Repeat("long message ", 300) + "end")
			continue
		}
		if c, ok := shapeChars[s]; ok {
			if s == "plain" {
				b.WriteByte(byte('a' + i%26))
			} else {
				b.WriteString(c)
			}
		}
	}
	return b.String()
}

func shapeOf(text string) []string {
	if len(text) > 1000 {
		return []string{"long"}
	}
	out := []string{}
	for _, r := range text {
		switch {
		case r == '%':
			out = append(out, "pct")
		case r == '\n':
			out = append(out, "ctl")
		case r == 'é':
			out = append(out, "u2")
		case r == '書':
			out = append(out, "u3")
		case r == ' ':
			out = append(out, "sp")
		case r == '~':
			out = append(out, "tilde")
		case r >= 'a' && r <= 'z':
			out = append(out, "plain")
		default:
			out = append(out, "other")
		}
	}
	return out
}

func detailsFor(n int) []proto.Message {
	var out []proto.Message
	for i := 0; i < n; i++ {
		out = append(out, durationpb.New(time.Duration(i+1)*time.Second))
	}
	return out
}

// raw (non-status) errors a handler may return: the client sees Unknown with the error's text
var rawErrors = map[int]error{1001: io.EOF, 1002: context.Canceled, 1003: errors.New("plain failure, not a status")}

func mkStatus(st Step) error {
	if e, ok := rawErrors[st.Code]; ok {
		return e
	}
	s := status.New(codes.Code(uint32(st.Code)), statusText(st.Msg))
	if st.Det > 0 && st.Code != 0 {
		p := s.Proto()
		for _, d := range detailsFor(st.Det) {
			a, _ := anypb.New(d)
			p.Details = append(p.Details, a)
		}
		s = status.FromProto(p)
	}
	return s.Err()
}

// ---- the scripted service ----------------------------------------------------------

type rpcEnv struct {
	c              RpcCase
	mux            *larking.Mux
	mu             sync.Mutex
	h              HandlerObs
	stats          []StatEv
	icalls         []ICall
	sent           []*dynamicpb.Message
	emptySeen      map[int]bool
	emptyReplySeen map[int]bool
	cutInside      bool
}

func testService() ServiceSpec {
	body := func(kind, path string) *annotations.HttpRule {
		r := httpRule(kind, path)
		r.Body = "*"
		return r
	}
	both := func(path string) *annotations.HttpRule { // POST /t/x and WEBSOCKET /w/x
		r := body("POST", "/t/"+path)
		// (and a WebSocket binding without a body: the one request travels in the URL)
		r.AdditionalBindings = []*annotations.HttpRule{body("WEBSOCKET", "/w/"+path), httpRule("WEBSOCKET", "/wn/"+path)}
		return r
	}
	return ServiceSpec{Name: "T", Methods: []MethodSpec{
		{Name: "Unary", Rule: both("unary")},
		{Name: "CStream", ClientStream: true, Rule: both("cstream")},
		{Name: "SStream", ServerStream: true, Rule: both("sstream")},
		{Name: "Bidi", ClientStream: true, ServerStream: true, Rule: both("bidi")},
		{Name: "Dl", ServerStream: true, Out: ".google.api.HttpBody", Rule: body("POST", "/t/dl")},
	}}
}

func methodOf(shape string) (name, path string) {
	switch shape {
	case "unary":
		return "Unary", "/t/unary"
	case "cstream":
		return "CStream", "/t/cstream"
	case "sstream":
		return "SStream", "/t/sstream"
	default:
		return "Bidi", "/t/bidi"
	}
}

func errClass(err error) string {
	if err == nil {
		return ""
	}
	if err == io.EOF {
		return "eof"
	}
	return "error"
}

func codeOf(err error) int {
	if err == nil {
		return -1
	}
	return int(status.Convert(err).Code())
}

func (e *rpcEnv) matchSent(m proto.Message) (int, bool) {
	s := m.ProtoReflect().Get(reqDesc().Fields().ByName("s")).String()
	if s == "" { // empty messages carry no id: match by content, in order of arrival
		for i, sm := range e.sent {
			if proto.Equal(sm, m) && !e.emptySeen[i] {
				if e.emptySeen == nil {
					e.emptySeen = map[int]bool{}
				}
				e.emptySeen[i] = true
				return i + 1, true
			}
		}
		return 0, false
	}
	for i, sm := range e.sent {
		if sm.Get(reqDesc().Fields().ByName("s")).String() == s {
			return i + 1, proto.Equal(sm, m)
		}
	}
	return 0, false
}

// runScript executes the handler script against a stream (streaming methods).
func (e *rpcEnv) runScript(ctx context.Context, recv func(proto.Message) error, send func(proto.Message) error,
	setHdr func(metadata.MD) error, sendHdr func(metadata.MD) error, setTrl func(metadata.MD)) error {
	nsend := 0
	// reusemd: the handler keeps one metadata.MD of its own and refills it for every call (what it hands over must have
	// been copied: grpc-go's streams do); once it is done it scribbles over the map and over the value slices
	var work metadata.MD
	wireMD := func(md MD) metadata.MD {
		fresh := wireMD(md)
		if !e.c.ReuseMD {
			return fresh
		}
		if work == nil {
			work = metadata.MD{}
		}
		scribble(work)
		for k, vs := range fresh {
			work[k] = vs
		}
		return work
	}
	defer func() { scribble(work) }()
	var sender sync.WaitGroup
	if e.c.Duplex {
		// all send steps run in their own goroutine, in order, while this one goes through the other steps
		sender.Add(1)
		go func() {
			defer sender.Done()
			n := 0
			for i, st := range e.c.Script {
				if st.Op != "send" {
					continue
				}
				n++
				err := send(repMsg(e.c.ID, n, st.Size))
				e.mu.Lock()
				e.h.Sends = append(e.h.Sends, SendObs{Step: i + 1, Err: errClass(err)})
				e.mu.Unlock()
			}
		}()
	}
	for i, st := range e.c.Script {
		if e.c.Duplex && st.Op == "send" {
			continue
		}
		if e.c.Duplex && st.Op == "ret" {
			sender.Wait()
		}
		switch st.Op {
		case "sethdr":
			err := setHdr(wireMD(st.MD))
			e.mu.Lock()
			e.h.HdrErrs = append(e.h.HdrErrs, errClass(err))
			e.mu.Unlock()
		case "sendhdr":
			err := sendHdr(wireMD(st.MD))
			e.mu.Lock()
			e.h.HdrErrs = append(e.h.HdrErrs, errClass(err))
			e.mu.Unlock()
		case "settrl":
			setTrl(wireMD(st.MD))
		case "recv":
			m := dynamicpb.NewMessage(reqDesc())
			err := recv(m)
			if err != nil && err != io.EOF && os.Getenv("VERIF_DEBUG") != "" {
				fmt.Fprintf(os.Stderr, "case %d recv error: %v\n", e.c.ID, err)
			}
			ro := RecvObs{Err: errClass(err)}
			if err == nil {
				ro.Idx, ro.Equal = e.matchSent(m)
				ro.Size = len(marshalMsg(e.c.Codec, m))
			}
			e.mu.Lock()
			e.h.Recv = append(e.h.Recv, ro)
			e.mu.Unlock()
		case "send":
			nsend++
			err := send(repMsg(e.c.ID, nsend, st.Size))
			e.mu.Lock()
			e.h.Sends = append(e.h.Sends, SendObs{Step: i + 1, Err: errClass(err)})
			e.mu.Unlock()
		case "ret":
			if st.Code == 0 {
				return nil
			}
			return mkStatus(st)
		}
	}
	return nil
}

func (e *rpcEnv) enter(ctx context.Context, full string) {
	e.mu.Lock()
	defer e.mu.Unlock()
	e.h.Invoked++
	e.h.Method = full
	e.h.Tagged = tagged(ctx, e)
	md, _ := metadata.FromIncomingContext(ctx)
	e.h.MD = MD{}
	for k, v := range md {
		e.h.MD[k] = append([]string{}, v...)
	}
	e.h.Deadline = -1
	if dl, ok := ctx.Deadline(); ok {
		e.h.Deadline = time.Until(dl).Milliseconds()
		e.h.HasDL = true
	}
}

func (e *rpcEnv) unary(ctx context.Context, full string, req *dynamicpb.Message) (proto.Message, error) {
	e.enter(ctx, full)
	idx, eq := e.matchSent(req)
	e.mu.Lock()
	e.h.Recv = append(e.h.Recv, RecvObs{Idx: idx, Equal: eq, Size: len(marshalMsg(e.c.Codec, req))})
	e.mu.Unlock()
	var reply proto.Message
	err := e.runScript(ctx,
		func(m proto.Message) error { return io.EOF },
		func(m proto.Message) error { reply = m; return nil },
		func(md metadata.MD) error { return grpc.SetHeader(ctx, md) },
		func(md metadata.MD) error { return grpc.SendHeader(ctx, md) },
		func(md metadata.MD) { grpc.SetTrailer(ctx, md) })
	if err != nil {
		return nil, err
	}
	if reply == nil {
		reply = repMsg(e.c.ID, 1, 0)
	}
	return reply, nil
}

func (e *rpcEnv) stream(full string, md protoreflect.MethodDescriptor, ss grpc.ServerStream) error {
	ctx := ss.Context()
	e.enter(ctx, full)
	if !md.IsStreamingClient() { // generated code reads the single request before calling the handler
		m := dynamicpb.NewMessage(reqDesc())
		if err := ss.RecvMsg(m); err != nil {
			e.mu.Lock()
			e.h.Recv = append(e.h.Recv, RecvObs{Err: errClass(err)})
			e.mu.Unlock()
			return err
		}
		idx, eq := e.matchSent(m)
		e.mu.Lock()
		e.h.Recv = append(e.h.Recv, RecvObs{Idx: idx, Equal: eq, Size: len(marshalMsg(e.c.Codec, m))})
		e.mu.Unlock()
	}
	return e.runScript(ctx,
		func(m proto.Message) error { return ss.RecvMsg(m) },
		func(m proto.Message) error {
			if e.c.BodyWriter {
				// the reply leaves as raw bytes through the body writer, in pieces
				w, err := larking.AsHTTPBodyWriter(ss, &httpbody.HttpBody{ContentType: "application/x-dl"})
				if err != nil {
					return err
				}
				b := marshalMsg("proto", m)
				for len(b) > 0 {
					n := 1 + len(b)/3
					if n > len(b) {
						n = len(b)
					}
					if _, err := w.Write(b[:n]); err != nil {
						return err
					}
					b = b[n:]
				}
				return nil
			}
			return ss.SendMsg(m)
		},
		ss.SetHeader, ss.SendHeader, ss.SetTrailer)
}

// stats.Handler
func (e *rpcEnv) TagRPC(ctx context.Context, info *stats.RPCTagInfo) context.Context {
	e.mu.Lock()
	e.stats = append(e.stats, StatEv{T: "tag", Meth: info.FullMethodName, Err: -1, Tag: true})
	e.mu.Unlock()
	return context.WithValue(ctx, statsTagKey{}, e)
}

type statsTagKey struct{}

func tagged(ctx context.Context, e *rpcEnv) bool { return ctx.Value(statsTagKey{}) == e }
func (e *rpcEnv) HandleRPC(ctx context.Context, s stats.RPCStats) {
	ev := StatEv{Err: -1, Tag: tagged(ctx, e)}
	switch v := s.(type) {
	case *stats.InHeader:
		ev.T, ev.Meth = "inheader", v.FullMethod
		// an observer owns its events: what it does to the header map of its in-header event (an audit log that
		// strips credentials, say) must not reach the RPC
		scribble(v.Header)
	case *stats.Begin:
		ev.T, ev.CS, ev.SS = "begin", v.IsClientStream, v.IsServerStream
	case *stats.InPayload:
		ev.T, ev.Len = "inpayload", v.Length
	case *stats.OutHeader:
		ev.T = "outheader"
		scribble(v.Header)
	case *stats.OutPayload:
		ev.T, ev.Len = "outpayload", v.Length
	case *stats.OutTrailer:
		ev.T = "outtrailer"
		scribble(v.Trailer)
	case *stats.End:
		ev.T, ev.Err = "end", codeOf(v.Error)
	default:
		ev.T = fmt.Sprintf("%T", s)
	}
	e.mu.Lock()
	e.stats = append(e.stats, ev)
	e.mu.Unlock()
}
func (e *rpcEnv) TagConn(ctx context.Context, _ *stats.ConnTagInfo) context.Context { return ctx }
func (e *rpcEnv) HandleConn(context.Context, stats.ConnStats)                       {}

// watchStream is what a stream interceptor typically passes on: a wrapper that sees every message go by.  Its
// bookkeeping is atomic so that the wrapper itself can be used from the handler's goroutines; it also notices whether it
// is still being used once the interceptor's handler has returned (the stream belongs to the interceptor again then, and
// whatever state a wrapper keeps would be raced on).
type watchStream struct {
	grpc.ServerStream
	nrecv, nsend atomic.Int32
	returned     atomic.Bool  // set by the interceptor when its handler has returned
	busy         atomic.Int32 // stream calls in progress
	late         atomic.Int32 // stream calls that began after the handler had returned
}

func (w *watchStream) RecvMsg(m interface{}) error {
	w.busy.Add(1)
	defer w.busy.Add(-1)
	if w.returned.Load() {
		w.late.Add(1)
	}
	err := w.ServerStream.RecvMsg(m)
	if err == nil {
		w.nrecv.Add(1)
	}
	return err
}
func (w *watchStream) SendMsg(m interface{}) error {
	w.busy.Add(1)
	defer w.busy.Add(-1)
	if w.returned.Load() {
		w.late.Add(1)
	}
	err := w.ServerStream.SendMsg(m)
	if err == nil {
		w.nsend.Add(1)
	}
	return err
}

// handlerReturned marks the end of the handler and reports the stream calls that are still in progress.
func (w *watchStream) handlerReturned() int {
	w.returned.Store(true)
	return int(w.busy.Load())
}

func hasOpt(c RpcCase, o string) bool {
	for _, x := range c.Opts {
		if x == o {
			return true
		}
	}
	return false
}

func newRpcEnv(c RpcCase) (*rpcEnv, error) {
	e := &rpcEnv{c: c}
	e.h.Recv, e.h.Sends, e.h.HdrErrs, e.h.MD = []RecvObs{}, []SendObs{}, []string{}, MD{}
	files, sds, err := BuildFiles([]ServiceSpec{testService()})
	if err != nil {
		return nil, err
	}
	opts := []larking.MuxOption{larking.FilesOption(files)}
	if c.MaxRecv > 0 {
		opts = append(opts, larking.MaxReceiveMessageSizeOption(c.MaxRecv))
	}
	if c.MaxSend > 0 {
		opts = append(opts, larking.MaxSendMessageSizeOption(c.MaxSend))
	}
	if hasOpt(c, "unaryInt") {
		opts = append(opts, larking.UnaryServerInterceptorOption(func(ctx context.Context, req interface{}, info *grpc.UnaryServerInfo, handler grpc.UnaryHandler) (interface{}, error) {
			resp, err := handler(ctx, req)
			e.mu.Lock()
			e.icalls = append(e.icalls, ICall{Kind: "unary", Meth: info.FullMethod, Err: codeOf(err), Tag: tagged(ctx, e)})
			e.mu.Unlock()
			return resp, err
		}))
	}
	if hasOpt(c, "streamInt") {
		opts = append(opts, larking.StreamServerInterceptorOption(func(srv interface{}, ss grpc.ServerStream, info *grpc.StreamServerInfo, handler grpc.StreamHandler) error {
			ws := &watchStream{ServerStream: ss}
			err := handler(srv, ws)
			e.mu.Lock()
			e.icalls = append(e.icalls, ICall{Kind: "stream", Meth: info.FullMethod, CS: info.IsClientStream, SS: info.IsServerStream, Err: codeOf(err),
				Recv: int(ws.nrecv.Load()), Send: int(ws.nsend.Load()), Tag: tagged(ss.Context(), e)})
			e.mu.Unlock()
			return err
		}))
	}
	if hasOpt(c, "stats") {
		opts = append(opts, larking.StatsOption(e))
	}
	mux, err := larking.NewMux(opts...)
	if err != nil {
		return nil, err
	}
	if err := larking.VerifRegisterService(mux, MakeServiceDesc(sds[0], e.unary, e.stream), struct{}{}); err != nil {
		return nil, err
	}
	e.mux = mux
	for i, sz := range c.Sizes {
		if c.Boundary > 0 && i == 0 {
			e.sent = append(e.sent, recordsMsg(c.ID, 1, 8+c.Boundary-1))
			continue
		}
		if c.Exact && c.Noise {
			e.sent = append(e.sent, exactNoise(c.ID, i+1, sz, c.Codec))
		} else if c.Noise {
			e.sent = append(e.sent, noiseMsg(c.ID, i+1, sz))
		} else if c.Exact {
			e.sent = append(e.sent, exactReq(c.ID, i+1, sz, c.Codec))
		} else {
			e.sent = append(e.sent, reqMsg(c.ID, i+1, sz))
		}
	}
	return e, nil
}

// ---- wire encoding of the request ---------------------------------------------------

func marshalMsg(codec string, m proto.Message) []byte {
	if codec == "json" {
		b, err := protojson.Marshal(m)
		if err != nil {
			panic(err)
		}
		return b
	}
	b, err := proto.Marshal(m)
	if err != nil {
		panic(err)
	}
	return b
}

func gz(b []byte) []byte {
	var buf bytes.Buffer
	w := gzip.NewWriter(&buf)
	w.Write(b)
	w.Close()
	return buf.Bytes()
}

func grpcFrame(payload []byte, compressed bool) []byte {
	out := make([]byte, 5, 5+len(payload))
	if compressed {
		out[0] = 1
	}
	binary.BigEndian.PutUint32(out[1:], uint32(len(payload)))
	return append(out, payload...)
}

func (e *rpcEnv) requestBody() []byte {
	c := e.c
	var frames [][]byte
	switch c.Proto {
	case "grpc", "grpcweb", "grpcwebtext":
		for _, m := range e.sent {
			p := marshalMsg(c.Codec, m)
			if c.Comp == "gzip" && !c.PlainFrames {
				frames = append(frames, grpcFrame(gz(p), true))
			} else {
				frames = append(frames, grpcFrame(p, false))
			}
		}
	default: // http, twirp
		streaming := c.Shape == "cstream" || c.Shape == "bidi"
		for _, m := range e.sent {
			p := marshalMsg(c.Codec, m)
			if streaming && c.Codec == "proto" {
				p = append(protowire.AppendVarint(nil, uint64(len(p))), p...)
			}
			frames = append(frames, p)
		}
	}
	if c.Corrupt && len(frames) > 0 {
		frames[0] = grpcFrame([]byte("this is not a gzip stream at all"), true)
	}
	var body []byte
	for i, f := range frames {
		if c.Trunc > 0 && i == c.TruncK { // cut inside this frame: keep 1..len-1 bytes of it
			k := c.Trunc
			if k >= len(f) {
				k = len(f) - 1
			}
			if k < 1 {
				k = 1
			}
			if len(f) <= 1 {
				k = 0 // a one-byte frame cannot be cut inside: the body ends at a message boundary
			}
			e.cutInside = k > 0
			body = append(body, f[:k]...)
			break
		}
		body = append(body, f...)
	}
	if c.Proto == "grpcwebtext" {
		body = []byte(base64.StdEncoding.EncodeToString(body))
	}
	if (c.Proto == "http" || c.Proto == "twirp") && c.Comp == "gzip" {
		// a gzip body may consist of several members (RFC 1952): every third case is cut into two or three, at a message
		// boundary or anywhere else
		if c.ID%3 == 1 && len(body) > 1 && c.Trunc == 0 {
			a := 1 + (c.ID*7)%(len(body)-1)
			if len(frames) > 1 && c.ID%2 == 0 {
				a = len(frames[0])
			}
			parts := [][]byte{body[:a], body[a:]}
			if len(body)-a > 2 && c.ID%5 == 1 {
				b := a + 1 + (c.ID*3)%(len(body)-a-1)
				parts = [][]byte{body[:a], body[a:b], body[b:]}
			}
			body = nil
			for _, p := range parts {
				body = append(body, gz(p)...)
			}
			return body
		}
		body = gz(body)
	}
	return body
}

type closeReader struct{ io.Reader }

func (closeReader) Close() error { return nil }

func (e *rpcEnv) buildRequest() *http.Request {
	c := e.c
	name, path := methodOf(c.Shape)
	if c.BodyWriter {
		name, path = "Dl", "/t/dl"
	}
	body := e.requestBody()
	var rd io.Reader = bytes.NewReader(body)
	if len(c.Sched) > 0 || c.EofWith {
		rd = &schedReader{wire: body, sched: c.Sched, eofWith: c.EofWith}
	}
	target := path
	if c.Proto != "http" {
		target = "/vs.T/" + name
	}
	req := httptest.NewRequest("POST", "http://verif.test"+target, nil)
	req.URL = &url.URL{Scheme: "http", Host: "verif.test", Path: target}
	req.Body = closeReader{rd}
	req.ContentLength = int64(len(body))
	if len(c.Sched) > 0 || c.EofWith {
		req.ContentLength = -1
	}
	switch c.Proto {
	case "grpc":
		req.ProtoMajor, req.ProtoMinor, req.Proto = 2, 0, "HTTP/2.0"
		req.Header.Set("Content-Type", "application/grpc+"+c.Codec)
		req.Header.Set("Te", "trailers")
		if c.Comp != "" {
			req.Header.Set("Grpc-Encoding", c.Comp)
		}
	case "grpcweb":
		if c.H2 {
			req.ProtoMajor, req.ProtoMinor, req.Proto = 2, 0, "HTTP/2.0"
		}
		req.Header.Set("Content-Type", "application/grpc-web+"+c.Codec)
		if c.Comp != "" {
			req.Header.Set("Grpc-Encoding", c.Comp)
		}
	case "grpcwebtext":
		if c.H2 {
			req.ProtoMajor, req.ProtoMinor, req.Proto = 2, 0, "HTTP/2.0"
		}
		req.Header.Set("Content-Type", "application/grpc-web-text+"+c.Codec)
		if c.Comp != "" {
			req.Header.Set("Grpc-Encoding", c.Comp)
		}
	default:
		if c.H2 {
			req.ProtoMajor, req.ProtoMinor, req.Proto = 2, 0, "HTTP/2.0"
		}
		if c.Codec == "json" {
			req.Header.Set("Content-Type", "application/json")
		} else {
			req.Header.Set("Content-Type", "application/protobuf")
		}
		if c.Comp != "" {
			req.Header.Set("Content-Encoding", c.Comp)
		}
		if c.ReqCT != "" { // a bodyless request that nevertheless names a content type (an upload client, a browser form)
			req.Header.Set("Content-Type", c.ReqCT)
			req.Body = http.NoBody
			req.ContentLength = 0
		}
		if c.Proto == "twirp" {
			req.Header.Set("Twirp-Version", "v5.12.0")
		}
		if c.Accept != "" {
			req.Header.Set("Accept", c.Accept)
		}
		if c.ID%3 == 0 { // what Go's http.Client, curl --compressed and browsers send on their own
			req.Header.Set("Accept-Encoding", []string{"gzip", "gzip, deflate, br", "gzip;q=1.0, identity;q=0.5"}[c.ID/3%3])
		}
	}
	if c.Timeout != "" {
		req.Header.Set("Grpc-Timeout", c.Timeout)
	}
	for k, vs := range c.ReqMD {
		for _, v := range vs {
			if strings.HasSuffix(strings.ToLower(k), "-bin") {
				if raw, err := hex.DecodeString(v); err == nil {
					if c.BinPad {
						v = base64.StdEncoding.EncodeToString(raw)
					} else {
						v = base64.RawStdEncoding.EncodeToString(raw)
					}
				}
			}
			req.Header[k] = append(req.Header[k], v) // keep the case of the name as given
		}
	}
	return req
}

// ---- decoding of the response -------------------------------------------------------

func decodeGrpcMessage(s string) string {
	var b strings.Builder
	for i := 0; i < len(s); i++ {
		if s[i] == '%' && i+2 < len(s)+0 && i+2 <= len(s)-1 {
			if v, err := strconv.ParseUint(s[i+1:i+3], 16, 8); err == nil {
				b.WriteByte(byte(v))
				i += 2
				continue
			}
		}
		b.WriteByte(s[i])
	}
	return b.String()
}

// In cases and observations the values of "-bin" keys are written in hex.
// scribble overwrites the values of md in place and empties it.
func scribble(md metadata.MD) {
	for k, vs := range md {
		for i := range vs {
			vs[i] = "scribbled"
		}
		delete(md, k)
	}
}

func wireMD(md MD) metadata.MD {
	out := metadata.MD{}
	for k, vs := range md {
		for _, v := range vs {
			if strings.HasSuffix(k, "-bin") {
				if raw, err := hex.DecodeString(v); err == nil {
					v = string(raw)
				}
			}
			out[k] = append(out[k], v)
		}
	}
	return out
}

// hexBinRaw: values of -bin keys are raw bytes (handler side)
func hexBinRaw(md MD) MD {
	out := MD{}
	for k, vs := range md {
		for _, v := range vs {
			if strings.HasSuffix(k, "-bin") {
				v = hex.EncodeToString([]byte(v))
			}
			out[k] = append(out[k], v)
		}
	}
	return out
}

// hexBinB64: values of -bin keys are base64 text (client side)
func hexBinB64(md MD) MD {
	out := MD{}
	for k, vs := range md {
		for _, v := range vs {
			if strings.HasSuffix(k, "-bin") && k != "grpc-status-details-bin" {
				raw, err := base64.RawStdEncoding.DecodeString(strings.TrimRight(v, "="))
				if err != nil {
					v = "undecodable:" + v
				} else {
					v = hex.EncodeToString(raw)
				}
			}
			out[k] = append(out[k], v)
		}
	}
	return out
}

func lowerMD(h http.Header) MD {
	out := MD{}
	for k, v := range h {
		out[strings.ToLower(k)] = append([]string{}, v...)
	}
	return out
}

func (e *rpcEnv) matchReply(b []byte, codec string) RecvObs {
	m := dynamicpb.NewMessage(repDesc())
	var err error
	if codec == "json" {
		err = protojson.Unmarshal(b, m)
	} else {
		err = proto.Unmarshal(b, m)
	}
	if err != nil {
		return RecvObs{Err: "undecodable"}
	}
	id := m.Get(repDesc().Fields().ByName("id")).String()
	ro := RecvObs{Size: proto.Size(m)}
	if id == "" { // an empty reply: the next reply of the script that was meant to be empty
		k := 0
		for _, st := range e.c.Script {
			if st.Op == "send" {
				k++
				if st.Size < 0 && !e.emptyReplySeen[k] && proto.Size(m) == 0 {
					if e.emptyReplySeen == nil {
						e.emptyReplySeen = map[int]bool{}
					}
					e.emptyReplySeen[k] = true
					ro.Idx, ro.Equal = k, true
					return ro
				}
			}
		}
		return ro
	}
	var n, cid int
	if _, err := fmt.Sscanf(id, "h%d-r%d", &cid, &n); err == nil && cid == e.c.ID {
		// find the size the script gave that reply
		k := 0
		for _, st := range e.c.Script {
			if st.Op == "send" {
				k++
				if k == n {
					ro.Idx = n
					ro.Equal = proto.Equal(repMsg(cid, n, st.Size), m)
				}
			}
		}
		if ro.Idx == 0 && n == 1 && e.c.Shape == "unary" {
			ro.Idx, ro.Equal = 1, proto.Equal(repMsg(cid, 1, 0), m)
		}
	}
	return ro
}

func (e *rpcEnv) statusFrom(code int, msg string, details int, detEqual bool, present bool) StatusObs {
	so := StatusObs{Code: code, Shape: shapeOf(msg), Details: details, DetEqual: detEqual, Present: present}
	// expected text comes from the script's ret step
	for _, st := range e.c.Script {
		if st.Op == "ret" {
			so.MsgEqual = msg == statusText(st.Msg)
			if re, ok := rawErrors[st.Code]; ok {
				so.MsgEqual = msg == re.Error()
			}
		}
	}
	return so
}

func checkDetails(p *spb.Status, want int) (int, bool) {
	if p == nil {
		return 0, want == 0
	}
	ok := len(p.Details) == want
	for i, d := range p.Details {
		if i < want {
			a, _ := anypb.New(detailsFor(want)[i])
			if !proto.Equal(a, d) {
				ok = false
			}
		}
	}
	return len(p.Details), ok
}

func (e *rpcEnv) wantDetails() int {
	for _, st := range e.c.Script {
		if st.Op == "ret" && st.Code != 0 {
			return st.Det
		}
	}
	return 0
}

func (e *rpcEnv) decodeGRPC(w *httptest.ResponseRecorder, web bool, text bool) ClientObs {
	res := w.Result()
	co := ClientObs{HTTP: res.StatusCode, CT: res.Header.Get("Content-Type"), CE: res.Header.Get("Grpc-Encoding"),
		Msgs: []RecvObs{}, Hdr: lowerMD(res.Header), Trl: MD{}, Clean: true}
	body := w.Body.Bytes()
	co.BodyLen = len(body)
	if text {
		dec, err := base64.StdEncoding.DecodeString(string(body))
		if err != nil {
			// tolerate a truncated final quantum: decode what is decodable and note it
			co.Note = "base64: " + err.Error()
			co.Clean = false
			dec, _ = base64.StdEncoding.DecodeString(string(body[:len(body)/4*4]))
		}
		body = dec
	}
	trailers := http.Header{}
	sawTrailerFrame := false
	for len(body) > 0 {
		if len(body) < 5 {
			co.Clean = false
			co.Note += " short frame header"
			break
		}
		flag := body[0]
		n := int(binary.BigEndian.Uint32(body[1:5]))
		if 5+n > len(body) {
			co.Clean = false
			co.Note += fmt.Sprintf(" frame of %d bytes cut at %d", n, len(body)-5)
			n = len(body) - 5
		}
		payload := body[5 : 5+n]
		body = body[5+n:]
		if flag&0x80 != 0 {
			sawTrailerFrame = true
			tp := textproto.NewReader(bufio.NewReader(bytes.NewReader(append(append([]byte{}, payload...), '\r', '\n'))))
			h, err := tp.ReadMIMEHeader()
			if err != nil && len(h) == 0 {
				co.Clean = false
				co.Note += " trailer frame: " + err.Error()
			}
			for k, v := range h {
				trailers[k] = v
			}
			continue
		}
		if flag&1 != 0 {
			zr, err := gzip.NewReader(bytes.NewReader(payload))
			if err != nil {
				co.Msgs = append(co.Msgs, RecvObs{Err: "undecodable"})
				continue
			}
			p, err := io.ReadAll(zr)
			if err != nil {
				co.Msgs = append(co.Msgs, RecvObs{Err: "undecodable"})
				continue
			}
			payload = p
		}
		co.Msgs = append(co.Msgs, e.matchReply(payload, e.c.Codec))
	}
	if !web {
		for k, v := range res.Trailer {
			trailers[k] = v
		}
	} else if !sawTrailerFrame {
		// trailers-only responses carry status and trailer metadata in the headers
		for k, v := range res.Header {
			trailers[k] = v
		}
	}
	co.Trl = lowerMD(trailers)
	if gs := trailers.Get("Grpc-Status"); gs != "" {
		code, err := strconv.Atoi(gs)
		if err != nil {
			co.Status = StatusObs{Present: false}
		} else {
			msg := decodeGrpcMessage(trailers.Get("Grpc-Message"))
			nd, deq := 0, e.wantDetails() == 0
			if db := trailers.Get("Grpc-Status-Details-Bin"); db != "" {
				raw, err := base64.RawStdEncoding.DecodeString(strings.TrimRight(db, "="))
				if err == nil {
					var p spb.Status
					if proto.Unmarshal(raw, &p) == nil {
						nd, deq = checkDetails(&p, e.wantDetails())
					}
				}
			}
			co.Status = e.statusFrom(code, msg, nd, deq, true)
		}
	}
	return co
}

func (e *rpcEnv) decodeHTTP(w *httptest.ResponseRecorder) ClientObs {
	res := w.Result()
	co := ClientObs{HTTP: res.StatusCode, CT: res.Header.Get("Content-Type"), CE: res.Header.Get("Content-Encoding"),
		Msgs: []RecvObs{}, Hdr: lowerMD(res.Header), Trl: lowerMD(res.Trailer), Clean: true}
	body := w.Body.Bytes()
	co.BodyLen = len(body)
	if co.CE == "gzip" {
		zr, err := gzip.NewReader(bytes.NewReader(body))
		if err == nil {
			if p, err := io.ReadAll(zr); err == nil {
				body = p
			} else {
				co.Clean = false
			}
		} else {
			co.Clean = false
		}
	}
	if e.c.BodyWriter && res.StatusCode == 200 {
		co.Msgs = append(co.Msgs, e.matchReply(body, "proto"))
		return co
	}
	codec := ""
	switch {
	case strings.HasPrefix(co.CT, "application/json"):
		codec = "json"
	case strings.HasPrefix(co.CT, "application/protobuf"), strings.HasPrefix(co.CT, "application/octet-stream"):
		codec = "proto"
	}
	if e.c.Proto == "twirp" && res.StatusCode != 200 {
		var te struct {
			Code string `json:"code"`
			Msg  string `json:"msg"`
		}
		if err := json.Unmarshal(body, &te); err != nil {
			co.Clean = false
			co.Note = "twirp error body: " + err.Error()
			return co
		}
		co.Status = e.statusFrom(-1, te.Msg, 0, true, true)
		co.Status.Name = te.Code
		return co
	}
	// split the body into messages
	var parts [][]byte
	streaming := e.c.Shape == "sstream" || e.c.Shape == "bidi"
	rest := body
	for len(rest) > 0 {
		if codec == "json" {
			dec := json.NewDecoder(bytes.NewReader(rest))
			var raw json.RawMessage
			if err := dec.Decode(&raw); err != nil {
				co.Clean = false
				co.Note += " json split: " + err.Error()
				break
			}
			parts = append(parts, raw)
			rest = rest[dec.InputOffset():]
			rest = bytes.TrimLeft(rest, " \n\r\t")
		} else if codec == "proto" && streaming && res.StatusCode == 200 {
			n, k := protowire.ConsumeVarint(rest)
			if k < 0 || int(n) > len(rest)-k {
				co.Clean = false
				co.Note += " proto split"
				break
			}
			parts = append(parts, rest[k:k+int(n)])
			rest = rest[k+int(n):]
		} else {
			parts = append(parts, rest)
			rest = nil
		}
	}
	if res.StatusCode == 200 && len(body) == 0 && !streaming && codec == "proto" {
		parts = append(parts, []byte{}) // an empty protobuf message
	}
	for i, p := range parts {
		// the last part of a failed stream / any part of an error response may be google.rpc.Status
		if res.StatusCode != 200 || (i == len(parts)-1 && e.scriptFails()) {
			var st spb.Status
			var err error
			if codec == "json" {
				err = protojson.Unmarshal(p, &st)
			} else {
				err = proto.Unmarshal(p, &st)
			}
			if err == nil && (st.Code != 0 || st.Message != "" || res.StatusCode != 200) && !looksLikeReply(p, codec) {
				nd, deq := checkDetails(&st, e.wantDetails())
				co.Status = e.statusFrom(int(st.Code), st.Message, nd, deq, true)
				continue
			}
		}
		co.Msgs = append(co.Msgs, e.matchReply(p, codec))
	}
	return co
}

func looksLikeReply(p []byte, codec string) bool {
	m := dynamicpb.NewMessage(repDesc())
	var err error
	if codec == "json" {
		err = protojson.Unmarshal(p, m)
	} else {
		err = proto.Unmarshal(p, m)
	}
	if err != nil {
		return false
	}
	return strings.HasPrefix(m.Get(repDesc().Fields().ByName("id")).String(), "h")
}

func (e *rpcEnv) scriptFails() bool {
	for _, st := range e.c.Script {
		if st.Op == "ret" && st.Code != 0 {
			return true
		}
	}
	return false
}

// ---- run one case ----------------------------------------------------------------------

func runRpcCase(c RpcCase) RpcEv {
	for i := range c.Script {
		if c.Script[i].MD == nil {
			c.Script[i].MD = MD{}
		}
		if c.Script[i].Msg == nil {
			c.Script[i].Msg = []string{}
		}
	}
	if c.ReqMD == nil {
		c.ReqMD = MD{}
	}
	if c.ReqWant == nil {
		c.ReqWant = MD{}
	}
	ev := RpcEv{Ev: "Rpc", Case: c.ID, C: c, Stats: []StatEv{}, ICalls: []ICall{}, Sent: []int{}, Replies: []int{}, ReqWant: c.ReqWant}
	ev.Cl = ClientObs{Msgs: []RecvObs{}, Hdr: MD{}, Trl: MD{}, Status: StatusObs{Shape: []string{}}, Forged: []string{}}
	ev.H = HandlerObs{Recv: []RecvObs{}, Sends: []SendObs{}, HdrErrs: []string{}, MD: MD{}}
	if ev.C.Opts == nil {
		ev.C.Opts = []string{}
	}
	if ev.C.Sizes == nil {
		ev.C.Sizes = []int{}
	}
	if ev.C.Script == nil {
		ev.C.Script = []Step{}
	}
	if ev.C.Sched == nil {
		ev.C.Sched = []int{}
	}
	if c.ExactRep {
		k := 0
		sc := append([]Step{}, c.Script...)
		for i := range sc {
			if sc[i].Op == "send" {
				k++
				if sc[i].Size > 0 {
					sc[i].Size = exactRepPad(c.ID, k, sc[i].Size, c.Codec)
				}
			}
		}
		c.Script = sc
		ev.C.Script = sc
	}
	if c.Boundary > 0 {
		c.MaxRecv = len(marshalMsg(c.Codec, recordsMsg(c.ID, 1, 8)))
		ev.C.MaxRecv = c.MaxRecv
	}
	e, err := newRpcEnv(c)
	if err != nil {
		ev.Crash = "setup: " + err.Error()
		return ev
	}
	for _, m := range e.sent {
		ev.Sent = append(ev.Sent, len(marshalMsg(c.Codec, m)))
	}
	k := 0
	for _, st := range c.Script {
		if st.Op == "send" {
			k++
			ev.Replies = append(ev.Replies, len(marshalMsg(c.Codec, repMsg(c.ID, k, st.Size))))
		}
	}
	ev.ReqWant = c.ReqWant
	if ev.ReqWant == nil {
		ev.ReqWant = MD{}
	}
	if c.Proto == "ws" || c.Proto == "grpcsock" {
		if c.Proto == "ws" {
			e.runWs(&ev)
		} else {
			e.runGrpcSock(&ev)
		}
		e.mu.Lock()
		ev.H = e.h
		ev.Stats = append(ev.Stats, e.stats...)
		ev.ICalls = append(ev.ICalls, e.icalls...)
		e.mu.Unlock()
		ev.H.MD = hexBinRaw(filterMD(ev.H.MD))
		return ev
	}
	req := e.buildRequest()
	if c.Trunc > 0 && !e.cutInside && c.TruncK <= len(ev.Sent) {
		// the cut fell on a message boundary: a complete, shorter stream
		ev.C.Trunc = 0
		ev.Sent = ev.Sent[:c.TruncK]
	}
	if c.Corrupt {
		// the specification sees a stream whose first message cannot be received
		ev.C.Trunc, ev.C.TruncK = 1, 0
		ev.Sent = ev.Sent[:0]
	}
	w := httptest.NewRecorder()
	done := make(chan string, 1)
	go func() {
		defer func() {
			if p := recover(); p != nil {
				done <- fmt.Sprintf("panic: %v", p)
				return
			}
			done <- ""
		}()
		e.mux.ServeHTTP(w, req)
	}()
	select {
	case ev.Crash = <-done:
	case <-time.After(10 * time.Second):
		ev.Crash = "hang"
		return ev
	}
	e.mu.Lock()
	ev.H = e.h
	ev.Stats = append(ev.Stats, e.stats...)
	ev.ICalls = append(ev.ICalls, e.icalls...)
	e.mu.Unlock()
	if ev.Crash != "" {
		return ev
	}
	switch c.Proto {
	case "grpc":
		ev.Cl = e.decodeGRPC(w, false, false)
	case "grpcweb":
		ev.Cl = e.decodeGRPC(w, true, false)
	case "grpcwebtext":
		ev.Cl = e.decodeGRPC(w, true, true)
	default:
		ev.Cl = e.decodeHTTP(w)
	}
	if ev.Cl.Status.Shape == nil {
		ev.Cl.Status.Shape = []string{}
	}
	ev.Cl.Forged = e.forgedKeys(ev.Cl.Hdr, ev.Cl.Trl)
	// keep the trace small: only custom and protocol keys of interest
	ev.Cl.Hdr = hexBinB64(filterMD(ev.Cl.Hdr))
	ev.Cl.Trl = hexBinB64(filterMD(ev.Cl.Trl))
	ev.H.MD = hexBinRaw(filterMD(ev.H.MD))
	for i := range ev.C.Script {
		if ev.C.Script[i].MD == nil {
			ev.C.Script[i].MD = MD{}
		}
		if ev.C.Script[i].Msg == nil {
			ev.C.Script[i].Msg = []string{}
		}
	}
	if ev.C.ReqMD == nil {
		ev.C.ReqMD = MD{}
	}
	return ev
}

// forgedKeys lists the protocol-reserved keys whose handler-supplied value is visible to the client in hdr or trl (raw
// response metadata: -bin values base64 on the wire, raw from grpc-go).
func (e *rpcEnv) forgedKeys(hdr, trl MD) []string {
	out := []string{}
	seen := map[string]bool{}
	for _, st := range e.c.Script {
		if st.Op != "sethdr" && st.Op != "settrl" && st.Op != "sendhdr" {
			continue
		}
		for k, vs := range st.MD {
			if !reservedOutKeys[k] || seen[k] {
				continue
			}
			for _, v := range vs {
				if k == "grpc-status" && v == strconv.Itoa(e.retCode()) {
					continue // the handler's value coincides with the real status: nothing to tell apart
				}
				forms := []string{v}
				if strings.HasSuffix(k, "-bin") {
					if raw, err := hex.DecodeString(v); err == nil {
						forms = []string{string(raw), base64.StdEncoding.EncodeToString(raw), base64.RawStdEncoding.EncodeToString(raw)}
					}
				}
				for _, md := range []MD{hdr, trl} {
					for _, got := range md[k] {
						for _, f := range forms {
							if got == f && !seen[k] {
								seen[k] = true
								out = append(out, k)
							}
						}
					}
				}
			}
		}
	}
	sort.Strings(out)
	return out
}

func (e *rpcEnv) retCode() int {
	for _, st := range e.c.Script {
		if st.Op == "ret" {
			return st.Code
		}
	}
	return 0
}

var reservedOutKeys = map[string]bool{"content-type": true, "user-agent": true, "grpc-message-type": true, "grpc-encoding": true,
	"grpc-message": true, "grpc-status": true, "grpc-timeout": true, "grpc-status-details-bin": true, "te": true, "trailer": true,
	"content-length": true, "grpc-accept-encoding": true}

func filterMD(m MD) MD {
	out := MD{}
	keys := make([]string, 0, len(m))
	for k := range m {
		keys = append(keys, k)
	}
	sort.Strings(keys)
	for _, k := range keys {
		if strings.HasPrefix(k, "x-") || strings.HasPrefix(k, "grpc-") || k == "content-type" || k == "trailer" || k == "te" || k == "user-agent" || k == "content-encoding" {
			out[k] = m[k]
		}
	}
	return out
}

func init() { drivers["rpc"] = rpcMain }

func rpcMain(args []string) error {
	c := newCommon("rpc")
	c.fs.Parse(args)
	tw, err := newTraceWriter(c.out)
	if err != nil {
		return err
	}
	var cases []RpcCase
	err = readLines(c.cases, func(b []byte) error {
		var rc RpcCase
		if err := json.Unmarshal(b, &rc); err != nil {
			return fmt.Errorf("%w: %s", err, b[:min(len(b), 200)])
		}
		if rc.ID == 0 {
			rc.ID = len(cases) + 1
		}
		cases = append(cases, rc)
		return nil
	})
	if err != nil {
		return err
	}
	work := make(chan RpcCase, 64)
	var wg sync.WaitGroup
	for i := 0; i < 16; i++ {
		wg.Add(1)
		go func() {
			defer wg.Done()
			for rc := range work {
				tw.Emit(runRpcCase(rc))
			}
		}()
	}
	for _, rc := range cases {
		work <- rc
	}
	close(work)
	wg.Wait()
	fmt.Printf("rpc: cases=%d events=%d\n", len(cases), tw.n)
	return tw.Close()
}
