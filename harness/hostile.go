package main

// Hostile driver (C09): the adversarial neighbourhood of valid traffic on all four
// entry paths (transcoding, gRPC, gRPC-web, WebSocket upgrade), with each option
// subset, under recover() and a watchdog.  Shapes come from the other models'
// near misses; a seeded byte-level mutator adds up to three edits.

import (
	"bufio"
	"bytes"
	"context"
	"encoding/base64"
	"encoding/hex"
	"encoding/json"
	"fmt"
	"io"
	"net/http"
	"net/http/httptest"
	"net/url"
	"os"
	"strings"
	"sync"
	"sync/atomic"
	"time"

	"google.golang.org/grpc"
	"google.golang.org/grpc/metadata"
	"google.golang.org/protobuf/proto"
	"google.golang.org/protobuf/reflect/protoreflect"
	"google.golang.org/protobuf/types/dynamicpb"
	"larking.io/larking"
)

type HostileEv struct {
	Ev     string `json:"ev"` // Hostile (generated neighbourhood) | Entry (abstract request from Entry.tla) | Ws (socket session)
	Case   int    `json:"case"`
	Entry  string `json:"entry"`
	Desc   string `json:"desc"`
	Opts   string `json:"opts"`
	Status int    `json:"status"`
	Crash  string `json:"crash"` // "" | panic text | hang
	// response shape
	CT         string `json:"ct"`         // class of the response content type: grpc | web | webtext | json | proto | plain | other | ""
	GrpcStatus int    `json:"grpcstatus"` // -1: none
	FramesOK   bool   `json:"framesok"`   // gRPC / gRPC-web body is a sequence of whole frames
	ErrBody    string `json:"errbody"`    // for HTTP >= 400: status | twirp | plain | other
	Invoked    int    `json:"invoked"`    // times the service implementation was entered for this request
	// Entry events: the abstract request and the model's answer
	Rq   *EntryRq   `json:"rq,omitempty"`
	Want *EntryResp `json:"want,omitempty"`
	// Ws events
	Upgraded bool     `json:"upgraded"`
	Frames   []string `json:"frames"` // what the server sent after the upgrade: text | binary | ping | pong | close:<code>:<reasonlen> | bad:<why>
	Returned bool     `json:"returned"`
}

type EntryRq struct {
	H2   bool   `json:"h2"`
	CT   string `json:"ct"`
	Meth string `json:"meth"`
	Genc string `json:"genc"`
	To   string `json:"to"`
	Path string `json:"path"`
	Upg  bool   `json:"upg"`
}
type EntryResp struct {
	Class  string `json:"class"`
	Status int    `json:"status"`
}
type EntryCase struct {
	Rq      EntryRq   `json:"rq"`
	Resp    EntryResp `json:"resp"`
	Invoked int       `json:"invoked"`
}

// HostileReq is the concrete request of an event, written to the side file for replay.
type HostileReq struct {
	Case    int               `json:"case"`
	Kind    string            `json:"kind"` // Hostile | Entry | Ws
	Entry   string            `json:"entry"`
	Desc    string            `json:"desc"`
	Method  string            `json:"method"`
	Path    string            `json:"path"`
	Query   string            `json:"query"`
	Hdr     map[string]string `json:"hdr"`
	BodyHex string            `json:"bodyhex"`
	HasBody bool              `json:"hasbody"`
	H2      bool              `json:"h2"`
	Opts    int               `json:"opts"` // index into hostileOptSets
	Rq      *EntryRq          `json:"rq,omitempty"`
	Want    *EntryResp        `json:"want,omitempty"`
	WsHex   []string          `json:"wshex,omitempty"` // Ws: raw bytes written after the upgrade, one write per element
	WsWait  bool              `json:"wswait,omitempty"`
}

func hostileService() ServiceSpec {
	b := func(kind, path, body string) *annotationsHTTPRule { r := httpRule(kind, path); r.Body = body; return r }
	svc := testService()
	svc.Name = "H"
	svc.Methods = append(svc.Methods,
		MethodSpec{Name: "Typed", Rule: b("GET", "/h/typed/{i}/{bo}/{en}", "")},
		MethodSpec{Name: "Deep", Rule: b("GET", "/h/deep/{n.deep.s=aa/bb/cc/**}", "")},
		MethodSpec{Name: "DeepVerb", Rule: b("GET", "/h/dv/{s=books/**}:read", "")},
		MethodSpec{Name: "Multi", Rule: b("POST", "/h/multi/{s=*/x/*}/{t=**}", "*")},
		MethodSpec{Name: "BodyField", Rule: b("PUT", "/h/bf/{s}", "b")},
		MethodSpec{Name: "Ws", ClientStream: true, ServerStream: true, Rule: b("WEBSOCKET", "/h/ws/{s}", "*")},
	)
	return svc
}

// (the last two are muxes on which nothing has been registered yet - the window between NewMux and the first
// RegisterService / RegisterConn; only the free-form requests run on them)
var hostileOptSets = [][]string{{}, {"stats"}, {"unaryInt", "streamInt"}, {"unaryInt", "streamInt", "stats"}, {"empty"}, {"empty", "unaryInt", "streamInt", "stats"}}

const hostileRegistered = 4 // option sets with the service registered

type hostileEnv struct {
	mux     *larking.Mux
	opts    string
	mu      sync.Mutex
	entered map[string]int
}

func (e *hostileEnv) enter(ctx context.Context) {
	md, _ := metadata.FromIncomingContext(ctx)
	if v := md.Get("x-case"); len(v) > 0 {
		e.mu.Lock()
		e.entered[v[0]]++
		e.mu.Unlock()
	}
}
func (e *hostileEnv) enteredFor(id string) int {
	e.mu.Lock()
	defer e.mu.Unlock()
	n := e.entered[id]
	delete(e.entered, id)
	return n
}

func newHostileEnv(opts []string) (*hostileEnv, error) {
	files, sds, err := BuildFiles([]ServiceSpec{hostileService()})
	if err != nil {
		return nil, err
	}
	e := &rpcEnv{c: RpcCase{Opts: opts}}
	mo := []larking.MuxOption{larking.FilesOption(files), larking.MaxReceiveMessageSizeOption(4096)}
	if hasOpt(e.c, "unaryInt") {
		mo = append(mo, larking.UnaryServerInterceptorOption(func(ctx context.Context, req interface{}, info *grpc.UnaryServerInfo, h grpc.UnaryHandler) (interface{}, error) {
			return h(ctx, req)
		}))
	}
	if hasOpt(e.c, "streamInt") {
		mo = append(mo, larking.StreamServerInterceptorOption(func(srv interface{}, ss grpc.ServerStream, info *grpc.StreamServerInfo, h grpc.StreamHandler) error {
			return h(srv, ss)
		}))
	}
	if hasOpt(e.c, "stats") {
		mo = append(mo, larking.StatsOption(e))
	}
	mux, err := larking.NewMux(mo...)
	if err != nil {
		return nil, err
	}
	he := &hostileEnv{opts: strings.Join(opts, "+"), entered: map[string]int{}}
	un := func(ctx context.Context, full string, req *dynamicpb.Message) (proto.Message, error) {
		he.enter(ctx)
		return repMsg(1, 1, 3), nil
	}
	st := func(full string, md protoreflect.MethodDescriptor, ss grpc.ServerStream) error {
		he.enter(ss.Context())
		for i := 0; i < 3; i++ {
			m := dynamicpb.NewMessage(reqDesc())
			if err := ss.RecvMsg(m); err != nil {
				if i == 0 && err != io.EOF {
					return err // a first message that cannot be read fails the call
				}
				break
			}
			if md.IsStreamingServer() || i == 0 {
				if err := ss.SendMsg(repMsg(1, i+1, 2)); err != nil {
					return err
				}
			}
		}
		return nil
	}
	if !hasOpt(e.c, "empty") {
		if err := larking.VerifRegisterService(mux, MakeServiceDesc(sds[0], un, st), struct{}{}); err != nil {
			return nil, err
		}
	}
	he.mux = mux
	return he, nil
}

type hreq struct {
	entry, desc, method, path, query string
	hdr                              map[string]string
	body                             []byte
	h2                               bool
}

func hostileRequests(r *rng, n int) []hreq {
	var out []hreq
	msg := marshalMsg("proto", reqMsg(1, 1, 5))
	js := marshalMsg("json", reqMsg(1, 1, 5))
	frame := grpcFrame(msg, false)
	add := func(h hreq) { out = append(out, h) }
	// --- transcoding: paths
	paths := []string{"/h/typed/1/true/RED", "/h/typed/x/true/RED", "/h/typed/1/2/3/4", "/h/typed/1/true/RED:v", "/h/typed:1/true/RED",
		"/h/deep/aa/bb/cc/d", "/h/deep/aa/bb/cc/d:v", "/h/deep/aa/bb/cc", "/h/deep/aa/bb/cc/d/e/f:g:h", "/h/deep/aa:bb/cc/d",
		"/h/dv/books/a/b:read", "/h/dv/books:read", "/h/dv/books/a:read:read", "/h/dv/books/a/b", "/h/dv/:read",
		"/h/multi/a/x/b/c/d", "/h/multi/a/x/b", "/h/multi/a/x", "/h/multi/a/x/b/c:d", "/h/multi//x//",
		"/", "", "//", "/:", ":", "/h", "/h/", "/h//typed", "/h/typed/1/true/RED/", "h/typed/1/true/RED", "/%", "/%zz", "/h/typed/%31/true/RED",
		"/" + strings.Repeat("a/", 40), "/" + strings.Repeat("a:", 40), "/" + strings.Repeat("a", 5000), "/h/deep/aa/bb/cc/" + strings.Repeat("x/", 70),
		"/vs.H/Unary", "/vs.H/Unary/", "/vs.H/Unary:x", "/vs.H/", "/vs.H", "/vs.H/Nope", "/vs.H/Bidi", "/h/ws/x", "/h/bf/x", "/t/unary", "/t/bidi",
		// characters that are not path characters, 2, 3 and 4 bytes long, at the very start of the path, of a segment, of a verb,
		// and after a legal character
		"/€", "/§/one", "/😀", "/€x", "/a/😀", "/a:😀", "/a€", "/h/typed/€/true/RED", "/h/dv/books/€:read", "/\u00a0", "/h:§",
		"/h/typed/\x00/true/RED", "/h/typed/1/true/\xff\xfe", "/h/typed/١/true/RED", "/h/typed/1e3/true/RED", "/h/typed/-0/True/7"}
	queries := []string{"", "s=x", "i=1&i=2", "r=a&r=b", "rn.s=x", "rn=1", "mp=1", "mp.k=v", "n=1", "n.s.x=1", "s.x=1", "zz=1", "n.deep.i=x", "ts=bad", "wi32=x",
		"by=!!", "en=NOPE", "=", "&&&", "a=%zz", "os=a&oi=1", "hb=1", "hb.data=AA", "ri=1&ri=x", "b.rs=a&b.rs=b", "n.rs=1", "%6e.s=x", strings.Repeat("s=x&", 300)}
	for _, p := range paths {
		for _, m := range []string{"GET", "POST", "PUT", "DELETE", "PATCH", "get", "LIST", "WEBSOCKET", ""} {
			add(hreq{entry: "http", desc: "path", method: m, path: p, query: queries[r.Intn(len(queries))]})
		}
	}
	// every segment prefix and one-step extension of a valid path, under every verb incl. a WebSocket upgrade
	upg := map[string]string{"Upgrade": "websocket", "Connection": "Upgrade", "Sec-WebSocket-Key": "dGhlIHNhbXBsZSBub25jZQ==", "Sec-WebSocket-Version": "13"}
	for _, full := range []string{"/h/typed/1/true/RED", "/h/deep/aa/bb/cc/d/e", "/h/dv/books/a/b:read", "/h/multi/a/x/b/c/d", "/h/bf/x", "/h/ws/x", "/t/unary", "/vs.H/Unary"} {
		segs := strings.Split(strings.TrimPrefix(full, "/"), "/")
		for k := 1; k <= len(segs); k++ {
			pre := "/" + strings.Join(segs[:k], "/")
			for _, suf := range []string{"", "/", ":v", "/zz", ":read", "/*", "/**"} {
				for _, m := range []string{"GET", "POST", "DELETE", "PATCH", "PUT"} {
					add(hreq{entry: "http", desc: "prefix", method: m, path: pre + suf})
				}
				add(hreq{entry: "http", desc: "prefix+upgrade", method: "GET", path: pre + suf, hdr: upg})
			}
		}
	}
	for _, q := range queries {
		add(hreq{entry: "http", desc: "query", method: "GET", path: "/h/typed/1/true/RED", query: q})
		add(hreq{entry: "http", desc: "query", method: "POST", path: "/vs.H/Unary", query: q, body: js, hdr: map[string]string{"Content-Type": "application/json"}})
	}
	// --- negotiation headers, systematically: every element shape x parameter shape, alone and in lists, on a request
	// that succeeds, on one that fails (error replies are negotiated too) and on an upload
	var elems []string
	for _, t := range []string{"application/json", "*/*", "application/*", "gzip", "identity", "text/html", "", "a", "/"} {
		for _, pm := range []string{"", ";", "; ", ";q", ";q=", ";q=1", ";Q=0.5", ";q=0", ";q=1;", ";x", ";=", "; q = 1", ";q=1;q", ";;", ";q=\xff", ";qq",
			// media type parameters (RFC 9110 8.3.1): token and quoted-string values, before and after a weight, comments
			";charset=utf-8", ";charset=\"utf-8\"", ";charset=\"utf-8\";q=0.9", ";q=0.9;charset=\"utf-8\"", ";level=1 (preferred)", ";a=\"x,y\"", ";a=\"x\\\"y\"", ";a=\"", ";a=b=c", ";a=(", ";a=[1]"} {
			elems = append(elems, t+pm)
		}
	}
	for i, e := range elems {
		vals := []string{e, "," + e, e + ", " + elems[(i*7+3)%len(elems)]}
		for _, v := range vals {
			for _, hn := range []string{"Accept", "Accept-Encoding"} {
				add(hreq{entry: "http", desc: "negotiate", method: "POST", path: "/t/unary", body: js, hdr: map[string]string{"Content-Type": "application/json", hn: v}})
			}
			add(hreq{entry: "http", desc: "negotiate", method: "GET", path: "/h/typed/x/true/RED", hdr: map[string]string{"Accept": v, "Accept-Encoding": vals[0]}})
			add(hreq{entry: "http", desc: "negotiate", method: "POST", path: "/h/bf/x", body: js, hdr: map[string]string{"Content-Type": "image/png", "Accept": v}})
		}
	}
	// --- transcoding: bodies and headers
	cts := []string{"application/json", "application/protobuf", "application/octet-stream", "", "text/plain", "application/json; charset=utf-8", "google.api.HttpBody", "application/grpc", "application/grpc-web", "\x00", strings.Repeat("a", 300)}
	accepts := []string{"", "*/*", "application/protobuf", "google.api.HttpBody", "text/html;q=0", ";;;", "application/*;q=x", "a/b;q=1;q=2", strings.Repeat("a/b,", 200)}
	encs := []string{"", "gzip", "identity", "br", "GZIP", "gzip, gzip"}
	bodies := [][]byte{nil, {}, js, msg, []byte("{"), []byte("}"), []byte("null"), []byte("[]"), []byte("{\"s\":1}"), []byte("{\"zz\":1}"), js[:len(js)/2], msg[:len(msg)/2],
		gz(js), gz(js)[:10], []byte("\x1f\x8b"), bytes.Repeat([]byte("{"), 5000), bytes.Repeat([]byte("9"), 6000), []byte("\xff\xff\xff\xff\xff\xff\xff\xff\xff\x01"), []byte("\x80\x80\x80\x80\x80\x80\x80\x80\x80\x80\x80")}
	for i := 0; i < n/4; i++ {
		h := hreq{entry: "http", desc: "body", method: []string{"POST", "PUT", "GET"}[r.Intn(3)],
			path: []string{"/t/unary", "/t/cstream", "/t/bidi", "/t/sstream", "/h/bf/x", "/vs.H/Unary", "/vs.H/Bidi", "/h/multi/a/x/b/c"}[r.Intn(8)],
			body: bodies[r.Intn(len(bodies))], hdr: map[string]string{}}
		h.hdr["Content-Type"] = cts[r.Intn(len(cts))]
		h.hdr["Accept"] = accepts[r.Intn(len(accepts))]
		h.hdr["Content-Encoding"] = encs[r.Intn(len(encs))]
		h.hdr["Accept-Encoding"] = encs[r.Intn(len(encs))]
		if r.Intn(5) == 0 {
			h.hdr["Twirp-Version"] = "v7"
		}
		if r.Intn(6) == 0 {
			h.hdr["Upgrade"] = []string{"websocket", "Websocket", "h2c", ""}[r.Intn(4)]
			h.hdr["Connection"] = "Upgrade"
			h.hdr["Sec-WebSocket-Key"] = "dGhlIHNhbXBsZSBub25jZQ=="
			h.hdr["Sec-WebSocket-Version"] = "13"
		}
		add(h)
	}
	// --- gRPC / gRPC-web frames
	frames := [][]byte{nil, frame, frame[:3], frame[:5], frame[:len(frame)-1], append([]byte{0, 0xff, 0xff, 0xff, 0xff}, msg...), append([]byte{1}, frame[1:]...), append([]byte{2}, frame[1:]...),
		append([]byte{0x80}, frame[1:]...), grpcFrame(nil, false), grpcFrame([]byte{1}, false), grpcFrame([]byte{1, 2, 3, 4}, false), grpcFrame(gz(msg), true), grpcFrame(gz(msg)[:8], true),
		grpcFrame([]byte("garbage"), true), append(append([]byte{}, frame...), frame[:4]...), grpcFrame(bytes.Repeat([]byte{8}, 5000), false), grpcFrame(js, false)}
	timeouts := []string{"", "1S", "0S", "99999999H", "123456789S", "S", "1", "1x", "-1S", "1 S", "١S"}
	gcts := []string{"application/grpc", "application/grpc+proto", "application/grpc+json", "application/grpc+zz", "application/grpc;x", "application/grpcx", "application/grpc+"}
	wcts := []string{"application/grpc-web", "application/grpc-web+proto", "application/grpc-web-text", "application/grpc-web-text+json", "application/grpc-web+zz", "application/grpc-webx", "application/grpc-web-text+"}
	meths := []string{"/vs.H/Unary", "/vs.H/Bidi", "/vs.H/CStream", "/vs.H/SStream", "/vs.H/Nope", "/", "", "/vs.H/Unary/x", "vs.H/Unary"}
	for i := 0; i < n/4; i++ {
		f := frames[r.Intn(len(frames))]
		h := hreq{entry: "grpc", desc: "frame", method: []string{"POST", "POST", "POST", "GET", "PUT"}[r.Intn(5)], path: meths[r.Intn(len(meths))], body: f, h2: r.Intn(8) != 0, hdr: map[string]string{}}
		h.hdr["Content-Type"] = gcts[r.Intn(len(gcts))]
		h.hdr["Grpc-Timeout"] = timeouts[r.Intn(len(timeouts))]
		h.hdr["Grpc-Encoding"] = []string{"", "", "gzip", "identity", "zz"}[r.Intn(5)]
		h.hdr["Te"] = "trailers"
		add(h)
		w := h
		w.entry, w.h2 = "grpcweb", false
		w.hdr = map[string]string{"Content-Type": wcts[r.Intn(len(wcts))], "Grpc-Timeout": h.hdr["Grpc-Timeout"], "Grpc-Encoding": h.hdr["Grpc-Encoding"]}
		if strings.Contains(w.hdr["Content-Type"], "text") {
			switch r.Intn(4) {
			case 0:
				w.body = []byte(base64.StdEncoding.EncodeToString(f))
			case 1:
				w.body = []byte(base64.RawStdEncoding.EncodeToString(f))
			case 2:
				w.body = []byte("!!!not base64!!!")
			default:
				w.body = []byte(base64.StdEncoding.EncodeToString(f) + "=")
			}
		}
		if r.Intn(10) == 0 {
			w.hdr["Upgrade"] = "websocket"
		}
		add(w)
	}
	// --- seeded byte-level mutation of requests from above (<= 3 edits)
	base := len(out)
	for i := 0; i < n/4; i++ {
		h := out[r.Intn(base)]
		m := hreq{entry: h.entry, desc: h.desc + "+mut", method: h.method, path: h.path, query: h.query, h2: h.h2, hdr: map[string]string{}}
		for k, v := range h.hdr {
			m.hdr[k] = v
		}
		m.body = append([]byte{}, h.body...)
		for e := 0; e < 1+r.Intn(3); e++ {
			switch r.Intn(4) {
			case 0:
				if len(m.body) > 0 {
					m.body[r.Intn(len(m.body))] = byte(r.next())
				}
			case 1:
				if len(m.body) > 1 {
					k := r.Intn(len(m.body))
					m.body = append(m.body[:k], m.body[k+1:]...)
				}
			case 2:
				if len(m.path) > 0 {
					k := r.Intn(len(m.path))
					ins := []string{" ", ":", "/", "*", "{", "}", "%", "\x00", "~"}
					m.path = m.path[:k] + ins[r.Intn(len(ins))] + m.path[k:]
				}
			default:
				k := r.Intn(len(m.body) + 1)
				m.body = append(m.body[:k], append([]byte{byte(r.next())}, m.body[k:]...)...)
			}
		}
		add(m)
	}
	return out
}

func runHostile(env *hostileEnv, id int, h hreq) HostileEv {
	ev := HostileEv{Ev: "Hostile", Case: id, Entry: h.entry, Opts: env.opts, GrpcStatus: -1, Frames: []string{},
		Desc: fmt.Sprintf("%s %q %q ?%q ct=%q body=%dB", h.desc, h.method, truncate(h.path, 60), truncate(h.query, 40), h.hdr["Content-Type"], len(h.body))}
	method := h.method
	if method == "" {
		method = "GET"
	}
	var req *http.Request
	func() {
		defer func() {
			if p := recover(); p != nil { // httptest refuses the method: not a request the server can receive
				req = nil
			}
		}()
		req = httptest.NewRequest(strings.ToUpper(method), "http://verif.test/", nil)
	}()
	if req == nil {
		ev.Status = -1
		return ev
	}
	req.Method = h.method
	req.URL = &url.URL{Scheme: "http", Host: "verif.test", Path: h.path, RawQuery: h.query}
	if h.body != nil {
		req.Body = io.NopCloser(bytes.NewReader(h.body))
		req.ContentLength = int64(len(h.body))
	}
	for k, v := range h.hdr {
		if v != "" {
			req.Header.Set(k, v)
		}
	}
	cid := fmt.Sprintf("%d", id)
	req.Header.Set("X-Case", cid)
	if h.h2 {
		req.ProtoMajor, req.ProtoMinor, req.Proto = 2, 0, "HTTP/2.0"
	}
	w := httptest.NewRecorder()
	done := make(chan string, 1)
	go func() {
		defer func() {
			if p := recover(); p != nil {
				done <- fmt.Sprintf("panic: %v", p)
				return
			}
			done <- ""
		}()
		env.mux.ServeHTTP(w, req)
	}()
	select {
	case ev.Crash = <-done:
		ev.Status = w.Code
		if ev.Crash == "" {
			shapeOfResponse(&ev, w, h)
		}
	case <-time.After(10 * time.Second):
		ev.Crash = "hang"
	}
	ev.Invoked = env.enteredFor(cid)
	return ev
}

var hostileHangs int32

func init() { drivers["hostile"] = hostileMain }

func hostileMain(args []string) error {
	c := newCommon("hostile")
	replay := c.fs.String("replay", "", "side file of concrete requests to run again (jsonl)")
	nows := c.fs.Bool("nows", false, "skip the WebSocket sessions")
	c.fs.Parse(args)
	tw, err := newTraceWriter(c.out)
	if err != nil {
		return err
	}
	var side *traceWriter
	if c.side != "" {
		if side, err = newTraceWriter(c.side); err != nil {
			return err
		}
	}
	var envs []*hostileEnv
	var wss []*wsServer
	for _, o := range hostileOptSets {
		e, err := newHostileEnv(o)
		if err != nil {
			return err
		}
		envs = append(envs, e)
		wss = append(wss, newWsServer(e))
	}
	defer func() {
		for _, s := range wss {
			s.srv.Close()
		}
	}()
	var jobs []HostileReq
	if *replay != "" {
		f, err := os.Open(*replay)
		if err != nil {
			return err
		}
		sc := bufio.NewScanner(f)
		sc.Buffer(make([]byte, 1<<20), 1<<26)
		for sc.Scan() {
			if len(bytes.TrimSpace(sc.Bytes())) == 0 {
				continue
			}
			var j HostileReq
			if err := json.Unmarshal(sc.Bytes(), &j); err != nil {
				return err
			}
			jobs = append(jobs, j)
		}
		f.Close()
	} else {
		r := newRng(c.seed, 909)
		id := 0
		if c.cases != "" {
			ecs, err := readEntryCases(c.cases)
			if err != nil {
				return err
			}
			for _, ec := range ecs {
				ec := ec
				h := concretiseEntry(ec, r)
				id++
				j := sideOf(id, "Entry", h, r.Intn(hostileRegistered))
				j.Rq, j.Want = &ec.Rq, &ec.Resp
				jobs = append(jobs, j)
			}
		}
		for _, h := range hostileRequests(r, c.n) {
			for o := range envs {
				id++
				jobs = append(jobs, sideOf(id, "Hostile", h, o))
			}
		}
		if !*nows {
			upg := map[string]string{"Upgrade": "websocket", "Connection": "Upgrade", "Sec-WebSocket-Key": "dGhlIHNhbXBsZSBub25jZQ==", "Sec-WebSocket-Version": "13"}
			hdrs := []map[string]string{upg, upg, upg, upg, upg, upg,
				{"Upgrade": "websocket", "Connection": "Upgrade", "Sec-WebSocket-Version": "13"},
				{"Upgrade": "websocket", "Connection": "Upgrade", "Sec-WebSocket-Key": "dGhlIHNhbXBsZSBub25jZQ==", "Sec-WebSocket-Version": "8"},
				{"Upgrade": "websocket", "Sec-WebSocket-Key": "dGhlIHNhbXBsZSBub25jZQ==", "Sec-WebSocket-Version": "13"},
				{"Upgrade": "websocket", "Connection": "Upgrade", "Sec-WebSocket-Key": "short", "Sec-WebSocket-Version": "13"}}
			paths := []string{"/h/ws/x", "/h/ws/x", "/h/ws/x", "/h/ws/x?s=y", "/h/ws/x?rn.s=1", "/h/ws/x?i=zz", "/h/ws/", "/h/ws/a/b", "/vs.H/Ws", "/h/typed/1/true/RED"}
			for k, scr := range wsScripts(r, c.n/8+130) {
				id++
				j := HostileReq{Case: id, Kind: "Ws", Entry: "ws", Path: paths[0], Hdr: hdrs[0], Opts: k % hostileRegistered, WsWait: k%5 == 4}
				if k >= 130 {
					j.Path, j.Hdr = paths[r.Intn(len(paths))], hdrs[r.Intn(len(hdrs))]
				}
				for _, wbytes := range scr {
					j.WsHex = append(j.WsHex, hex.EncodeToString(wbytes))
				}
				jobs = append(jobs, j)
			}
		}
	}
	work := make(chan HostileReq, 256)
	var wg sync.WaitGroup
	for i := 0; i < 16; i++ {
		wg.Add(1)
		go func() {
			defer wg.Done()
			for j := range work {
				// a hung request keeps its goroutine (and possibly a core) for good: after a few of them the rest of the
				// run would only measure the watchdog - the hangs already recorded decide it
				if atomic.LoadInt32(&hostileHangs) >= 8 {
					continue
				}
				var ev HostileEv
				if j.Kind == "Ws" {
					var writes [][]byte
					for _, hx := range j.WsHex {
						b, _ := hex.DecodeString(hx)
						writes = append(writes, b)
					}
					ev = runWs(wss[j.Opts%len(wss)], j.Case, j.Path, j.Hdr, writes, j.WsWait)
				} else {
					ev = runHostile(envs[j.Opts%len(envs)], j.Case, hreqOf(j))
					ev.Ev, ev.Rq, ev.Want = j.Kind, j.Rq, j.Want
				}
				if ev.Crash == "hang" {
					atomic.AddInt32(&hostileHangs, 1)
				}
				tw.Emit(ev)
				if side != nil {
					side.Emit(j)
				}
			}
		}()
	}
	for _, j := range jobs {
		work <- j
	}
	close(work)
	wg.Wait()
	fmt.Printf("hostile: jobs=%d events=%d\n", len(jobs), tw.n)
	if side != nil {
		if err := side.Close(); err != nil {
			return err
		}
	}
	return tw.Close()
}
