package main

// Driver "regrev": a connection whose backend changes the revision of the service it announces between two
// registrations (RegRev.tla).  Revision 1 binds vg.C/m1 to POST and GET /g/c/{s}, revision 2 to GET /g2/c/{s}.
// After every step every binding of both revisions is probed, plus the implicit binding and the gRPC method.

import (
	"context"
	"encoding/json"
	"fmt"
	"net"
	"sync"
	"sync/atomic"
	"time"

	"google.golang.org/genproto/googleapis/api/annotations"
	"google.golang.org/grpc"
	"google.golang.org/grpc/credentials/insecure"
	"google.golang.org/grpc/reflection"
	rpb "google.golang.org/grpc/reflection/grpc_reflection_v1alpha"
	"google.golang.org/grpc/test/bufconn"
	"google.golang.org/protobuf/proto"
	"google.golang.org/protobuf/reflect/protoreflect"
	"google.golang.org/protobuf/reflect/protoregistry"
	"google.golang.org/protobuf/types/dynamicpb"
	"larking.io/larking"
)

type RevHist struct {
	ID  int      `json:"id"`
	Ops []string `json:"ops"`
}
type RevProbe struct {
	Bind string `json:"bind"`
	K    string `json:"k"`
	By   string `json:"by"`
	Meth string `json:"meth"`
}
type RevStepEv struct {
	Ev     string     `json:"ev"`
	Case   int        `json:"case"`
	Ops    []string   `json:"ops"`
	OK     bool       `json:"ok"`
	Err    string     `json:"err"`
	Crash  string     `json:"crash"`
	Probes []RevProbe `json:"probes"`
}

// revResolver announces one of two revisions of the files.
type revResolver struct {
	rev   *int32
	files [2]*protoregistry.Files
}

func (r revResolver) cur() fallbackResolver {
	return fallbackResolver{r.files[atomic.LoadInt32(r.rev)-1]}
}
func (r revResolver) FindFileByPath(p string) (protoreflect.FileDescriptor, error) {
	return r.cur().FindFileByPath(p)
}
func (r revResolver) FindDescriptorByName(n protoreflect.FullName) (protoreflect.Descriptor, error) {
	return r.cur().FindDescriptorByName(n)
}

func revService(rev int) ServiceSpec {
	var rule *annotations.HttpRule
	if rev == 1 {
		rule = httpRule("POST", "/g/c/{s}")
		rule.Body = "*"
		rule.AdditionalBindings = []*annotations.HttpRule{httpRule("GET", "/g/c/{s}")}
	} else {
		rule = httpRule("GET", "/g2/c/{s}")
	}
	return ServiceSpec{Pkg: "vg", Name: "C", Methods: []MethodSpec{{Name: "m1", Rule: rule}}}
}

var revProbes = []struct{ bind, via, path string }{
	{"oldPost", "http", "/g/c/x"}, {"oldGet", "http", "GET /g/c/x"}, {"new", "http", "GET /g2/c/x"},
	{"implicit", "implicit", ""}, {"grpc", "grpc", ""},
}

func runRevHist(h RevHist) []interface{} {
	var files [2]*protoregistry.Files
	var sd1 protoreflect.ServiceDescriptor
	for k := 0; k < 2; k++ {
		f, sds, err := BuildFiles([]ServiceSpec{revService(k + 1)})
		if err != nil {
			return []interface{}{RevStepEv{Ev: "RevStep", Case: h.ID, Ops: h.Ops[:1], Crash: "setup: " + err.Error(), Probes: []RevProbe{}}}
		}
		files[k] = f
		if k == 0 {
			sd1 = sds[0]
		}
	}
	rev := int32(1)
	lis := bufconn.Listen(1 << 16)
	gs := grpc.NewServer()
	un := func(ctx context.Context, full string, req *dynamicpb.Message) (proto.Message, error) {
		return tagReply("cv|" + full), nil
	}
	gs.RegisterService(MakeServiceDesc(sd1, un, nil), struct{}{})
	rpb.RegisterServerReflectionServer(gs, reflection.NewServer(reflection.ServerOptions{Services: gs, DescriptorResolver: revResolver{&rev, files}}))
	go gs.Serve(lis)
	defer gs.Stop()
	cc, err := grpc.NewClient("passthrough:///cv", grpc.WithContextDialer(func(ctx context.Context, _ string) (net.Conn, error) { return lis.DialContext(ctx) }),
		grpc.WithTransportCredentials(insecure.NewCredentials()))
	if err != nil {
		return []interface{}{RevStepEv{Ev: "RevStep", Case: h.ID, Ops: h.Ops[:1], Crash: "setup: " + err.Error(), Probes: []RevProbe{}}}
	}
	defer cc.Close()
	mux, err := larking.NewMux()
	if err != nil {
		return []interface{}{RevStepEv{Ev: "RevStep", Case: h.ID, Ops: h.Ops[:1], Crash: "setup: " + err.Error(), Probes: []RevProbe{}}}
	}
	var evs []interface{}
	for i, op := range h.Ops {
		ev := RevStepEv{Ev: "RevStep", Case: h.ID, Ops: h.Ops[:i+1], Probes: []RevProbe{}}
		done := make(chan struct{})
		go func() {
			defer close(done)
			defer func() {
				if p := recover(); p != nil {
					ev.Crash = fmt.Sprint(p)
				}
			}()
			ctx, cancel := context.WithTimeout(context.Background(), 10*time.Second)
			defer cancel()
			switch op {
			case "bump":
				atomic.StoreInt32(&rev, 3-atomic.LoadInt32(&rev))
				ev.OK = true
			case "register":
				if err := mux.RegisterConn(ctx, cc); err != nil {
					ev.Err = err.Error()
				}
				ev.OK = ev.Err == ""
			case "drop":
				ev.OK = mux.DropConn(ctx, cc)
			}
		}()
		select {
		case <-done:
		case <-time.After(15 * time.Second):
			evs = append(evs, RevStepEv{Ev: "RevStep", Case: h.ID, Ops: h.Ops[:i+1], Crash: "hang: the call did not return within 15 s", Probes: []RevProbe{}})
			return evs
		}
		if ev.Crash == "" {
			for _, p := range revProbes {
				o := probeOnce(mux, p.via, "/vg.C/m1", p.path)
				ev.Probes = append(ev.Probes, RevProbe{Bind: p.bind, K: o.K, By: o.By, Meth: o.Meth})
			}
		}
		evs = append(evs, ev)
		if ev.Crash != "" {
			break
		}
	}
	return evs
}

// registerThroughConn serves svcs (descriptors built afresh) on an in-process backend with reflection and registers the
// connection on mux: what a second backend of an already registered service looks like to the mux.
func registerThroughConn(mux *larking.Mux, svcs []ServiceSpec, tag string, un UnaryFn) (stop func(), err error) {
	files, sds, err := BuildFiles(svcs)
	if err != nil {
		return func() {}, nil // not expressible: nothing to observe
	}
	lis := bufconn.Listen(1 << 16)
	gs := grpc.NewServer()
	for _, sd := range sds {
		gs.RegisterService(MakeServiceDesc(sd, un, nil), struct{}{})
	}
	rpb.RegisterServerReflectionServer(gs, reflection.NewServer(reflection.ServerOptions{Services: gs, DescriptorResolver: fallbackResolver{files}}))
	go gs.Serve(lis)
	cc, err := grpc.NewClient("passthrough:///"+tag, grpc.WithContextDialer(func(ctx context.Context, _ string) (net.Conn, error) { return lis.DialContext(ctx) }),
		grpc.WithTransportCredentials(insecure.NewCredentials()))
	if err != nil {
		gs.Stop()
		return func() {}, nil
	}
	stop = func() { cc.Close(); gs.Stop() }
	ctx, cancel := context.WithTimeout(context.Background(), 10*time.Second)
	defer cancel()
	return stop, mux.RegisterConn(ctx, cc)
}

func init() { drivers["regrev"] = regRevMain }

func regRevMain(args []string) error {
	c := newCommon("regrev")
	c.fs.Parse(args)
	tw, err := newTraceWriter(c.out)
	if err != nil {
		return err
	}
	var hs []RevHist
	if err := readLines(c.cases, func(b []byte) error {
		var h RevHist
		if err := json.Unmarshal(b, &h); err != nil {
			return err
		}
		hs = append(hs, h)
		return nil
	}); err != nil {
		return err
	}
	work := make(chan RevHist, 16)
	var wg sync.WaitGroup
	for i := 0; i < 16; i++ {
		wg.Add(1)
		go func() {
			defer wg.Done()
			for h := range work {
				tw.EmitAll(runRevHist(h))
			}
		}()
	}
	for _, h := range hs {
		work <- h
	}
	close(work)
	wg.Wait()
	return tw.Close()
}
