package main

// Registration driver (C16): templates given as lexeme sequences (Grammar.tla),
// rule-level cases and name shapes are registered on fresh real muxes through
// the verif hook (error instead of log.Fatalf), under recover().

import (
	"context"
	"crypto/sha256"
	"encoding/hex"
	"encoding/json"
	"fmt"
	"runtime"
	"strings"
	"sync"

	"google.golang.org/genproto/googleapis/api/annotations"
	"google.golang.org/protobuf/proto"
	"google.golang.org/protobuf/reflect/protoreflect"
	"google.golang.org/protobuf/types/dynamicpb"
	"larking.io/larking"
)

type RegCase struct {
	ID       int      `json:"id"`
	Kind     string   `json:"kind"` // tmpl | rule | name
	X        []string `json:"x,omitempty"`
	Onto     string   `json:"onto"`
	Body     string   `json:"body"`
	Resp     string   `json:"resp"`
	Nested   bool     `json:"nested"`
	Conflict string   `json:"conflict"`
	VarFP    string   `json:"varfp"` // rule cases: field path of the template variable ("" = s)
	Pkg      string   `json:"pkg,omitempty"`
	Svc      string   `json:"svc,omitempty"`
	Method   string   `json:"method,omitempty"`
}

type RegEv struct {
	Ev       string   `json:"ev"`
	Case     int      `json:"case"`
	X        []string `json:"x"`
	Onto     string   `json:"onto"`
	Body     string   `json:"body"`
	Resp     string   `json:"resp"`
	Nested   bool     `json:"nested"`
	Conflict string   `json:"conflict"`
	VarFP    string   `json:"varfp"`
	Out      string   `json:"out"`
	Pb       string   `json:"pb"`
	Pa       string   `json:"pa"`
	Routed   bool     `json:"routed"`
	Text     string   `json:"text"`
	Err      string   `json:"err"`
}

var wordPool = []string{"books", "x", "größe", "v", "shelves", "a-b_c", "Zz", "k", "書籍", "q_"}
var digitPool = []string{"9", "42", "007", "1"}
var badPool = []string{"%", " ", "|", "#", "^", "~", "!", "$", "@", "+", ",", ";", "(", "\\", "?", "<"}

func renderLexemes(x []string, r *rng) string {
	var b strings.Builder
	for _, l := range x {
		switch l {
		case "L":
			b.WriteString(wordPool[r.Intn(len(wordPool))])
		case "9":
			b.WriteString(digitPool[r.Intn(len(digitPool))])
		case "%":
			b.WriteString(badPool[r.Intn(len(badPool))])
		default:
			b.WriteString(l)
		}
	}
	return b.String()
}

// instantiate builds a request path from a rendered template by purely lexical
// substitution ("*" -> a segment, "**" -> two segments, {fp=pat} -> pat, {fp} -> a segment).
// Returns "" when the template has shapes it does not handle (nested braces).
func instantiate(t string) string {
	var b strings.Builder
	depth := 0
	field := ""
	isInt := func() bool { return field == "i" || strings.HasSuffix(field, ".i") }
	seg := func() string {
		if isInt() {
			return "7"
		}
		return "p1"
	}
	for i := 0; i < len(t); i++ {
		c := t[i]
		switch {
		case c == '{':
			if depth > 0 {
				return ""
			}
			depth++
			j := i + 1
			for j < len(t) && t[j] != '=' && t[j] != '}' {
				j++
			}
			if j >= len(t) {
				return ""
			}
			field = t[i+1 : j]
			if t[j] == '}' { // default pattern
				b.WriteString(seg())
				depth--
				field = ""
			} else if isInt() {
				k := strings.IndexByte(t[j:], '}')
				if k < 0 || t[j+1:j+k] != "*" {
					return "" // an int field bound to a multi-segment pattern never converts
				}
			}
			i = j
		case c == '}':
			if depth == 0 {
				return ""
			}
			depth--
			field = ""
		case c == '*':
			if i+1 < len(t) && t[i+1] == '*' {
				b.WriteString(seg() + "/p2")
				i++
			} else {
				b.WriteString(seg())
			}
		default:
			b.WriteByte(c)
		}
	}
	if depth != 0 {
		return ""
	}
	return b.String()
}

var baseProbes = [][2]string{
	{"GET", "/base/p1"}, {"POST", "/base/p1:act"}, {"GET", "/base/any/zz"}, {"PUT", "/base/any/zz"},
	{"GET", "/vs.Base/B1"}, {"POST", "/vs.Base/B2"}, {"PATCH", "/vs.Base/B3"}, {"GET", "/base/leaf/p1"},

	// only requests the base service owns (literal-led): a new wildcard rule may
	// legitimately start answering paths that used to be 404
}

func baseService() ServiceSpec {
	return ServiceSpec{Name: "Base", Methods: []MethodSpec{
		{Name: "B1", Rule: httpRule("GET", "/base/{s}")},
		{Name: "B2", Rule: func() *annotations.HttpRule { r := httpRule("POST", "/base/{s}:act"); r.Body = "*"; return r }()},
		{Name: "B3", Rule: httpRule("*", "/base/any/{n.s}")},
		{Name: "B4", Rule: httpRule("GET", "/base/leaf/{s}")},
	}}
}

// neighbours of the base leaves: not owned by the base service, so an accepted rule may claim
// them, but a rejected registration must leave them exactly as they were
var neighbourProbes = [][2]string{
	{"POST", "/base/p1"}, {"GET", "/base/p1/sub"}, {"GET", "/base/p1:act"}, {"PUT", "/base/p1:act/sub"}, {"GET", "/bad/x"},
	{"POST", "/base/leaf/p1"}, {"GET", "/base/leaf/p1/sub"}, {"DELETE", "/base/leaf/p1:v"},
}

func probeDigest(rm *rmux) (string, []string) { return probeDigestOf(rm, baseProbes) }

func probeDigestOf(rm *rmux, probes [][2]string) (string, []string) {
	h := sha256.New()
	var all []string
	for _, p := range probes {
		o := rm.lookup(p[0], p[1])
		b, _ := json.Marshal(o)
		h.Write(b)
		h.Write([]byte{'\n'})
		all = append(all, p[0]+" "+p[1]+" => "+string(b))
	}
	return hex.EncodeToString(h.Sum(nil))[:16], all
}

// attempt registers svcs (base first when onto == "base", then the new service) and reports.
func attempt(onto string, newSvc ServiceSpec, routedReq [2]string) (out, errText, pb, pa string, routed bool) {
	var stops []func() // backends started for the case: they serve until the case is over
	defer func() {
		for _, s := range stops {
			s()
		}
	}()
	var svcs []ServiceSpec
	if onto == "base" {
		svcs = append(svcs, baseService())
	}
	svcs = append(svcs, newSvc)
	files, sds, err := BuildFiles(svcs)
	if err != nil {
		return "schema", err.Error(), "", "", false
	}
	mux, err := larking.NewMux(larking.FilesOption(files))
	if err != nil {
		return "schema", err.Error(), "", "", false
	}
	rm := &rmux{mux: mux}
	un := func(ctx context.Context, full string, req *dynamicpb.Message) (proto.Message, error) {
		o := &ROut{K: "dispatch", M: full, Caps: []Cap{}}
		leaves(req, nil, &o.Caps)
		rm.mu.Lock()
		rm.last = o
		rm.mu.Unlock()
		rep := dynamicpb.NewMessage(repDesc())
		rep.Set(repDesc().Fields().ByName("id"), protoreflect.ValueOfString(full))
		return rep, nil
	}
	for i, sd := range sds[:len(sds)-1] {
		if err := larking.VerifRegisterService(mux, MakeServiceDesc(sd, un, nil), struct{}{}); err != nil {
			return "schema", fmt.Sprintf("base service %d: %v", i, err), "", "", false
		}
	}
	pb, before := probeDigest(rm)
	nb, nbefore := probeDigestOf(rm, neighbourProbes)
	func() {
		defer func() {
			if p := recover(); p != nil {
				out, errText = "panic", fmt.Sprint(p)
			}
		}()
		if err := larking.VerifRegisterService(mux, MakeServiceDesc(sds[len(sds)-1], un, nil), struct{}{}); err != nil {
			out, errText = "reject", err.Error()
		} else {
			out = "accept"
		}
	}()
	if out == "panic" {
		return out, errText, pb, "", false
	}
	pa, after := probeDigest(rm)
	na, nafter := probeDigestOf(rm, neighbourProbes)
	if out == "reject" && na != nb {
		pa += "+neighbours" // a rejected registration changed a route next to the base routes
		for i := range nbefore {
			if nbefore[i] != nafter[i] {
				errText += " | neighbour changed: " + nbefore[i] + " ==> " + nafter[i]
				break
			}
		}
	}
	if pa != pb {
		for i := range before {
			if before[i] != after[i] {
				errText += " | probe changed: " + before[i] + " ==> " + after[i]
				break
			}
		}
	}
	if out == "accept" {
		// a second backend for the service just accepted: the same rules once more, from descriptors built afresh (what
		// RegisterConn gets from a second connection's reflection) - every binding is "already registered", none a conflict
		func() {
			defer func() {
				if p := recover(); p != nil {
					out, errText = "panic", "second registration of the accepted service: "+fmt.Sprint(p)
				}
			}()
			_, sds2, err := BuildFiles(svcs)
			if err != nil {
				return
			}
			if err := larking.VerifRegisterService(mux, MakeServiceDesc(sds2[len(sds2)-1], un, nil), struct{}{}); err != nil {
				out, errText = "reject", "second registration of the accepted service: "+err.Error()
				return
			}
			// ... and two more backends through connections (their descriptors come from reflection: equal by name, not by
			// identity), for a part of the cases (a server per case)
			if (len(routedReq[1])+len(onto))%4 == 0 {
				for k := 0; k < 2; k++ {
					stop, err := registerThroughConn(mux, svcs[len(svcs)-1:], fmt.Sprintf("conn%d", k), un)
					stops = append(stops, stop)
					if err != nil {
						out, errText = "reject", "registration of the accepted service through a connection: "+err.Error()
						return
					}
				}
			}
		}()
		if out != "accept" {
			return out, errText, pb, pa, false
		}
	}
	if out == "accept" && routedReq[1] != "" {
		o := rm.lookup(routedReq[0], routedReq[1])
		routed = o.K == "dispatch" && strings.HasSuffix(o.M, newSvc.Methods[0].Name) && o.Status == 200
	} else {
		routed = true
	}
	return
}

func runRegCase(c RegCase, seed int64) RegEv {
	r := newRng(seed, c.ID, 77)
	ev := RegEv{Case: c.ID, X: c.X, Onto: c.Onto, Body: c.Body, Resp: c.Resp, Nested: c.Nested, Conflict: c.Conflict, VarFP: c.VarFP}
	if ev.X == nil {
		ev.X = []string{}
	}
	switch c.Kind {
	case "tmpl":
		ev.Ev = "Reg"
		text := renderLexemes(c.X, r)
		ev.Text = text
		kinds := []string{"GET", "POST", "LIST", "*", "PATCH"}
		kind := kinds[r.Intn(len(kinds))]
		rule := httpRule(kind, text)
		req := [2]string{kind, instantiate(text)}
		if kind == "*" {
			req[0] = "GET"
		}
		svc := ServiceSpec{Name: "New", Methods: []MethodSpec{{Name: "Mx", Rule: rule}}}
		if r.Intn(4) == 0 { // as an additional binding of a valid primary rule
			prim := httpRule("GET", "/prim/{s}")
			prim.AdditionalBindings = []*annotations.HttpRule{rule}
			svc.Methods[0].Rule = prim
		}
		ev.Out, ev.Err, ev.Pb, ev.Pa, ev.Routed = attempt(c.Onto, svc, req)
	case "rule":
		ev.Ev = "RegRule"
		rule := httpRule("POST", "/rule/{s}")
		if c.VarFP != "" {
			rule = httpRule("POST", "/rule/{"+c.VarFP+"}")
		}
		rule.Body = c.Body
		rule.ResponseBody = c.Resp
		req := [2]string{"POST", "/rule/p1"}
		if c.Nested {
			ab := httpRule("GET", "/rule2/{s}")
			ab.AdditionalBindings = []*annotations.HttpRule{httpRule("GET", "/rule3/{s}")}
			rule.AdditionalBindings = []*annotations.HttpRule{ab}
		}
		switch c.Conflict {
		case "same":
			rule = withPattern(rule, "GET", "/base/{s}")
		case "samevar":
			rule = withPattern(rule, "GET", "/base/{t}")
		case "implicit":
			rule = withPattern(rule, "POST", "/vs.New/Mx")
			req = [2]string{"POST", "/vs.New/Mx"}
		case "implicitOther":
			rule = withPattern(rule, "GET", "/vs.Base/B1")
		case "starOnConcrete":
			rule = withPattern(rule, "*", "/base/{s}")
		case "concreteOnStar":
			rule = withPattern(rule, "GET", "/base/any/{n.s}")
		case "leafThenBad":
			// a valid binding on an existing leaf (other verb), then an invalid additional binding: all or nothing
			rule = withPattern(rule, "POST", "/base/leaf/{s}")
			rule.AdditionalBindings = append(rule.AdditionalBindings, httpRule("GET", "/bad/{no_such_field}"))
		case "belowLeafThenBad":
			rule = withPattern(rule, "GET", "/base/leaf/{s}/sub")
			rule.AdditionalBindings = append(rule.AdditionalBindings, httpRule("GET", "/bad/{no_such_field}"))
		case "verbLeafThenBad":
			rule = withPattern(rule, "GET", "/base/{s}:act")
			rule.AdditionalBindings = append(rule.AdditionalBindings, httpRule("GET", "/bad/{no_such_field}"))
		}
		if c.Conflict != "none" && c.Conflict != "implicit" {
			req[1] = ""
		}
		ev.Text = rule.String()
		svc := ServiceSpec{Name: "New", Methods: []MethodSpec{{Name: "Mx", Rule: rule}}}
		ev.Out, ev.Err, ev.Pb, ev.Pa, ev.Routed = attempt(c.Onto, svc, req)
	case "name":
		ev.Ev = "RegName"
		svc := ServiceSpec{Pkg: c.Pkg, Name: c.Svc, Methods: []MethodSpec{{Name: c.Method}}}
		ev.Text = "/" + svc.FullName() + "/" + c.Method
		ev.Out, ev.Err, ev.Pb, ev.Pa, ev.Routed = attempt(c.Onto, svc, [2]string{"POST", ev.Text})
	}
	if len(ev.Err) > 600 {
		ev.Err = ev.Err[:600]
	}
	return ev
}

func withPattern(r *annotations.HttpRule, kind, tmpl string) *annotations.HttpRule {
	n := httpRule(kind, tmpl)
	n.Body, n.ResponseBody, n.AdditionalBindings = r.Body, r.ResponseBody, r.AdditionalBindings
	return n
}

func init() { drivers["reg"] = regMain }

func regMain(args []string) error {
	c := newCommon("reg")
	c.fs.Parse(args)
	tw, err := newTraceWriter(c.out)
	if err != nil {
		return err
	}
	var cases []RegCase
	err = readLines(c.cases, func(b []byte) error {
		var rc RegCase
		if err := json.Unmarshal(b, &rc); err != nil {
			return err
		}
		cases = append(cases, rc)
		return nil
	})
	if err != nil {
		return err
	}
	work := make(chan RegCase, 64)
	var wg sync.WaitGroup
	bad := 0
	var mu sync.Mutex
	for i := 0; i < runtime.NumCPU(); i++ {
		wg.Add(1)
		go func() {
			defer wg.Done()
			for rc := range work {
				ev := runRegCase(rc, c.seed)
				if ev.Out == "schema" { // the case could not be expressed as descriptors: not an observation
					mu.Lock()
					bad++
					mu.Unlock()
					continue
				}
				tw.Emit(ev)
			}
		}()
	}
	for _, rc := range cases {
		work <- rc
	}
	close(work)
	wg.Wait()
	fmt.Printf("reg: cases=%d events=%d unexpressible=%d\n", len(cases), tw.n, bad)
	return tw.Close()
}
