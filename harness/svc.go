package main

import (
	"context"

	"google.golang.org/grpc"
	"google.golang.org/protobuf/proto"
	"google.golang.org/protobuf/reflect/protoreflect"
	"google.golang.org/protobuf/types/dynamicpb"
)

// UnaryFn handles a unary call of a dynamic service.
type UnaryFn func(ctx context.Context, fullMethod string, req *dynamicpb.Message) (proto.Message, error)

// StreamFn handles a streaming call of a dynamic service.
type StreamFn func(fullMethod string, md protoreflect.MethodDescriptor, stream grpc.ServerStream) error

// MakeServiceDesc builds the grpc.ServiceDesc generated code would have
// produced for sd, with every method routed to un / st.
func MakeServiceDesc(sd protoreflect.ServiceDescriptor, un UnaryFn, st StreamFn) *grpc.ServiceDesc {
	gsd := &grpc.ServiceDesc{
		ServiceName: string(sd.FullName()),
		HandlerType: (*interface{})(nil),
		Metadata:    sd.ParentFile().Path(),
	}
	mds := sd.Methods()
	for i := 0; i < mds.Len(); i++ {
		md := mds.Get(i)
		full := "/" + string(sd.FullName()) + "/" + string(md.Name())
		if md.IsStreamingClient() || md.IsStreamingServer() {
			md := md
			gsd.Streams = append(gsd.Streams, grpc.StreamDesc{
				StreamName:    string(md.Name()),
				ServerStreams: md.IsStreamingServer(),
				ClientStreams: md.IsStreamingClient(),
				Handler: func(srv interface{}, stream grpc.ServerStream) error {
					return st(full, md, stream)
				},
			})
			continue
		}
		in := md.Input()
		gsd.Methods = append(gsd.Methods, grpc.MethodDesc{
			MethodName: string(md.Name()),
			Handler: func(srv interface{}, ctx context.Context, dec func(interface{}) error, interceptor grpc.UnaryServerInterceptor) (interface{}, error) {
				req := dynamicpb.NewMessage(in)
				if err := dec(req); err != nil {
					return nil, err
				}
				if interceptor == nil {
					return un(ctx, full, req)
				}
				info := &grpc.UnaryServerInfo{Server: srv, FullMethod: full}
				h := func(ctx context.Context, r interface{}) (interface{}, error) {
					return un(ctx, full, r.(*dynamicpb.Message))
				}
				return interceptor(ctx, req, info, h)
			},
		})
	}
	return gsd
}
