package main

// Real-client gRPC transport of the rpc driver (proto "grpcsock"): the case's mux behind
// larking.NewServer on a loopback h2c listener, a grpc-go client with dynamic messages.
// What grpc-go hands to its caller (replies, header and trailer metadata, status with
// details) is recorded in the same ClientObs as the direct drive produces.

import (
	"context"
	"io"
	"strings"
	"time"

	"google.golang.org/grpc"
	"google.golang.org/grpc/credentials/insecure"
	"google.golang.org/grpc/encoding"
	_ "google.golang.org/grpc/encoding/gzip"
	"google.golang.org/grpc/metadata"
	"google.golang.org/grpc/status"
	"google.golang.org/protobuf/encoding/protojson"
	"google.golang.org/protobuf/proto"
	"google.golang.org/protobuf/types/dynamicpb"
)

type grpcJSONCodec struct{}

func (grpcJSONCodec) Marshal(v interface{}) ([]byte, error) {
	return protojson.Marshal(v.(proto.Message))
}
func (grpcJSONCodec) Unmarshal(b []byte, v interface{}) error {
	return protojson.Unmarshal(b, v.(proto.Message))
}
func (grpcJSONCodec) Name() string { return "json" }

func init() { encoding.RegisterCodec(grpcJSONCodec{}) }

func mdOf(m metadata.MD) MD {
	out := MD{}
	for k, v := range m {
		out[strings.ToLower(k)] = append([]string{}, v...)
	}
	return out
}

func (e *rpcEnv) runGrpcSock(ev *RpcEv) {
	c := e.c
	srv, err := startSockServer(e.mux)
	if err != nil {
		ev.Crash = "infra: " + err.Error()
		return
	}
	defer srv.stop()
	cc, err := grpc.NewClient(srv.addr, grpc.WithTransportCredentials(insecure.NewCredentials()))
	if err != nil {
		ev.Crash = "infra: " + err.Error()
		return
	}
	defer cc.Close()
	co := ClientObs{HTTP: 200, Msgs: []RecvObs{}, Hdr: MD{}, Trl: MD{}, Clean: true, Status: StatusObs{Shape: []string{}}}
	done := make(chan struct{})
	ctx, cancel := context.WithTimeout(context.Background(), 10*time.Second)
	defer cancel()
	go func() {
		defer close(done)
		low := MD{}
		for k, vs := range c.ReqMD {
			low[strings.ToLower(k)] = vs
		}
		omd := wireMD(low) // -bin values from hex to raw bytes: grpc-go encodes them
		ctx := metadata.NewOutgoingContext(ctx, omd)
		name, _ := methodOf(c.Shape)
		opts := []grpc.CallOption{grpc.CallContentSubtype(c.Codec)}
		if c.Comp == "gzip" {
			opts = append(opts, grpc.UseCompressor("gzip"))
		}
		sd := &grpc.StreamDesc{ClientStreams: c.Shape == "cstream" || c.Shape == "bidi", ServerStreams: c.Shape == "sstream" || c.Shape == "bidi"}
		cs, err := cc.NewStream(ctx, sd, "/vs.T/"+name, opts...)
		var final error
		if err != nil {
			final = err
		} else {
			for _, m := range e.sent {
				if err := cs.SendMsg(m); err != nil {
					break // the call is over: RecvMsg tells why
				}
			}
			cs.CloseSend()
			for {
				m := dynamicpb.NewMessage(repDesc())
				err := cs.RecvMsg(m)
				if err == io.EOF {
					break
				}
				if err != nil {
					final = err
					break
				}
				co.Msgs = append(co.Msgs, e.matchReply(marshalMsg(c.Codec, m), c.Codec))
			}
			if h, err := cs.Header(); err == nil {
				co.Hdr = mdOf(h)
			}
			co.Trl = mdOf(cs.Trailer())
		}
		st := status.Convert(final)
		nd, deq := checkDetails(st.Proto(), e.wantDetails())
		if final == nil {
			nd, deq = 0, e.wantDetails() == 0
		}
		co.Status = e.statusFrom(int(st.Code()), st.Message(), nd, deq, true)
		if ct := co.Hdr["content-type"]; len(ct) > 0 {
			co.CT = ct[0]
		}
	}()
	select {
	case <-done:
	case <-time.After(12 * time.Second):
		ev.Crash = "hang"
		cancel()
		<-done
	}
	if co.Status.Shape == nil {
		co.Status.Shape = []string{}
	}
	co.Forged = e.forgedKeys(co.Hdr, co.Trl)
	// grpc-go hands -bin values over as raw bytes
	co.Hdr = hexBinRaw(filterMD(co.Hdr))
	co.Trl = hexBinRaw(filterMD(co.Trl))
	ev.Cl = co
}
