package main

// Registry driver (C11, deterministic part of C12): histories of RegisterService /
// RegisterConn / DropConn from Registry.tla are replayed on a real Mux with
// tagged in-process gRPC backends (bufconn + server reflection); after every
// step every method is requested over HTTP and gRPC framing.

import (
	"bytes"
	"context"
	"encoding/json"
	"fmt"
	"net"
	"net/http/httptest"
	"net/url"
	"runtime"
	"sort"
	"strconv"
	"strings"
	"sync"
	"sync/atomic"
	"time"

	"google.golang.org/genproto/googleapis/api/annotations"
	"google.golang.org/grpc"
	"google.golang.org/grpc/credentials/insecure"
	"google.golang.org/grpc/reflection"
	rpb "google.golang.org/grpc/reflection/grpc_reflection_v1alpha"
	"google.golang.org/grpc/test/bufconn"
	"google.golang.org/protobuf/encoding/protojson"
	"google.golang.org/protobuf/proto"
	"google.golang.org/protobuf/reflect/protoreflect"
	"google.golang.org/protobuf/reflect/protoregistry"
	"google.golang.org/protobuf/types/dynamicpb"
	"larking.io/larking"
)

// the services of the registry scenario: A{m1,m2}, B{m1}
func regServices() []ServiceSpec {
	body := func(path string) *annotations.HttpRule {
		r := httpRule("POST", path)
		r.Body = "*"
		return r
	}
	// (methods with additional bindings: every binding of a method is a route of its own in the trie, and all of them
	// come and go with the method's backends)
	more := func(r *annotations.HttpRule, paths ...string) *annotations.HttpRule {
		for _, p := range paths {
			r.AdditionalBindings = append(r.AdditionalBindings, body(p))
		}
		return r
	}
	// B.m1 is also bound to GET on the path A.m2 answers POST on: two services of different backends share a leaf, each
	// under its own verb
	bm1 := more(body("/g/b/{s}:go"), "/g/b2/{s}", "/g/v/{s=bb/*}")
	bm1.AdditionalBindings = append(bm1.AdditionalBindings, httpRule("GET", "/g/a/m2"))
	return []ServiceSpec{
		// (below /g/v four variable edges with different patterns, owned alternately by A and B - dropping one service
		// must not disturb its siblings, whatever their order; A.m2 and B.m2 have a binding nested below their primary one;
		// A.m1 is bound to a literal and to a variable edge of one node, B.m2 to a template that starts with a variable)
		{Pkg: "vg", Name: "A", Methods: []MethodSpec{{Name: "m1", Rule: more(body("/g/a/m1/{s}"), "/g/a/alt/{s}", "/g/v/{s=aa/*}", "/g/w/fixed", "/g/w/{s}")},
			{Name: "m2", Rule: more(body("/g/a/m2"), "/g/a2/m2", "/g/a3/{s}/m2", "/g/v/{s=cc/*}/tail", "/g/a/m2/{s}/deep")}}},
		{Pkg: "vg", Name: "B", Methods: []MethodSpec{{Name: "m1", Rule: bm1}, {Name: "m2", Rule: more(body("/g/a/m1/{s}/b"), "/g/v/{s=dd/*}", "/g/a/m1/{s}/b/{t}/deeper", "/{s}/gone")}}},
	}
}

type backend struct {
	tag   string
	svcs  []string // "A", "B"
	srv   *grpc.Server
	lis   *bufconn.Listener
	calls int64
	mu    sync.Mutex
	files *protoregistry.Files
}

var regSchema struct {
	once  sync.Once
	files *protoregistry.Files
	sds   map[string]protoreflect.ServiceDescriptor
}

func regFiles() (*protoregistry.Files, map[string]protoreflect.ServiceDescriptor) {
	regSchema.once.Do(func() {
		bad := ServiceSpec{Pkg: "vg", Name: "Bad", Methods: []MethodSpec{
			{Name: "ok", Rule: httpRule("GET", "/g/a/m2/below")},
			{Name: "broken", Rule: httpRule("GET", "/g/bad/{no_such_field}")},
		}}
		files, sds, err := BuildFiles(append(regServices(), bad))
		if err != nil {
			panic(err)
		}
		regSchema.files = files
		regSchema.sds = map[string]protoreflect.ServiceDescriptor{"A": sds[0], "B": sds[1], "Bad": sds[2]}
	})
	return regSchema.files, regSchema.sds
}

func tagReply(tag string) proto.Message {
	rep := dynamicpb.NewMessage(repDesc())
	rep.Set(repDesc().Fields().ByName("id"), protoreflect.ValueOfString(tag))
	return rep
}

func newBackend(tag string, svcs []string) *backend {
	files, sds := regFiles()
	if tag == "c2" && len(svcs) > 1 {
		// this backend's API is written as ONE proto file declaring all its services (the others have a file per service)
		var specs []ServiceSpec
		for _, rs := range regServices() {
			for _, s := range svcs {
				if rs.Name == s {
					specs = append(specs, rs)
				}
			}
		}
		if f1, s1, err := BuildFilesOneFile(specs); err == nil {
			files = f1
			sds = map[string]protoreflect.ServiceDescriptor{}
			for _, sd := range s1 {
				sds[string(sd.Name())] = sd
			}
		}
	}
	b := &backend{tag: tag, svcs: svcs, lis: bufconn.Listen(1 << 16), files: files}
	b.srv = grpc.NewServer()
	for _, s := range svcs {
		un := func(ctx context.Context, full string, req *dynamicpb.Message) (proto.Message, error) {
			b.mu.Lock()
			b.calls++
			b.mu.Unlock()
			return tagReply(tag + "|" + full), nil
		}
		b.srv.RegisterService(MakeServiceDesc(sds[s], un, nil), struct{}{})
	}
	rs := reflection.NewServer(reflection.ServerOptions{Services: b.srv, DescriptorResolver: fallbackResolver{files}})
	rpb.RegisterServerReflectionServer(b.srv, rs)
	go b.srv.Serve(b.lis)
	return b
}

func (b *backend) dial() (*grpc.ClientConn, error) {
	return grpc.NewClient("passthrough:///"+b.tag,
		grpc.WithContextDialer(func(ctx context.Context, _ string) (net.Conn, error) { return b.lis.DialContext(ctx) }),
		grpc.WithTransportCredentials(insecure.NewCredentials()))
}

func (b *backend) stop() { b.srv.Stop() }

// ---- history replay --------------------------------------------------------------------

type RegOp struct {
	Op string `json:"op"` // reglocal | regconn | dropconn | dropunknown | regfail | reregister
	B  string `json:"b"`
}
type RegHist struct {
	ID  int     `json:"id"`
	Ops []RegOp `json:"ops"`
}
type OpEv struct {
	Ev      string `json:"ev"`
	Case    int    `json:"case"`
	Op      string `json:"op"`
	B       string `json:"b"`
	OK      bool   `json:"ok"` // the call reported success (RegisterConn nil error, DropConn true)
	Err     string `json:"err"`
	Crash   string `json:"crash"`
	Immut   bool   `json:"immut"`   // the snapshot captured before the call still has its fingerprint
	CurSame bool   `json:"cursame"` // the published snapshot has the same fingerprint as before the call
}
type ProbeOut struct {
	K    string `json:"k"` // served | unimplemented | notfound | other | panic
	By   string `json:"by"`
	Meth string `json:"meth"` // served: the full name of the method whose handler answered
}
type ProbeEv struct {
	Ev    string     `json:"ev"`
	Case  int        `json:"case"`
	M     string     `json:"m"`
	Proto string     `json:"proto"`
	Outs  []ProbeOut `json:"outs"`
	N     int        `json:"n"`
}

var regMethods = []struct {
	name, full, path string
	extras           []string // request paths of the additional bindings
}{
	{"A.m1", "/vg.A/m1", "/g/a/m1/x", []string{"/g/a/alt/x", "/g/v/aa/1", "/g/w/fixed", "/g/w/x"}},
	{"A.m2", "/vg.A/m2", "/g/a/m2", []string{"/g/a2/m2", "/g/a3/x/m2", "/g/v/cc/1/tail", "/g/a/m2/x/deep"}},
	{"B.m1", "/vg.B/m1", "/g/b/x:go", []string{"/g/b2/x", "/g/v/bb/1", "GET /g/a/m2"}},
	{"B.m2", "/vg.B/m2", "/g/a/m1/x/b", []string{"/g/v/dd/1", "/g/a/m1/x/b/y/deeper", "/zz/gone"}},
}

// what each backend of the scenario serves (must agree with Registry_Hist.tla)
// (cbad serves B and the unregistrable service Bad: RegisterConn(cbad) fails after it has begun to fill its clone)
var regBackendSvcs = map[string][]string{"local": {"A"}, "c1": {"A"}, "c2": {"A", "B"}, "c3": {"B"}, "cbad": {"B", "Bad"}}

// wideQuery makes URL parameter parsing take milliseconds: it sits between the route match and the handler pick
var wideQuery = strings.Repeat("r=x&", 20000) + "r=x"

// servedBy splits a reply's id ("backend|/pkg.Service/Method") into who answered and for which method.
func servedBy(id string) ProbeOut {
	if i := strings.Index(id, "|"); i >= 0 {
		return ProbeOut{K: "served", By: id[:i], Meth: id[i+1:]}
	}
	return ProbeOut{K: "served", By: id}
}

func probeOnce(mux *larking.Mux, proto_, full, path string) (out ProbeOut) {
	return probeOnceQ(mux, proto_, full, path, "")
}

func probeOnceQ(mux *larking.Mux, proto_, full, path, rawQuery string) (out ProbeOut) {
	defer func() {
		if p := recover(); p != nil {
			out = ProbeOut{K: "panic", By: fmt.Sprint(p)}
		}
	}()
	var req = httptest.NewRequest("POST", "http://verif.test/", bytes.NewReader([]byte("{}")))
	w := httptest.NewRecorder()
	switch proto_ {
	case "http", "implicit":
		p := path
		if proto_ == "implicit" {
			p = full
		}
		if strings.HasPrefix(p, "GET ") { // a binding under another verb (no body)
			p = p[4:]
			req = httptest.NewRequest("GET", "http://verif.test/", nil)
		}
		req.URL = &url.URL{Scheme: "http", Host: "verif.test", Path: p, RawQuery: rawQuery}
		req.Header.Set("Content-Type", "application/json")
		if req.Method == "POST" {
			req.ContentLength = 2
		}
		mux.ServeHTTP(w, req)
		switch w.Code {
		case 200:
			rep := dynamicpb.NewMessage(repDesc())
			if err := protojson.Unmarshal(w.Body.Bytes(), rep); err != nil {
				return ProbeOut{K: "other", By: "undecodable"}
			}
			return servedBy(rep.Get(repDesc().Fields().ByName("id")).String())
		case 501:
			return ProbeOut{K: "unimplemented"}
		case 404:
			return ProbeOut{K: "notfound"}
		}
		return ProbeOut{K: "other", By: strconv.Itoa(w.Code) + " " + truncate(w.Body.String(), 80)}
	default: // grpc framing
		body := grpcFrame(nil, false)
		req = httptest.NewRequest("POST", "http://verif.test"+full, bytes.NewReader(body))
		req.ProtoMajor, req.ProtoMinor, req.Proto = 2, 0, "HTTP/2.0"
		req.Header.Set("Content-Type", "application/grpc+proto")
		req.Header.Set("Te", "trailers")
		mux.ServeHTTP(w, req)
		res := w.Result()
		if res.StatusCode == 404 {
			return ProbeOut{K: "notfound"}
		}
		st := res.Trailer.Get("Grpc-Status")
		if st == "" {
			st = res.Header.Get("Grpc-Status")
		}
		switch st {
		case "0":
			b := w.Body.Bytes()
			if len(b) < 5 {
				return ProbeOut{K: "other", By: "short body"}
			}
			rep := dynamicpb.NewMessage(repDesc())
			if err := proto.Unmarshal(b[5:], rep); err != nil {
				return ProbeOut{K: "other", By: "undecodable"}
			}
			return servedBy(rep.Get(repDesc().Fields().ByName("id")).String())
		case "12":
			return ProbeOut{K: "unimplemented"}
		case "5":
			return ProbeOut{K: "notfound"}
		}
		return ProbeOut{K: "other", By: "grpc-status " + st + " http " + strconv.Itoa(res.StatusCode) + " " + res.Trailer.Get("Grpc-Message")}
	}
}

func probeAll(mux *larking.Mux, caseID, tries int) []interface{} {
	var evs []interface{}
	for _, m := range regMethods {
		protos := []string{"http", "implicit", "grpc"}
		for k := range m.extras {
			protos = append(protos, "extra"+strconv.Itoa(k))
		}
		for _, pr := range protos {
			seen := map[ProbeOut]bool{}
			pe := ProbeEv{Ev: "Probe", Case: caseID, M: m.name, Proto: pr, N: tries, Outs: []ProbeOut{}}
			for i := 0; i < tries; i++ {
				path, via := m.path, pr
				if strings.HasPrefix(pr, "extra") {
					k, _ := strconv.Atoi(pr[5:])
					path, via = m.extras[k], "http"
				}
				o := probeOnce(mux, via, m.full, path)
				if !seen[o] {
					seen[o] = true
					pe.Outs = append(pe.Outs, o)
				}
			}
			evs = append(evs, pe)
		}
	}
	return evs
}

type regWorld struct {
	nfail    int32
	mux      *larking.Mux
	backends map[string]*backend
	conns    map[string]*grpc.ClientConn
}

func newRegWorld(backends map[string]*backend) (*regWorld, error) {
	files, _ := regFiles()
	mux, err := larking.NewMux(larking.FilesOption(files))
	if err != nil {
		return nil, err
	}
	w := &regWorld{mux: mux, backends: backends, conns: map[string]*grpc.ClientConn{}}
	for tag, b := range backends {
		if tag == "local" {
			continue
		}
		cc, err := b.dial()
		if err != nil {
			return nil, err
		}
		w.conns[tag] = cc
	}
	return w, nil
}

func (w *regWorld) close() {
	for _, cc := range w.conns {
		cc.Close()
	}
}

// apply runs one registration call under a watchdog: a call that does not come back (a lock left behind by an earlier
// call, say) is reported as a crash of that call instead of wedging the driver.
func (w *regWorld) apply(op RegOp, caseID int) OpEv {
	ch := make(chan OpEv, 1)
	go func() { ch <- w.applyInner(op, caseID) }()
	select {
	case ev := <-ch:
		return ev
	case <-time.After(15 * time.Second):
		atomic.AddInt32(&regHangs, 1)
		return OpEv{Ev: "Op", Case: caseID, Op: op.Op, B: op.B, Crash: "hang: the call did not return within 15 s", Immut: true, CurSame: true}
	}
}

// regHangs counts the calls the watchdog gave up on; after a few of them the remaining histories are not replayed (each
// would wait for its own watchdog) - the hangs already recorded decide the run.
var regHangs int32

func (w *regWorld) applyInner(op RegOp, caseID int) OpEv {
	ev := OpEv{Ev: "Op", Case: caseID, Op: op.Op, B: op.B}
	before := larking.VerifSnapshot(w.mux)
	fpBefore := larking.VerifFingerprint(before)
	func() {
		defer func() {
			if p := recover(); p != nil {
				ev.Crash = fmt.Sprint(p)
			}
		}()
		_, sds := regFiles()
		ctx, cancel := context.WithTimeout(context.Background(), 10*time.Second)
		defer cancel()
		switch op.Op {
		case "reglocal":
			for _, s := range regBackendSvcs["local"] {
				un := func(ctx context.Context, full string, req *dynamicpb.Message) (proto.Message, error) {
					return tagReply("local|" + full), nil
				}
				if err := larking.VerifRegisterService(w.mux, MakeServiceDesc(sds[s], un, nil), struct{}{}); err != nil {
					ev.Err = err.Error()
				}
			}
			ev.OK = ev.Err == ""
		case "regfail":
			// every other time through a connection: a backend that serves B (registrable) and Bad (not): the call
			// fails after it has begun to fill its private clone and must publish nothing of it
			if atomic.AddInt32(&w.nfail, 1)%2 == 0 {
				err := w.mux.RegisterConn(ctx, w.conns["cbad"])
				if err != nil {
					ev.Err = err.Error()
				}
				ev.OK = err == nil
				return
			}
			// a service whose second method carries an invalid rule: the whole registration must fail.
			// Its first method is valid and lands below the leaf of A.m2 when A is registered.
			rf, _ := regFiles()
			d, err := rf.FindDescriptorByName("vg.Bad")
			if err != nil {
				ev.Err = "schema: " + err.Error()
				return
			}
			un := func(ctx context.Context, full string, req *dynamicpb.Message) (proto.Message, error) {
				return tagReply("bad|" + full), nil
			}
			err = larking.VerifRegisterService(w.mux, MakeServiceDesc(d.(protoreflect.ServiceDescriptor), un, nil), struct{}{})
			if err != nil {
				ev.Err = err.Error()
			}
			ev.OK = err == nil
		case "regconn", "reregister":
			err := w.mux.RegisterConn(ctx, w.conns[op.B])
			if err != nil {
				ev.Err = err.Error()
			}
			ev.OK = err == nil
		case "dropconn", "dropunknown":
			ev.OK = w.mux.DropConn(ctx, w.conns[op.B])
		}
	}()
	ev.Immut = larking.VerifFingerprint(before) == fpBefore
	ev.CurSame = larking.VerifFingerprint(larking.VerifSnapshot(w.mux)) == fpBefore
	return ev
}

func runRegHist(h RegHist, backends map[string]*backend, tries int) []interface{} {
	evs := []interface{}{map[string]interface{}{"ev": "Hist", "case": h.ID}}
	if atomic.LoadInt32(&regHangs) >= 4 {
		return evs
	}
	w, err := newRegWorld(backends)
	if err != nil {
		return append(evs, OpEv{Ev: "Op", Case: h.ID, Op: "setup", Crash: "setup: " + err.Error()})
	}
	defer w.close()
	evs = append(evs, probeAll(w.mux, h.ID, 2)...)
	for _, op := range h.Ops {
		oe := w.apply(op, h.ID)
		evs = append(evs, oe)
		if oe.Crash != "" {
			break
		}
		evs = append(evs, probeAll(w.mux, h.ID, tries)...)
	}
	return evs
}

func init() { drivers["registry"] = registryMain }

func registryMain(args []string) error {
	c := newCommon("registry")
	tries := c.fs.Int("tries", 24, "requests per method and protocol after every step")
	c.fs.Parse(args)
	tw, err := newTraceWriter(c.out)
	if err != nil {
		return err
	}
	var hists []RegHist
	err = readLines(c.cases, func(b []byte) error {
		var h RegHist
		if err := json.Unmarshal(b, &h); err != nil {
			return err
		}
		if h.ID == 0 {
			h.ID = len(hists) + 1
		}
		hists = append(hists, h)
		return nil
	})
	if err != nil {
		return err
	}
	backends := map[string]*backend{}
	for tag, svcs := range regBackendSvcs {
		if tag != "local" {
			backends[tag] = newBackend(tag, svcs)
		}
	}
	defer func() {
		for _, b := range backends {
			b.stop()
		}
	}()
	work := make(chan RegHist, 16)
	var wg sync.WaitGroup
	for i := 0; i < runtime.NumCPU(); i++ {
		wg.Add(1)
		go func() {
			defer wg.Done()
			for h := range work {
				tw.EmitAll(runRegHist(h, backends, *tries))
			}
		}()
	}
	for _, h := range hists {
		work <- h
	}
	close(work)
	wg.Wait()
	fmt.Printf("registry: histories=%d events=%d\n", len(hists), tw.n)
	return tw.Close()
}

var _ = strings.TrimSpace

// ---- concurrent stress (C12) ---------------------------------------------------------------

type StressRegEv struct {
	Ev    string `json:"ev"`
	W     string `json:"w"`
	Op    string `json:"op"`
	B     string `json:"b"`
	OK    bool   `json:"ok"`
	S     int64  `json:"s"`
	E     int64  `json:"e"`
	Crash string `json:"crash"`
}
type StressReqEv struct {
	Ev    string `json:"ev"`
	ID    int    `json:"id"`
	M     string `json:"m"`
	Proto string `json:"proto"`
	K     string `json:"k"`
	By    string `json:"by"`
	S     int64  `json:"s"`
	E     int64  `json:"e"`
}

func init() { drivers["regstress"] = regStressMain }

func regStressMain(args []string) error {
	c := newCommon("regstress")
	dur := c.fs.Duration("dur", 3*time.Second, "duration of the stress run")
	static := c.fs.Bool("static", false, "register the local service and two connections for it up front and only serve (C13: the serving paths alone)")
	readers := c.fs.Int("readers", 14, "reader goroutines")
	maxReq := c.fs.Int("maxreq", 40000, "requests kept in the trace")
	c.fs.Parse(args)
	tw, err := newTraceWriter(c.out)
	if err != nil {
		return err
	}
	backends := map[string]*backend{}
	for tag, svcs := range regBackendSvcs {
		if tag != "local" {
			backends[tag] = newBackend(tag, svcs)
		}
	}
	defer func() {
		for _, b := range backends {
			b.stop()
		}
	}()
	w, err := newRegWorld(backends)
	if err != nil {
		return err
	}
	defer w.close()
	var seq int64
	var busy int32
	var seqMu sync.Mutex
	next := func() int64 { seqMu.Lock(); seq++; v := seq; seqMu.Unlock(); return v }
	stop := make(chan struct{})
	var regs []StressRegEv
	var reqs []StressReqEv
	var reqMu sync.Mutex
	var wg sync.WaitGroup
	// writers: seeded walks over the enabled operations of Registry_Hist (always containing drops).
	// w1 owns the local service and c1, w2 owns c2: operations of different writers commute.
	var regMu sync.Mutex
	writer := func(name string, own []string, withLocal bool, salt int) {
		defer wg.Done()
		r := newRng(c.seed, 4242, salt)
		conns := map[string]bool{}
		local := false
		for {
			select {
			case <-stop:
				return
			default:
			}
			var cands []RegOp
			if withLocal && !local {
				cands = append(cands, RegOp{"reglocal", "local"})
			}
			cands = append(cands, RegOp{"regfail", ""}, RegOp{"dropunknown", "c3"})
			for _, cn := range own {
				if conns[cn] {
					cands = append(cands, RegOp{"dropconn", cn}, RegOp{"dropconn", cn}, RegOp{"reregister", cn})
				} else {
					cands = append(cands, RegOp{"regconn", cn}, RegOp{"regconn", cn})
				}
			}
			op := cands[r.Intn(len(cands))]
			s := next()
			atomic.AddInt32(&busy, 1)
			oe := w.apply(op, 0)
			atomic.AddInt32(&busy, -1)
			e := next()
			regMu.Lock()
			regs = append(regs, StressRegEv{Ev: "RegOp", W: name, Op: op.Op, B: op.B, OK: oe.OK, S: s, E: e, Crash: oe.Crash})
			regMu.Unlock()
			if strings.HasPrefix(oe.Crash, "hang") {
				return // the registration lock is gone for good
			}
			if oe.OK {
				switch op.Op {
				case "reglocal":
					local = true
				case "regconn":
					conns[op.B] = true
				case "dropconn":
					delete(conns, op.B)
				}
			}
			time.Sleep(time.Duration(r.Intn(300)) * time.Microsecond)
		}
	}
	if *static {
		// three backends for service A (local, c1, c2 - each with descriptors of its own), B through c2: then requests only
		for _, op := range []RegOp{{"reglocal", "local"}, {"regconn", "c1"}, {"regconn", "c2"}} {
			if oe := w.apply(op, 0); !oe.OK {
				return fmt.Errorf("static setup: %s(%s): %s %s", op.Op, op.B, oe.Err, oe.Crash)
			}
		}
	} else {
		wg.Add(2)
		go writer("w1", []string{"c1"}, true, 1)
		go writer("w2", []string{"c2"}, false, 2)
	}
	for i := 0; i < *readers; i++ {
		wg.Add(1)
		go func(i int) {
			defer wg.Done()
			r := newRng(c.seed, i, 99)
			protos := []string{"http", "implicit", "grpc"}
			n := 0
			for {
				select {
				case <-stop:
					return
				default:
				}
				m := regMethods[r.Intn(len(regMethods))]
				pr := protos[r.Intn(3)]
				b0 := atomic.LoadInt32(&busy)
				s := next()
				q := ""
				if pr != "grpc" && r.Intn(2) == 0 {
					q = wideQuery
				}
				o := probeOnceQ(w.mux, pr, m.full, m.path, q)
				e := next()
				n++
				// keep the requests that overlapped an operation, and a sample of the others
				if b0 == 0 && atomic.LoadInt32(&busy) == 0 && n%40 != 0 && o.K != "panic" && o.K != "other" {
					continue
				}
				reqMu.Lock()
				if len(reqs) < *maxReq {
					reqs = append(reqs, StressReqEv{Ev: "Req", ID: i*1000000 + n, M: m.name, Proto: pr, K: o.K, By: o.By, S: s, E: e})
				}
				reqMu.Unlock()
			}
		}(i)
	}
	time.Sleep(*dur)
	close(stop)
	wg.Wait()
	sort.Slice(regs, func(i, j int) bool { return regs[i].S < regs[j].S })
	for _, e := range regs {
		tw.Emit(e)
	}
	for _, e := range reqs {
		tw.Emit(e)
	}
	fmt.Printf("regstress: ops=%d requests=%d\n", len(regs), len(reqs))
	return tw.Close()
}
