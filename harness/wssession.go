package main

// Driver "wssession": the frame sequences TLC generates from WsSession.tla, concretised into RFC 6455 bytes and
// written to a real loopback server in front of the mux (WEBSOCKET binding with a body on a bidi method).  The
// handler receives until the stream ends, echoes every message and records what each RecvMsg gave it; the client
// records the frames the server wrote.  No expected results here: WsSessionTrace.tla folds the frame sequence
// through WsSession!Step and compares.

import (
	"bufio"
	"context"
	"encoding/json"
	"errors"
	"fmt"
	"io"
	"log"
	"net"
	"net/http"
	"net/http/httptest"
	"strconv"
	"strings"
	"sync"
	"syscall"
	"time"
	"unicode/utf8"

	"google.golang.org/genproto/googleapis/api/annotations"
	"google.golang.org/genproto/googleapis/api/serviceconfig"
	"google.golang.org/grpc"
	"google.golang.org/grpc/codes"
	"google.golang.org/grpc/metadata"
	"google.golang.org/grpc/status"
	"google.golang.org/protobuf/encoding/protojson"
	"google.golang.org/protobuf/proto"
	"google.golang.org/protobuf/reflect/protoreflect"
	"google.golang.org/protobuf/types/dynamicpb"

	"larking.io/larking"
)

type WsCase struct {
	ID     int      `json:"id"`
	Frames []string `json:"frames"`
	Opts   []string `json:"opts"` // "stats", "streamInt"
	Bind   string   `json:"bind"` // "" body "*"; "pathvar": /wp/{t}/bidi, field t comes from the path on the first message only; "respbody": response_body "sub", declared through the service config
}

type WsRecv struct {
	K    string `json:"k"` // msg | eof | err
	ID   int    `json:"id"`
	Same bool   `json:"same"`
}

type WsSrvFrame struct {
	K    string `json:"k"` // text | pong | close | other
	ID   int    `json:"id"`
	Same bool   `json:"same"`
	Code int    `json:"code"`
}

type WsEv struct {
	Ev      string       `json:"ev"`
	Case    int          `json:"case"`
	Frames  []string     `json:"frames"`
	Opts    []string     `json:"opts"`
	Bind    string       `json:"bind"`
	Status  int          `json:"status"`
	Entered bool         `json:"entered"`
	Recv    []WsRecv     `json:"recv"`
	Latched bool         `json:"latched"` // a second RecvMsg after the clean end gave io.EOF again
	Srv     []WsSrvFrame `json:"srv"`
	ReadEnd string       `json:"readend"` // eof | reset | timeout | other
	Crash   string       `json:"crash"`
	Sizes   []int        `json:"sizes"`
}

type wsSessRec struct {
	mu      sync.Mutex
	sent    map[int]*dynamicpb.Message
	recv    []WsRecv
	latched bool
	entered bool
}

type wsSessEnv struct {
	mux  *larking.Mux
	mu   sync.Mutex
	recs map[string]*wsSessRec
	done map[string]chan string
}

func wsReq(caseID, idx int, r *rng) *dynamicpb.Message {
	m := dynamicpb.NewMessage(reqDesc())
	m.Set(reqDesc().Fields().ByName("s"), protoreflect.ValueOfString(fmt.Sprintf("c%d-m%d", caseID, idx)))
	// text with multi-byte characters, quotes and backslashes: fragment boundaries fall inside characters and escapes
	alphabet := []string{"a", "b", "z", " ", "é", "書", "\U0001F600", "\"", "\\", "{", "}", "\n", "0"}
	n := 0
	switch r.Intn(8) {
	case 0:
		n = 0
	case 1:
		n = 130 + r.Intn(200) // 16-bit frame length
	case 2:
		if r.Intn(40) == 0 {
			n = 66000 // 64-bit frame length
		} else {
			n = 1 + r.Intn(6)
		}
	default:
		n = 1 + r.Intn(30)
	}
	var sb strings.Builder
	for i := 0; i < n; i++ {
		sb.WriteString(alphabet[r.Intn(len(alphabet))])
	}
	if n > 0 {
		m.Set(reqDesc().Fields().ByName("t"), protoreflect.ValueOfString(sb.String()))
	}
	return m
}

func wsRep(caseID, idx int) *dynamicpb.Message {
	m := dynamicpb.NewMessage(repDesc())
	m.Set(repDesc().Fields().ByName("id"), protoreflect.ValueOfString(fmt.Sprintf("h%d-r%d", caseID, idx)))
	m.Set(repDesc().Fields().ByName("pad"), protoreflect.ValueOfBytes([]byte(filler(idx%7, idx))))
	sub := dynamicpb.NewMessage(subDesc())
	sub.Set(subDesc().Fields().ByName("s"), protoreflect.ValueOfString(fmt.Sprintf("h%d-r%d", caseID, idx)))
	sub.Set(subDesc().Fields().ByName("i"), protoreflect.ValueOfInt32(int32(idx)))
	m.Set(repDesc().Fields().ByName("sub"), protoreflect.ValueOfMessage(sub))
	return m
}

func wsPathValue(caseID int) string { return fmt.Sprintf("pv%d", caseID) }

// wsService: one bidi method; every binding comes from the service configuration (which replaces the annotation): the
// WEBSOCKET binding with response_body, and as additional bindings the plain one and the one with a path variable.
func wsService() (ServiceSpec, *serviceconfig.Service) {
	prim := httpRule("POST", "/ws0/bidi")
	prim.Body = "*"
	svc := ServiceSpec{Name: "W", Methods: []MethodSpec{{Name: "Bidi", ClientStream: true, ServerStream: true, Rule: prim}}}
	mk := func(path, resp string) *annotations.HttpRule {
		r := httpRule("WEBSOCKET", path)
		r.Body, r.ResponseBody = "*", resp
		return r
	}
	cfg := mk("/wr/bidi", "sub")
	cfg.Selector = "vs.W.Bidi"
	cfg.AdditionalBindings = []*annotations.HttpRule{mk("/w/bidi", ""), mk("/wp/{t}/bidi", "")}
	return svc, &serviceconfig.Service{Http: &annotations.Http{Rules: []*annotations.HttpRule{cfg}}}
}

func idxOf(s, pre string) int {
	i := strings.LastIndex(s, pre)
	if i < 0 {
		return 0
	}
	n, err := strconv.Atoi(s[i+len(pre):])
	if err != nil {
		return 0
	}
	return n
}

func (e *wsSessEnv) stream(full string, md protoreflect.MethodDescriptor, ss grpc.ServerStream) error {
	in, _ := metadata.FromIncomingContext(ss.Context())
	cid := ""
	if v := in.Get("x-case"); len(v) > 0 {
		cid = v[0]
	}
	e.mu.Lock()
	rec := e.recs[cid]
	e.mu.Unlock()
	if rec == nil {
		return status.Error(codes.Internal, "unknown case")
	}
	caseID, _ := strconv.Atoi(cid)
	rec.mu.Lock()
	rec.entered = true
	rec.mu.Unlock()
	for {
		m := dynamicpb.NewMessage(reqDesc())
		err := ss.RecvMsg(m)
		if err == io.EOF {
			m2 := dynamicpb.NewMessage(reqDesc())
			err2 := ss.RecvMsg(m2)
			rec.mu.Lock()
			rec.recv = append(rec.recv, WsRecv{K: "eof"})
			rec.latched = err2 == io.EOF
			rec.mu.Unlock()
			return nil
		}
		if err != nil {
			rec.mu.Lock()
			rec.recv = append(rec.recv, WsRecv{K: "err"})
			rec.mu.Unlock()
			return status.Error(codes.Unauthenticated, "receive failed")
		}
		idx := idxOf(m.Get(reqDesc().Fields().ByName("s")).String(), "-m")
		rec.mu.Lock()
		want := rec.sent[idx]
		rec.recv = append(rec.recv, WsRecv{K: "msg", ID: idx, Same: want != nil && proto.Equal(want, m)})
		rec.mu.Unlock()
		if err := ss.SendMsg(wsRep(caseID, idx)); err != nil {
			return status.Error(codes.Unauthenticated, "send failed")
		}
	}
}

func (e *wsSessEnv) unary(ctx context.Context, full string, req *dynamicpb.Message) (proto.Message, error) {
	return dynamicpb.NewMessage(repDesc()), nil
}

func newWsSessEnv(opts []string) (*wsSessEnv, error) {
	e := &wsSessEnv{recs: map[string]*wsSessRec{}, done: map[string]chan string{}}
	wsvc, wcfg := wsService()
	files, sds, err := BuildFiles([]ServiceSpec{wsvc})
	if err != nil {
		return nil, err
	}
	mo := []larking.MuxOption{larking.FilesOption(files), larking.ServiceConfigOption(wcfg)}
	for _, o := range opts {
		switch o {
		case "streamInt":
			mo = append(mo, larking.StreamServerInterceptorOption(func(srv interface{}, ss grpc.ServerStream, info *grpc.StreamServerInfo, handler grpc.StreamHandler) error {
				return handler(srv, ss)
			}))
		case "stats":
			mo = append(mo, larking.StatsOption(&uploadStats{}))
		}
	}
	mux, err := larking.NewMux(mo...)
	if err != nil {
		return nil, err
	}
	if err := larking.VerifRegisterService(mux, MakeServiceDesc(sds[0], e.unary, e.stream), struct{}{}); err != nil {
		return nil, err
	}
	e.mux = mux
	return e, nil
}

func (e *wsSessEnv) ServeHTTP(w http.ResponseWriter, r *http.Request) {
	id := r.Header.Get("X-Case")
	defer func() {
		res := ""
		if p := recover(); p != nil {
			res = fmt.Sprintf("panic: %v", p)
		}
		e.mu.Lock()
		ch := e.done[id]
		e.mu.Unlock()
		if ch != nil {
			ch <- res
		}
	}()
	e.mux.ServeHTTP(w, r)
}

// concretise turns the abstract frames into bytes; sent[i] is the message started by frame i (1-based).
func wsConcretise(c WsCase, r *rng) (writes [][]byte, sent map[int]*dynamicpb.Message, sizes []int) {
	sent = map[int]*dynamicpb.Message{}
	var rest []byte // the part of the open fragmented message not yet written
	first := true
	mk := func(i int) []byte {
		m := wsReq(c.ID, i, r)
		if first && c.Bind == "pathvar" {
			// the first message a session delivers takes field t from the path: the client says the same in its body
			m.Set(reqDesc().Fields().ByName("t"), protoreflect.ValueOfString(wsPathValue(c.ID)))
		}
		first = false
		sent[i] = m
		b, err := protojson.Marshal(m)
		if err != nil {
			panic(err)
		}
		sizes = append(sizes, len(b))
		return b
	}
	cut := func(b []byte) ([]byte, []byte) { // a piece (possibly empty, possibly ending inside a character) and the remainder
		if len(b) == 0 {
			return nil, nil
		}
		n := r.Intn(len(b) + 1)
		if r.Intn(6) == 0 {
			n = 0
		}
		return b[:n], b[n:]
	}
	for k, f := range c.Frames {
		i := k + 1
		switch f {
		case "T":
			writes = append(writes, wsFrame(1, true, true, 0, mk(i)))
		case "B":
			writes = append(writes, wsFrame(2, true, true, 0, mk(i)))
		case "Ts", "Bs":
			op := byte(1)
			if f == "Bs" {
				op = 2
			}
			var p []byte
			p, rest = cut(mk(i))
			writes = append(writes, wsFrame(op, false, true, 0, p))
		case "Cm":
			if rest == nil { // outside a message: a whole request, so that a server accepting it would deliver something
				writes = append(writes, wsFrame(0, false, true, 0, mk(i)))
				delete(sent, i) // nothing the handler may legitimately receive
				break
			}
			var p []byte
			p, rest = cut(rest)
			if rest == nil {
				rest = []byte{}
			}
			writes = append(writes, wsFrame(0, false, true, 0, p))
		case "Ce":
			if rest == nil {
				writes = append(writes, wsFrame(0, true, true, 0, mk(i)))
				delete(sent, i)
				break
			}
			writes = append(writes, wsFrame(0, true, true, 0, rest))
			rest = nil
		case "Pi":
			writes = append(writes, wsFrame(9, true, true, 0, []byte(fmt.Sprintf("p%d", i))))
		case "Po":
			writes = append(writes, wsFrame(10, true, true, 0, []byte("late")))
		case "Cl1000":
			writes = append(writes, wsFrame(8, true, true, 0, []byte{0x03, 0xe8}))
		case "Cl1001":
			writes = append(writes, wsFrame(8, true, true, 0, append([]byte{0x03, 0xe9}, "bye"...)))
		case "ClNone":
			writes = append(writes, wsFrame(8, true, true, 0, nil))
		case "Cl1002":
			writes = append(writes, wsFrame(8, true, true, 0, append([]byte{0x03, 0xea}, "protocol"...)))
		case "Cl1011":
			writes = append(writes, wsFrame(8, true, true, 0, []byte{0x03, 0xf3}))
		case "Cl4000":
			writes = append(writes, wsFrame(8, true, true, 0, append([]byte{0x0f, 0xa0}, "app"...)))
		case "J":
			writes = append(writes, wsFrame(1, true, true, 0, []byte("{\"s\":")))
		case "Jnull":
			writes = append(writes, wsFrame(1, true, true, 0, []byte("[1]")))
		case "Unmasked":
			b := mk(i)
			delete(sent, i)
			writes = append(writes, wsFrame(1, true, false, 0, b))
		case "Rsv":
			b := mk(i)
			delete(sent, i)
			writes = append(writes, wsFrame(1, true, true, 1+byte(r.Intn(7)), b))
		case "Op3":
			b := mk(i)
			delete(sent, i)
			writes = append(writes, wsFrame(3, true, true, 0, b))
		case "OpB":
			writes = append(writes, wsFrame(11, true, true, 0, nil))
		case "PiFrag":
			writes = append(writes, wsFrame(9, false, true, 0, []byte("p")))
		case "PiLong":
			writes = append(writes, wsFrame(9, true, true, 0, []byte(strings.Repeat("p", 126+r.Intn(100)))))
		case "Utf8":
			writes = append(writes, wsFrame(1, true, true, 0, []byte("{\"s\":\"c0-m0\",\"t\":\"\xff\xfe\"}")))
		case "Part1", "Part2", "PartM", "PartP":
			b := mk(i)
			delete(sent, i)
			fr := wsFrame(1, true, true, 0, b)
			hdr := len(fr) - len(b) // fixed bytes, extended length, mask
			switch f {
			case "Part1":
				fr = fr[:1]
			case "Part2":
				fr = fr[:2]
			case "PartM":
				fr = fr[:hdr-4+r.Intn(4)+0]
				if len(fr) <= 2 {
					fr = fr[:3]
				}
			default:
				fr = fr[:hdr+r.Intn(len(b))]
			}
			writes = append(writes, fr)
		default:
			panic("unknown frame kind " + f)
		}
	}
	return
}

func parseWsSrv(caseID int, bind string, b []byte) []WsSrvFrame {
	out := []WsSrvFrame{}
	for len(b) > 0 {
		if len(b) < 2 {
			return append(out, WsSrvFrame{K: "other"})
		}
		op, fin := b[0]&0x0f, b[0]&0x80 != 0
		n, off := int(b[1]&0x7f), 2
		if b[1]&0x80 != 0 || b[0]&0x70 != 0 {
			return append(out, WsSrvFrame{K: "other"})
		}
		switch n {
		case 126:
			if len(b) < 4 {
				return append(out, WsSrvFrame{K: "other"})
			}
			n, off = int(b[2])<<8|int(b[3]), 4
		case 127:
			if len(b) < 10 {
				return append(out, WsSrvFrame{K: "other"})
			}
			n = 0
			for _, x := range b[2:10] {
				n = n<<8 | int(x)
			}
			off = 10
		}
		if n < 0 || off+n > len(b) {
			return append(out, WsSrvFrame{K: "other"})
		}
		p := b[off : off+n]
		b = b[off+n:]
		switch {
		case op == 1 && fin:
			if bind == "respbody" { // the frame is the selected field of the reply, nothing else
				sub := dynamicpb.NewMessage(subDesc())
				if err := protojson.Unmarshal(p, sub); err != nil {
					out = append(out, WsSrvFrame{K: "text"})
					continue
				}
				idx := idxOf(sub.Get(subDesc().Fields().ByName("s")).String(), "-r")
				want := wsRep(caseID, idx).Get(repDesc().Fields().ByName("sub")).Message().Interface()
				out = append(out, WsSrvFrame{K: "text", ID: idx, Same: proto.Equal(sub, want)})
				continue
			}
			rep := dynamicpb.NewMessage(repDesc())
			if err := protojson.Unmarshal(p, rep); err != nil {
				out = append(out, WsSrvFrame{K: "text"})
				continue
			}
			idx := idxOf(rep.Get(repDesc().Fields().ByName("id")).String(), "-r")
			out = append(out, WsSrvFrame{K: "text", ID: idx, Same: proto.Equal(rep, wsRep(caseID, idx))})
		case op == 10 && fin && n <= 125:
			out = append(out, WsSrvFrame{K: "pong"})
		case op == 8 && fin && n <= 125 && n != 1:
			code := 1005
			if n >= 2 {
				code = int(p[0])<<8 | int(p[1])
				if !utf8.Valid(p[2:]) {
					code = -1
				}
			}
			out = append(out, WsSrvFrame{K: "close", Code: code})
		default:
			out = append(out, WsSrvFrame{K: "other"})
		}
	}
	return out
}

func (e *wsSessEnv) runSession(addr string, c WsCase, seed int64) WsEv {
	ev := WsEv{Ev: "WsSession", Case: c.ID, Frames: c.Frames, Opts: c.Opts, Bind: c.Bind, Recv: []WsRecv{}, Srv: []WsSrvFrame{}, Sizes: []int{}}
	if ev.Opts == nil {
		ev.Opts = []string{}
	}
	r := newRng(seed, c.ID)
	writes, sent, sizes := wsConcretise(c, r)
	if sizes != nil {
		ev.Sizes = sizes
	}
	cid := strconv.Itoa(c.ID)
	rec := &wsSessRec{sent: sent}
	ch := make(chan string, 1)
	e.mu.Lock()
	e.recs[cid] = rec
	e.done[cid] = ch
	e.mu.Unlock()
	defer func() {
		e.mu.Lock()
		delete(e.recs, cid)
		delete(e.done, cid)
		e.mu.Unlock()
	}()
	conn, err := net.DialTimeout("tcp", addr, 5*time.Second)
	if err != nil {
		ev.Crash = "infra: dial: " + err.Error()
		return ev
	}
	defer conn.Close()
	conn.SetDeadline(time.Now().Add(15 * time.Second))
	upath := map[string]string{"": "/w/bidi", "pathvar": "/wp/" + wsPathValue(c.ID) + "/bidi", "respbody": "/wr/bidi"}[c.Bind]
	fmt.Fprintf(conn, "GET "+upath+" HTTP/1.1\r\nHost: verif.test\r\nX-Case: %s\r\nUpgrade: websocket\r\nConnection: Upgrade\r\nSec-WebSocket-Key: dGhlIHNhbXBsZSBub25jZQ==\r\nSec-WebSocket-Version: 13\r\n\r\n", cid)
	br := bufio.NewReader(conn)
	res, err := http.ReadResponse(br, nil)
	if err != nil {
		ev.Crash = "infra: no response to the upgrade: " + err.Error()
		return ev
	}
	ev.Status = res.StatusCode
	if res.StatusCode == 101 {
		// the frames go out in one or several writes (TCP segmentation is not part of the session)
		var all []byte
		for _, w := range writes {
			all = append(all, w...)
		}
		if r.Intn(3) == 0 {
			for _, w := range writes {
				if _, err := conn.Write(w); err != nil {
					break
				}
			}
		} else {
			conn.Write(all)
		}
		if tc, ok := conn.(*net.TCPConn); ok {
			tc.CloseWrite()
		}
		rest, rerr := io.ReadAll(br)
		switch {
		case rerr == nil:
			ev.ReadEnd = "eof"
		case errors.Is(rerr, syscall.ECONNRESET):
			ev.ReadEnd = "reset"
		default:
			var ne net.Error
			if errors.As(rerr, &ne) && ne.Timeout() {
				ev.ReadEnd = "timeout"
			} else {
				ev.ReadEnd = "other"
			}
		}
		ev.Srv = parseWsSrv(c.ID, c.Bind, rest)
	}
	conn.Close()
	select {
	case ev.Crash = <-ch:
	case <-time.After(20 * time.Second):
		ev.Crash = "hang"
	}
	rec.mu.Lock()
	ev.Recv = append(ev.Recv, rec.recv...)
	ev.Latched = rec.latched
	ev.Entered = rec.entered
	rec.mu.Unlock()
	return ev
}

func init() { drivers["wssession"] = wsSessionMain }

func wsSessionMain(args []string) error {
	c := newCommon("wssession")
	workers := c.fs.Int("workers", 16, "parallel sessions")
	c.fs.Parse(args)
	var cases []WsCase
	if err := readLines(c.cases, func(b []byte) error {
		var x WsCase
		if err := json.Unmarshal(b, &x); err != nil {
			return err
		}
		cases = append(cases, x)
		return nil
	}); err != nil {
		return err
	}
	tw, err := newTraceWriter(c.out)
	if err != nil {
		return err
	}
	// one server per option subset
	type srvT struct {
		env  *wsSessEnv
		srv  *httptest.Server
		addr string
	}
	srvs := map[string]*srvT{}
	for _, x := range cases {
		k := strings.Join(x.Opts, ",")
		if srvs[k] != nil {
			continue
		}
		env, err := newWsSessEnv(x.Opts)
		if err != nil {
			return err
		}
		s := httptest.NewUnstartedServer(env)
		s.Config.ErrorLog = log.New(io.Discard, "", 0)
		s.Start()
		srvs[k] = &srvT{env: env, srv: s, addr: s.Listener.Addr().String()}
	}
	out := make([]WsEv, len(cases))
	var wg sync.WaitGroup
	sem := make(chan struct{}, *workers)
	for i := range cases {
		wg.Add(1)
		sem <- struct{}{}
		go func(i int) {
			defer wg.Done()
			defer func() { <-sem }()
			s := srvs[strings.Join(cases[i].Opts, ",")]
			out[i] = s.env.runSession(s.addr, cases[i], c.seed)
		}(i)
	}
	wg.Wait()
	for _, s := range srvs {
		s.srv.CloseClientConnections()
		s.srv.Close()
	}
	for _, ev := range out {
		tw.Emit(ev)
	}
	return tw.Close()
}
