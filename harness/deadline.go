package main

// Deadline driver (C15): grpc-timeout strings by shape (Deadline.tla) through the
// real Mux, and client cancel / disconnect schedules against gated handlers over
// real loopback sockets (grpc-go client, raw HTTP/1.1 connections).

import (
	"bufio"
	"bytes"
	"compress/gzip"
	"context"
	"encoding/json"
	"fmt"
	"io"
	"math/big"
	"net"
	"net/http"
	"strings"
	"sync"
	"time"

	"google.golang.org/grpc"
	"google.golang.org/grpc/credentials/insecure"
	"google.golang.org/grpc/test/bufconn"
	"google.golang.org/protobuf/proto"
	"google.golang.org/protobuf/reflect/protoreflect"
	"google.golang.org/protobuf/types/dynamicpb"
	"larking.io/larking"
)

type TShape struct {
	N      int    `json:"n"`
	Digits bool   `json:"digits"`
	Unit   string `json:"unit"`
	Signed bool   `json:"signed"`
}
type TimeoutCase struct {
	ID    int    `json:"id"`
	Shape TShape `json:"shape"`
	Proto string `json:"proto"`
	Fam   string `json:"fam"`
	Value string `json:"value"` // optional fixed value characters (boundary cases)
}
type TimeoutEv struct {
	Ev      string `json:"ev"`
	Case    int    `json:"case"`
	Shape   TShape `json:"shape"`
	Text    string `json:"text"`
	Proto   string `json:"proto"`
	Invoked bool   `json:"invoked"`
	HTTP    int    `json:"http"`
	Has     bool   `json:"has"`
	Delta   int64  `json:"delta"` // |observed - expected| in ms, capped at 10^9
	Small   bool   `json:"small"` // the denoted duration is under 200 ms: it may expire before the handler runs
	Crash   string `json:"crash"`
}

var unitNanos = map[string]int64{"H": int64(time.Hour), "M": int64(time.Minute), "S": int64(time.Second), "m": int64(time.Millisecond), "u": int64(time.Microsecond), "n": 1}

func timeoutText(c TimeoutCase, r *rng) string {
	s := c.Shape
	val := c.Value
	if val == "" {
		b := make([]byte, s.N)
		for i := range b {
			b[i] = byte('0' + r.Intn(10))
		}
		if s.N > 0 && r.Intn(4) != 0 {
			b[0] = byte('1' + r.Intn(9)) // mostly no leading zero
		}
		if !s.Digits && s.N > 0 {
			b[r.Intn(s.N)] = " aZ.,"[r.Intn(5)]
		}
		if s.Signed && s.N > 0 {
			b[0] = "+-"[r.Intn(2)]
		}
		val = string(b)
	}
	return val + s.Unit
}

func runTimeoutCase(c TimeoutCase, seed int64) TimeoutEv {
	r := newRng(seed, c.ID, 15)
	text := timeoutText(c, r)
	ev := TimeoutEv{Ev: "Timeout", Case: c.ID, Shape: c.Shape, Text: text, Proto: c.Proto}
	rc := RpcCase{ID: c.ID, Proto: c.Proto, Codec: "proto", Shape: "unary", Sizes: []int{1}, Script: []Step{{Op: "ret"}}, Timeout: text}
	// the deadline does not depend on the mux options: two cases in three run with a stats handler and / or interceptors
	rc.Opts = [][]string{nil, {"stats"}, {"stats", "unaryInt", "streamInt"}}[c.ID%3]
	t0 := time.Now()
	re := runRpcCase(rc)
	_ = t0
	ev.Crash = re.Crash
	ev.Invoked = re.H.Invoked > 0
	ev.HTTP = re.Cl.HTTP
	ev.Has = ev.Invoked && re.H.HasDL
	ev.Delta = 1000000000
	{
		// expected duration: value x unit in arbitrary precision, clamped to MaxInt64 nanoseconds
		digits := strings.TrimRight(text, "HMSmun")
		v, ok := new(big.Int).SetString(digits, 10)
		if ok && unitNanos[c.Shape.Unit] != 0 {
			small := new(big.Int).Mul(v, big.NewInt(unitNanos[c.Shape.Unit]))
			ev.Small = small.Cmp(big.NewInt(200*1000000)) < 0
		}
		if ok && ev.Has {
			ns := new(big.Int).Mul(v, big.NewInt(unitNanos[c.Shape.Unit]))
			max := big.NewInt(1<<63 - 1)
			if ns.Cmp(max) > 0 {
				ns = max
			}
			wantMs := new(big.Int).Div(ns, big.NewInt(1000000))
			d := new(big.Int).Sub(big.NewInt(re.H.Deadline), wantMs)
			d.Abs(d)
			if d.IsInt64() && d.Int64() < 1000000000 {
				ev.Delta = d.Int64()
			}
		}
	}
	return ev
}

// ---- cancellation over real sockets ---------------------------------------------------------

type CancelCase struct {
	ID      int    `json:"id"`
	Shape   string `json:"shape"`   // unary | cstream | sstream | bidi
	Point   string `json:"point"`   // running | blockedRecv | blockedSend | returned
	Client  string `json:"client"`  // grpc-cancel | grpc-deadline | http-disconnect | grpcweb-disconnect
	LateEnd bool   `json:"lateend"` // raw HTTP/1.1 clients, complete bodies: chunked, the terminating chunk arrives 150 ms after the message
	Gzip    bool   `json:"gzip"`    // http-disconnect, client streams, blockedFirstRecv: the upload is Content-Encoding: gzip and breaks off inside the gzip stream
	Via     string `json:"via"`     // local: the handler is registered on the mux; proxied: it runs on a backend behind RegisterConn
	Fam     string `json:"fam"`
}
type CancelEv struct {
	Ev         string `json:"ev"`
	Case       int    `json:"case"`
	Shape      string `json:"shape"`
	Point      string `json:"point"`
	Client     string `json:"client"`
	LateEnd    bool   `json:"lateend"`
	Gzip       bool   `json:"gzip"`
	Via        string `json:"via"`
	Reached    bool   `json:"reached"`    // the handler was in the intended position when the client cancelled
	CtxDone    bool   `json:"ctxdone"`    // the handler's context ended within the wait
	DoneBefore bool   `json:"donebefore"` // ... it had already ended before the client did anything
	Released   bool   `json:"released"`   // the blocked stream call returned within the wait
	RelErr     bool   `json:"relerr"`     // ... with an error
	RelEOF     bool   `json:"releof"`     // ... namely io.EOF: the handler was told the stream ended cleanly
	LateSend   string `json:"latesend"`   // idleAfterSend: what a small Send issued after the context ended returned ("" not tried, "error", "nil")
	Ms         int64  `json:"ms"`
	Crash      string `json:"crash"`
}

type sockServer struct {
	lis  net.Listener
	srv  *http.Server
	addr string
}

func startSockServer(mux *larking.Mux, opts ...larking.ServerOption) (*sockServer, error) {
	srv, err := larking.NewServer(mux, opts...)
	if err != nil {
		return nil, err
	}
	lis, err := net.Listen("tcp", "127.0.0.1:0")
	if err != nil {
		return nil, err
	}
	go srv.Serve(lis)
	return &sockServer{lis: lis, srv: srv, addr: lis.Addr().String()}, nil
}
func (s *sockServer) stop() { s.srv.Close() }

const cancelWait = 5 * time.Second

func runCancelCase(c CancelCase) (ev CancelEv) {
	ev = CancelEv{Ev: "Cancel", Case: c.ID, Shape: c.Shape, Point: c.Point, Client: c.Client, LateEnd: c.LateEnd, Gzip: c.Gzip, Via: c.Via}
	if ev.Via == "" {
		ev.Via = "local"
	}
	defer func() {
		if p := recover(); p != nil {
			ev.Crash = fmt.Sprint(p)
		}
	}()
	files, sds, err := BuildFiles([]ServiceSpec{testService()})
	if err != nil {
		ev.Crash = "setup: " + err.Error()
		return
	}
	// deadlines and cancellation do not depend on the mux options: two cases in three run with a stats handler and / or
	// pass-through interceptors installed
	mopts := []larking.MuxOption{larking.FilesOption(files)}
	if c.ID%3 != 0 {
		mopts = append(mopts, larking.StatsOption(&uploadStats{}))
	}
	if c.ID%3 == 2 {
		mopts = append(mopts, larking.UnaryServerInterceptorOption(func(ctx context.Context, req interface{}, info *grpc.UnaryServerInfo, handler grpc.UnaryHandler) (interface{}, error) {
			return handler(ctx, req)
		}), larking.StreamServerInterceptorOption(func(srv interface{}, ss grpc.ServerStream, info *grpc.StreamServerInfo, handler grpc.StreamHandler) error {
			return handler(srv, ss)
		}))
	}
	mux, err := larking.NewMux(mopts...)
	if err != nil {
		ev.Crash = "setup: " + err.Error()
		return
	}
	inPos := make(chan struct{})    // closed when the handler is in position
	ctxEnded := make(chan struct{}) // closed when the handler saw ctx.Done()
	released := make(chan error, 1) // result of the blocked call
	finished := make(chan struct{}) // handler returned
	var once sync.Once
	position := func() { once.Do(func() { close(inPos) }) }
	watch := func(ctx context.Context) {
		go func() {
			select {
			case <-ctx.Done():
				close(ctxEnded)
			case <-time.After(cancelWait + 3*time.Second):
			}
		}()
	}
	big := repMsg(c.ID, 1, 64*1024)
	un := func(ctx context.Context, full string, req *dynamicpb.Message) (proto.Message, error) {
		watch(ctx)
		position()
		if c.Point == "returned" {
			return repMsg(c.ID, 1, 0), nil
		}
		select { // "running": the handler is busy, not in a stream call
		case <-ctx.Done():
		case <-time.After(cancelWait + 2*time.Second):
		}
		return repMsg(c.ID, 1, 0), nil
	}
	st := func(full string, md protoreflect.MethodDescriptor, ss grpc.ServerStream) error {
		defer close(finished)
		ctx := ss.Context()
		watch(ctx)
		if !md.IsStreamingClient() {
			m := dynamicpb.NewMessage(reqDesc())
			if err := ss.RecvMsg(m); err != nil {
				return err
			}
		}
		switch c.Point {
		case "blockedFirstRecv":
			if md.IsStreamingClient() { // the client has sent nothing yet: the very first Recv blocks
				position()
				for { // (a gzip upload that breaks off may still yield the messages decoded so far: the end must be an error)
					m := dynamicpb.NewMessage(reqDesc())
					if err := ss.RecvMsg(m); err != nil {
						released <- err
						return err
					}
				}
			}
		case "blockedRecv":
			if md.IsStreamingClient() {
				m := dynamicpb.NewMessage(reqDesc())
				if err := ss.RecvMsg(m); err != nil { // the first message the client does send
					released <- err
					return err
				}
				position()
				m2 := dynamicpb.NewMessage(reqDesc())
				err := ss.RecvMsg(m2) // nothing more comes: blocks until the cancel
				released <- err
				return err
			}
		case "blockedSend":
			if md.IsStreamingServer() {
				// the client does not read: fill the flow-control window until Send blocks
				progress := time.Now()
				var mu sync.Mutex
				go func() {
					for {
						time.Sleep(50 * time.Millisecond)
						mu.Lock()
						idle := time.Since(progress)
						mu.Unlock()
						if idle > 300*time.Millisecond {
							position()
							return
						}
					}
				}()
				for i := 0; i < 4096; i++ {
					err := ss.SendMsg(big)
					mu.Lock()
					progress = time.Now()
					mu.Unlock()
					if err != nil {
						released <- err
						return err
					}
				}
				released <- nil
				return nil
			}
		case "returned":
			position()
			return nil
		case "idleAfterSend":
			if md.IsStreamingServer() {
				if err := ss.SendMsg(repMsg(c.ID, 1, 3)); err != nil {
					return err
				}
			}
		}
		position()
		select {
		case <-ctx.Done():
			if c.Point == "idleAfterSend" && md.IsStreamingServer() {
				// the call is over for the client: a reply sent now (a small one, that fits any buffer) must not be
				// reported as delivered
				released <- ss.SendMsg(repMsg(c.ID, 2, 3))
			}
		case <-time.After(cancelWait + 2*time.Second):
		}
		return nil
	}
	if c.Via == "proxied" {
		// the handler lives on a backend: the client's cancellation has to travel through larking's forwarder
		if mux, err = larking.NewMux(mopts[1:]...); err != nil {
			ev.Crash = "setup: " + err.Error()
			return
		}
		lis := bufconn.Listen(1 << 20)
		gs := grpc.NewServer()
		gs.RegisterService(MakeServiceDesc(sds[0], un, st), struct{}{})
		rpbRegister(gs, files)
		go gs.Serve(lis)
		defer gs.Stop()
		bcc, err := grpc.NewClient("passthrough:///cancel", grpc.WithContextDialer(func(ctx context.Context, _ string) (net.Conn, error) { return lis.DialContext(ctx) }),
			grpc.WithTransportCredentials(insecure.NewCredentials()))
		if err != nil {
			ev.Crash = "setup: " + err.Error()
			return
		}
		defer bcc.Close()
		rctx, rcancel := context.WithTimeout(context.Background(), 10*time.Second)
		err = mux.RegisterConn(rctx, bcc)
		rcancel()
		if err != nil {
			ev.Crash = "setup: RegisterConn: " + err.Error()
			return
		}
	} else if err := larking.VerifRegisterService(mux, MakeServiceDesc(sds[0], un, st), struct{}{}); err != nil {
		ev.Crash = "setup: " + err.Error()
		return
	}
	srv, err := startSockServer(mux)
	if err != nil {
		ev.Crash = "setup: " + err.Error()
		return
	}
	defer srv.stop()
	name, path := methodOf(c.Shape)
	var doCancel func()
	switch c.Client {
	case "grpc-cancel", "grpc-deadline":
		cc, err := grpc.NewClient(srv.addr, grpc.WithTransportCredentials(insecure.NewCredentials()))
		if err != nil {
			ev.Crash = "dial: " + err.Error()
			return
		}
		defer cc.Close()
		ctx, cancel := context.WithCancel(context.Background())
		defer cancel()
		if c.Client == "grpc-deadline" {
			// the deadline is armed when the handler is in position (see below): use a cancel that mimics expiry
		}
		sd := &grpc.StreamDesc{ClientStreams: true, ServerStreams: true}
		cs, err := cc.NewStream(ctx, sd, "/vs.T/"+name)
		if err != nil {
			ev.Crash = "stream: " + err.Error()
			return
		}
		if c.Point != "blockedFirstRecv" {
			if err := cs.SendMsg(reqMsg(c.ID, 1, 3)); err != nil {
				ev.Crash = "send: " + err.Error()
				return
			}
		}
		if c.Shape == "unary" || c.Shape == "sstream" {
			cs.CloseSend()
		}
		doCancel = cancel
	default: // raw HTTP/1.1 connection that is closed mid-request
		conn, err := net.Dial("tcp", srv.addr)
		if err != nil {
			ev.Crash = "dial: " + err.Error()
			return
		}
		var body []byte
		ct := "application/json"
		target := path
		if c.Client == "grpcweb-disconnect" {
			ct = "application/grpc-web+proto"
			target = "/vs.T/" + name
			body = grpcFrame(marshalMsg("proto", reqMsg(c.ID, 1, 3)), false)
		} else {
			body = marshalMsg("json", reqMsg(c.ID, 1, 3))
		}
		// chunked body that never finishes for client streams; complete body otherwise
		var req bytes.Buffer
		fmt.Fprintf(&req, "POST %s HTTP/1.1\r\nHost: verif.test\r\nContent-Type: %s\r\n", target, ct)
		if (c.Shape == "cstream" || c.Shape == "bidi") && c.Point == "blockedFirstRecv" && c.Gzip {
			// whole messages, gzip-compressed; the stream breaks off in the gzip trailer (the deflate data is complete) or
			// inside the deflate data
			r := newRng(int64(c.ID), 77)
			var plain, zb bytes.Buffer
			for i := 1; i <= 1+r.Intn(3); i++ {
				plain.Write(marshalMsg("json", reqMsg(c.ID, i, 3+r.Intn(40))))
				plain.WriteByte('\n')
			}
			zw := gzip.NewWriter(&zb)
			zw.Write(plain.Bytes())
			zw.Close()
			cut := zb.Len() - 1 - r.Intn(8)
			if r.Intn(4) == 0 {
				cut = 10 + r.Intn(zb.Len()-18) // anywhere after the gzip header
			}
			fmt.Fprintf(&req, "Content-Encoding: gzip\r\nTransfer-Encoding: chunked\r\n\r\n%x\r\n", cut)
			req.Write(zb.Bytes()[:cut])
			req.WriteString("\r\n")
		} else if (c.Shape == "cstream" || c.Shape == "bidi") && c.Point == "blockedFirstRecv" {
			fmt.Fprintf(&req, "Transfer-Encoding: chunked\r\n\r\n") // headers only: no message yet
		} else if c.Shape == "cstream" || c.Shape == "bidi" {
			fmt.Fprintf(&req, "Transfer-Encoding: chunked\r\n\r\n%x\r\n", len(body))
			req.Write(body)
			req.WriteString("\r\n")
		} else if c.LateEnd {
			fmt.Fprintf(&req, "Transfer-Encoding: chunked\r\n\r\n%x\r\n", len(body))
			req.Write(body)
			req.WriteString("\r\n")
		} else {
			fmt.Fprintf(&req, "Content-Length: %d\r\n\r\n", len(body))
			req.Write(body)
		}
		if _, err := conn.Write(req.Bytes()); err != nil {
			ev.Crash = "write: " + err.Error()
			return
		}
		if c.LateEnd && !(c.Shape == "cstream" || c.Shape == "bidi") {
			time.Sleep(150 * time.Millisecond) // the handler has read its message by now
			conn.Write([]byte("0\r\n\r\n"))
		}
		if c.Point != "blockedSend" {
			go io.Copy(io.Discard, bufio.NewReader(conn)) // a reading client, except when the send side must fill up
		}
		doCancel = func() { conn.Close() }
	}
	// wait for the position, then cancel
	select {
	case <-inPos:
		ev.Reached = true
	case <-time.After(8 * time.Second):
		ev.Reached = false
	}
	if (c.Point == "blockedRecv" || c.Point == "blockedFirstRecv") && !(c.Shape == "cstream" || c.Shape == "bidi") {
		ev.Reached = false
	}
	if c.Point == "blockedSend" && !(c.Shape == "sstream" || c.Shape == "bidi") {
		ev.Reached = false
	}
	select {
	case <-ctxEnded:
		ev.DoneBefore = c.Point != "returned"
	default:
	}
	if c.Gzip {
		time.Sleep(100 * time.Millisecond) // the server has read what was sent and waits for the rest
	}
	t0 := time.Now()
	doCancel()
	select {
	case <-ctxEnded:
		ev.CtxDone = true
	case <-time.After(cancelWait):
	}
	if c.Point == "blockedRecv" || c.Point == "blockedSend" || c.Point == "blockedFirstRecv" {
		select {
		case err := <-released:
			ev.Released = true
			ev.RelErr = err != nil
			ev.RelEOF = err == io.EOF
		case <-time.After(cancelWait):
		}
	}
	if c.Point == "idleAfterSend" && ev.CtxDone {
		select {
		case err := <-released:
			ev.LateSend = "nil"
			if err != nil {
				ev.LateSend = "error"
			}
		case <-time.After(2 * time.Second):
		}
	}
	ev.Ms = time.Since(t0).Milliseconds()
	return ev
}

func init() { drivers["deadline"] = deadlineMain }

func deadlineMain(args []string) error {
	c := newCommon("deadline")
	c.fs.Parse(args)
	tw, err := newTraceWriter(c.out)
	if err != nil {
		return err
	}
	var tcs []TimeoutCase
	var ccs []CancelCase
	err = readLines(c.cases, func(b []byte) error {
		var probe struct {
			Fam string `json:"fam"`
		}
		json.Unmarshal(b, &probe)
		if probe.Fam == "cancel" {
			var cc CancelCase
			if err := json.Unmarshal(b, &cc); err != nil {
				return err
			}
			ccs = append(ccs, cc)
		} else {
			var tc TimeoutCase
			if err := json.Unmarshal(b, &tc); err != nil {
				return err
			}
			tcs = append(tcs, tc)
		}
		return nil
	})
	if err != nil {
		return err
	}
	var wg sync.WaitGroup
	tw1 := make(chan TimeoutCase, 64)
	for i := 0; i < 16; i++ {
		wg.Add(1)
		go func() {
			defer wg.Done()
			for tc := range tw1 {
				tw.Emit(runTimeoutCase(tc, c.seed))
			}
		}()
	}
	for _, tc := range tcs {
		tw1 <- tc
	}
	close(tw1)
	wg.Wait()
	cw := make(chan CancelCase, 64)
	for i := 0; i < 12; i++ {
		wg.Add(1)
		go func() {
			defer wg.Done()
			for cc := range cw {
				tw.Emit(runCancelCase(cc))
			}
		}()
	}
	for _, cc := range ccs {
		cw <- cc
	}
	close(cw)
	wg.Wait()
	fmt.Printf("deadline: timeouts=%d cancels=%d events=%d\n", len(tcs), len(ccs), tw.n)
	return tw.Close()
}
