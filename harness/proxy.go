package main

// Proxy driver (C10): every call script of Proxy.tla is executed twice with a real
// grpc-go client - directly against a scripted backend, and through larking with
// the backend registered by RegisterConn - and both transcripts are recorded.

import (
	"bytes"
	"context"
	"encoding/base64"
	"encoding/json"
	"fmt"
	"io"
	"net"
	"net/http/httptest"
	"strconv"
	"sync"
	"time"

	spb "google.golang.org/genproto/googleapis/rpc/status"
	"google.golang.org/grpc"
	"google.golang.org/grpc/codes"
	"google.golang.org/grpc/credentials/insecure"
	"google.golang.org/grpc/metadata"
	"google.golang.org/grpc/reflection"
	rpb "google.golang.org/grpc/reflection/grpc_reflection_v1alpha"
	"google.golang.org/grpc/status"
	"google.golang.org/grpc/test/bufconn"
	"google.golang.org/protobuf/encoding/protojson"
	"google.golang.org/protobuf/proto"
	"google.golang.org/protobuf/reflect/protoreflect"
	"google.golang.org/protobuf/types/dynamicpb"
	"google.golang.org/protobuf/types/known/anypb"
	"larking.io/larking"
)

type PScript struct {
	N      int    `json:"n"`
	ReadN  int    `json:"readN"`
	ReplyJ int    `json:"replyJ"`
	FailAt string `json:"failAt"`
	// concretisation
	ID    int    `json:"id"`
	Shape string `json:"shape"` // unary | cstream | sstream | bidi
	Code  int    `json:"code"`
	Det   int    `json:"det"`
	Wait  bool   `json:"wait"`  // the client reads the first reply before it sends anything (bidi)
	Gzip  bool   `json:"gzip"`  // the client (direct and through the front) compresses with gzip and so gets compressed replies
	RSize int    `json:"rsize"` // >0: replies carry this many incompressible bytes (the gzip form is larger than the message)
	QSize int    `json:"qsize"` // >0: client message QAt has exactly this encoded size (around the default 4 MiB receive limit)
	QAt   int    `json:"qat"`
	Mode  string `json:"mode"`  // batch | lockstep (bidi: send one, await its answer, ...; the backend echoes)
	FailK int    `json:"failK"` // lockstep: the backend fails instead of answering message FailK (0 = never)
	// schedule: the front's connection to the backend delays the first SendMsg of the call until the backend's handler
	// has returned and its trailers have had time to arrive (Proxy.tla FSendFirst with bpc = "done")
	SlowOpen bool `json:"slowopen"`
	// the text of the failing status: "" = the usual one (percent signs, non-ASCII), "empty" = no message at all,
	// "ascii" = plain words
	Msg string `json:"msg"`
}

type PView struct {
	Replies  []int  `json:"replies"`  // reply indexes the client received, in order (0 = unrecognised)
	Code     int    `json:"code"`     // final status code at the client
	MsgEqual bool   `json:"msgequal"` // status message equals the one the backend returned
	DetEqual bool   `json:"detequal"`
	BGot     []int  `json:"bgot"`   // client message indexes the backend received, in order
	BCalls   int    `json:"bcalls"` // backend handler invocations
	MDOK     bool   `json:"mdok"`   // the backend saw the client's request metadata
	Hang     bool   `json:"hang"`
	Err      string `json:"err"`
	// what the front's interceptors saw of this call (calls through larking only)
	ICalls int `json:"icalls"` // interceptor invocations
	IRecv  int `json:"irecv"`  // messages the stream interceptor's wrapping stream saw arrive
	ISend  int `json:"isend"`  // messages it saw leave
	ILate  int `json:"ilate"`  // calls on the interceptor's stream still in progress when its handler returned, or begun later
}
type ProxyEv struct {
	Ev      string  `json:"ev"`
	Case    int     `json:"case"`
	S       PScript `json:"s"`
	Direct  PView   `json:"direct"`
	Proxied PView   `json:"proxied"`
	HTTP    PView   `json:"http"` // the same script from an HTTP/JSON client on the front (implicit POST /pkg.Service/Method binding)
	HasHTTP bool    `json:"hashttp"`
	Crash   string  `json:"crash"`
}

type pbackend struct {
	srv *grpc.Server
	lis *bufconn.Listener
	mu  sync.Mutex
	rec map[string]*PView        // per call id
	ret map[string]chan struct{} // per call id: closed when the stream handler has returned
}

func (b *pbackend) retCh(id string) chan struct{} {
	b.mu.Lock()
	defer b.mu.Unlock()
	if b.ret[id] == nil {
		b.ret[id] = make(chan struct{})
	}
	return b.ret[id]
}

func proxyService() ServiceSpec {
	svc := testService()
	svc.Pkg, svc.Name = "vp", "P"
	return svc
}

// pReply is reply j of the script; pRequest client message i.
func pReply(s PScript, j int) *dynamicpb.Message {
	m := repMsg(s.ID, j, 3)
	if s.RSize > 0 {
		b := make([]byte, s.RSize)
		x := uint64(s.ID)*0x9E3779B97F4A7C15 + uint64(j)*0xBF58476D1CE4E5B9 + 7
		for i := range b {
			x ^= x << 13
			x ^= x >> 7
			x ^= x << 17
			b[i] = byte(x >> 24)
		}
		m.Set(repDesc().Fields().ByName("pad"), protoreflect.ValueOfBytes(b))
	}
	return m
}
func pRequest(s PScript, i int) *dynamicpb.Message {
	if s.QSize > 0 && i == s.QAt {
		return exactReq(s.ID, i, s.QSize, "proto")
	}
	return reqMsg(s.ID, i, 3)
}

func scriptStatus(s PScript) error {
	text := "backend says no: 50% ünï shelves%2Fscience 100%25 %zz"
	switch s.Msg {
	case "empty":
		text = ""
	case "ascii":
		text = "backend says no"
	}
	st := status.New(codes.Code(s.Code), text)
	if s.Det > 0 {
		p := st.Proto()
		for _, d := range detailsFor(s.Det) {
			a, _ := anypb.New(d)
			p.Details = append(p.Details, a)
		}
		st = status.FromProto(p)
	}
	return st.Err()
}

func newPBackend() (*pbackend, error) {
	files, sds, err := BuildFiles([]ServiceSpec{proxyService()})
	if err != nil {
		return nil, err
	}
	b := &pbackend{lis: bufconn.Listen(1 << 20), rec: map[string]*PView{}, ret: map[string]chan struct{}{}}
	b.srv = grpc.NewServer()
	view := func(ctx context.Context) (*PView, PScript) {
		md, _ := metadata.FromIncomingContext(ctx)
		var s PScript
		if v := md.Get("x-script"); len(v) > 0 {
			json.Unmarshal([]byte(v[0]), &s)
		}
		id := ""
		if v := md.Get("x-call"); len(v) > 0 {
			id = v[0]
		}
		b.mu.Lock()
		pv := b.rec[id]
		if pv == nil {
			pv = &PView{Replies: []int{}, BGot: []int{}}
			b.rec[id] = pv
		}
		pv.BCalls++
		bin := md.Get("x-blob-bin")
		pv.MDOK = len(md.Get("x-custom")) == 2 && md.Get("x-custom")[0] == "one" && md.Get("x-custom")[1] == "two" &&
			len(bin) == 1 && bin[0] == "\x00\xff\x10" &&
			// application keys that merely look like protocol keys travel like any other
			len(md.Get("grpc-tenant")) == 1 && md.Get("grpc-tenant")[0] == "t1" &&
			len(md.Get("grpc-trace-bin")) == 1 && md.Get("grpc-trace-bin")[0] == "\x01\x02"
		b.mu.Unlock()
		return pv, s
	}
	idx := func(m *dynamicpb.Message) int {
		var c, i int
		if _, err := fmt.Sscanf(m.Get(reqDesc().Fields().ByName("s")).String(), "c%d-m%d", &c, &i); err != nil {
			return 0
		}
		return i
	}
	un := func(ctx context.Context, full string, req *dynamicpb.Message) (proto.Message, error) {
		pv, s := view(ctx)
		b.mu.Lock()
		pv.BGot = append(pv.BGot, idx(req))
		b.mu.Unlock()
		if s.FailAt != "never" {
			return nil, scriptStatus(s)
		}
		return pReply(s, 1), nil
	}
	st := func(full string, md protoreflect.MethodDescriptor, ss grpc.ServerStream) error {
		pv, s := view(ss.Context())
		if s.SlowOpen {
			if imd, _ := metadata.FromIncomingContext(ss.Context()); len(imd.Get("x-call")) > 0 {
				defer close(b.retCh(imd.Get("x-call")[0]))
			}
		}
		if s.Mode == "lockstep" {
			for k := 1; ; k++ {
				m := dynamicpb.NewMessage(reqDesc())
				if err := ss.RecvMsg(m); err != nil {
					if err == io.EOF {
						return nil
					}
					return err
				}
				b.mu.Lock()
				pv.BGot = append(pv.BGot, idx(m))
				b.mu.Unlock()
				if k == s.FailK {
					return scriptStatus(s)
				}
				if err := ss.SendMsg(pReply(s, k)); err != nil {
					return err
				}
			}
		}
		if s.FailAt == "before" {
			return scriptStatus(s)
		}
		sawEOF := false
		recv := func() bool {
			m := dynamicpb.NewMessage(reqDesc())
			if err := ss.RecvMsg(m); err != nil {
				sawEOF = true
				return false
			}
			b.mu.Lock()
			pv.BGot = append(pv.BGot, idx(m))
			b.mu.Unlock()
			return true
		}
		for k := 0; s.ReadN == 99 || k < s.ReadN; k++ {
			if !recv() {
				break
			}
		}
		for j := 1; j <= s.ReplyJ; j++ {
			if err := ss.SendMsg(pReply(s, j)); err != nil {
				return err
			}
		}
		switch s.FailAt {
		case "afterReplies":
			return scriptStatus(s)
		case "afterEOF":
			for !sawEOF {
				recv()
			}
			return scriptStatus(s)
		}
		return nil
	}
	b.srv.RegisterService(MakeServiceDesc(sds[0], un, st), struct{}{})
	rpb.RegisterServerReflectionServer(b.srv, reflection.NewServer(reflection.ServerOptions{Services: b.srv, DescriptorResolver: fallbackResolver{files}}))
	go b.srv.Serve(b.lis)
	return b, nil
}

func (b *pbackend) dial(opts ...grpc.DialOption) (*grpc.ClientConn, error) {
	return grpc.NewClient("passthrough:///pbackend", append(opts,
		grpc.WithContextDialer(func(ctx context.Context, _ string) (net.Conn, error) { return b.lis.DialContext(ctx) }),
		grpc.WithTransportCredentials(insecure.NewCredentials()))...)
}

// slowOpen is a client interceptor for the connection larking forwards on: a call whose script says slowopen has its
// first SendMsg held back until the backend has ended the stream (a slow link between the proxy and the backend).
func (b *pbackend) slowOpen(ctx context.Context, desc *grpc.StreamDesc, cc *grpc.ClientConn, method string, streamer grpc.Streamer, opts ...grpc.CallOption) (grpc.ClientStream, error) {
	cs, err := streamer(ctx, desc, cc, method, opts...)
	if err != nil {
		return cs, err
	}
	md, _ := metadata.FromOutgoingContext(ctx)
	var s PScript
	if v := md.Get("x-script"); len(v) > 0 {
		json.Unmarshal([]byte(v[0]), &s)
	}
	if !s.SlowOpen || len(md.Get("x-call")) == 0 {
		return cs, nil
	}
	return &slowStream{ClientStream: cs, ret: b.retCh(md.Get("x-call")[0])}, nil
}

type slowStream struct {
	grpc.ClientStream
	ret  chan struct{}
	once sync.Once
}

func (s *slowStream) SendMsg(m interface{}) error {
	s.once.Do(func() {
		select {
		case <-s.ret:
			time.Sleep(30 * time.Millisecond) // the trailers travel
		case <-time.After(500 * time.Millisecond):
		}
	})
	return s.ClientStream.SendMsg(m)
}

// runCall performs the client side of the script on cc.
func runCall(cc *grpc.ClientConn, s PScript, callID string) PView {
	pv := PView{Replies: []int{}, BGot: []int{}}
	done := make(chan struct{})
	ctx, cancel := context.WithCancel(context.Background())
	defer cancel()
	go func() {
		defer close(done)
		sj, _ := json.Marshal(s)
		ctx := metadata.AppendToOutgoingContext(ctx, "x-script", string(sj), "x-call", callID, "x-custom", "one", "x-custom", "two", "x-blob-bin", "\x00\xff\x10",
			"grpc-tenant", "t1", "grpc-trace-bin", "\x01\x02")
		name, _ := methodOf(s.Shape)
		sd := &grpc.StreamDesc{ClientStreams: s.Shape == "cstream" || s.Shape == "bidi", ServerStreams: s.Shape == "sstream" || s.Shape == "bidi"}
		var copts []grpc.CallOption
		if s.Gzip {
			copts = append(copts, grpc.UseCompressor("gzip"))
		} else if s.ID%3 == 0 {
			// a client that names the identity encoding explicitly (grpc-encoding: identity): same call, nothing compressed
			copts = append(copts, grpc.UseCompressor("identity"))
		}
		cs, err := cc.NewStream(ctx, sd, "/vp.P/"+name, copts...)
		if err != nil {
			pv.Err = "NewStream: " + err.Error()
			pv.Code = int(status.Code(err))
			return
		}
		readOne := func() bool {
			m := dynamicpb.NewMessage(repDesc())
			err := cs.RecvMsg(m)
			if err == io.EOF {
				pv.Code = 0
				pv.MsgEqual, pv.DetEqual = true, true
				return false
			}
			if err != nil {
				st := status.Convert(err)
				pv.Code = int(st.Code())
				want := status.Convert(scriptStatus(s))
				pv.MsgEqual = st.Message() == want.Message()
				_, pv.DetEqual = checkDetails(st.Proto(), s.Det)
				return false
			}
			var c, j int
			if _, err := fmt.Sscanf(m.Get(repDesc().Fields().ByName("id")).String(), "h%d-r%d", &c, &j); err != nil || !proto.Equal(m, pReply(s, j)) {
				j = 0
			}
			pv.Replies = append(pv.Replies, j)
			return true
		}
		more := true
		if s.Wait {
			more = readOne()
		}
		for i := 1; i <= s.N && more; i++ {
			if err := cs.SendMsg(pRequest(s, i)); err != nil {
				break // the call has ended: the status comes from RecvMsg
			}
			if s.Mode == "lockstep" {
				more = readOne() // the answer to message i, with the send side still open
			}
		}
		cs.CloseSend()
		for more {
			more = readOne()
		}
	}()
	select {
	case <-done:
	case <-time.After(4 * time.Second):
		pv.Hang = true
		cancel()
		<-done
	}
	return pv
}

type iseen struct {
	calls, recv, send int
	busyAtReturn      int          // stream calls of the forwarder still in progress when it returned to the interceptor
	ws                *watchStream // (its late counter is read when the call's views are merged)
}

type proxyWorld struct {
	imu    sync.Mutex
	iseen  map[string]*iseen
	mux    *larking.Mux
	b      *pbackend
	direct *grpc.ClientConn
	front  *sockServer
	viaCC  *grpc.ClientConn
	regCC  *grpc.ClientConn
}

func newProxyWorld() (*proxyWorld, error) {
	b, err := newPBackend()
	if err != nil {
		return nil, err
	}
	w := &proxyWorld{b: b}
	if w.direct, err = b.dial(); err != nil {
		return nil, err
	}
	if w.regCC, err = b.dial(grpc.WithStreamInterceptor(b.slowOpen)); err != nil {
		return nil, err
	}
	// interceptors that do what interceptors usually do: look at the call and pass a wrapping stream on
	w.iseen = map[string]*iseen{}
	note := func(ctx context.Context) *iseen {
		md, _ := metadata.FromIncomingContext(ctx)
		id := ""
		if v := md.Get("x-call"); len(v) > 0 {
			id = v[0]
		}
		w.imu.Lock()
		defer w.imu.Unlock()
		if w.iseen[id] == nil {
			w.iseen[id] = &iseen{}
		}
		w.iseen[id].calls++
		return w.iseen[id]
	}
	mux, err := larking.NewMux(
		larking.UnaryServerInterceptorOption(func(ctx context.Context, req interface{}, info *grpc.UnaryServerInfo, h grpc.UnaryHandler) (interface{}, error) {
			note(ctx)
			return h(ctx, req)
		}),
		larking.StreamServerInterceptorOption(func(srv interface{}, ss grpc.ServerStream, info *grpc.StreamServerInfo, h grpc.StreamHandler) error {
			is := note(ss.Context())
			ws := &watchStream{ServerStream: ss}
			err := h(srv, ws)
			w.imu.Lock()
			is.busyAtReturn, is.ws = ws.handlerReturned(), ws
			is.recv, is.send = int(ws.nrecv.Load()), int(ws.nsend.Load())
			w.imu.Unlock()
			return err
		}))
	if err != nil {
		return nil, err
	}
	ctx, cancel := context.WithTimeout(context.Background(), 10*time.Second)
	defer cancel()
	if err := mux.RegisterConn(ctx, w.regCC); err != nil {
		return nil, fmt.Errorf("RegisterConn: %w", err)
	}
	w.mux = mux
	if w.front, err = startSockServer(mux); err != nil {
		return nil, err
	}
	if w.viaCC, err = grpc.NewClient(w.front.addr, grpc.WithTransportCredentials(insecure.NewCredentials())); err != nil {
		return nil, err
	}
	return w, nil
}

func (w *proxyWorld) close() {
	w.direct.Close()
	w.viaCC.Close()
	w.regCC.Close()
	w.front.stop()
	w.b.srv.Stop()
}

func (w *proxyWorld) run(s PScript) ProxyEv {
	ev := ProxyEv{Ev: "Proxy", Case: s.ID, S: s, HTTP: PView{Replies: []int{}, BGot: []int{}}}
	merge := func(pv PView, id string) PView {
		w.b.mu.Lock()
		if r := w.b.rec[id]; r != nil {
			pv.BGot, pv.BCalls, pv.MDOK = append([]int{}, r.BGot...), r.BCalls, r.MDOK
		}
		w.b.mu.Unlock()
		w.imu.Lock()
		if is := w.iseen[id]; is != nil {
			pv.ICalls, pv.IRecv, pv.ISend = is.calls, is.recv, is.send
			pv.ILate = is.busyAtReturn
			if is.ws != nil {
				pv.ILate += int(is.ws.late.Load())
			}
		}
		w.imu.Unlock()
		return pv
	}
	func() {
		defer func() {
			if p := recover(); p != nil {
				ev.Crash = fmt.Sprint(p)
			}
		}()
		d := "d" + strconv.Itoa(s.ID)
		ev.Direct = merge(runCall(w.direct, s, d), d)
		p := "p" + strconv.Itoa(s.ID)
		ev.Proxied = merge(runCall(w.viaCC, s, p), p)
		h := "h" + strconv.Itoa(s.ID)
		if !s.Wait && s.QSize == 0 { // (a 4 MiB protobuf message is larger than the limit as JSON: not comparable)
			ev.HasHTTP = true
			ev.HTTP = runHTTPCall(w.mux, s, h)
		}
		// the backend may still be draining after the client saw the status: give it a moment and re-read
		time.Sleep(20 * time.Millisecond)
		ev.Direct = merge(ev.Direct, d)
		ev.Proxied = merge(ev.Proxied, p)
		if ev.HasHTTP {
			ev.HTTP = merge(ev.HTTP, h)
		}
	}()
	return ev
}

// runHTTPCall sends the script's messages as one HTTP/JSON request through the front and reads the body as a
// stream of JSON values: replies, and a google.rpc.Status if the call failed.
func runHTTPCall(mux *larking.Mux, s PScript, callID string) PView {
	pv := PView{Replies: []int{}, BGot: []int{}}
	name, _ := methodOf(s.Shape)
	var body bytes.Buffer
	for i := 1; i <= s.N; i++ {
		body.Write(marshalMsg("json", pRequest(s, i)))
		body.WriteByte('\n')
	}
	req := httptest.NewRequest("POST", "http://verif.test/vp.P/"+name, bytes.NewReader(body.Bytes()))
	req.Header.Set("Content-Type", "application/json")
	sj, _ := json.Marshal(s)
	req.Header.Set("X-Script", string(sj))
	req.Header.Set("X-Call", callID)
	req.Header["X-Custom"] = []string{"one", "two"}
	req.Header.Set("X-Blob-Bin", base64.RawStdEncoding.EncodeToString([]byte("\x00\xff\x10")))
	// what HTTP/1.1 clients and intermediaries send along: hop-by-hop headers must not travel on to an HTTP/2 backend
	req.Header.Set("Connection", "keep-alive")
	req.Header.Set("Keep-Alive", "timeout=5")
	req.Header.Set("Grpc-Tenant", "t1")
	req.Header.Set("Grpc-Trace-Bin", base64.StdEncoding.EncodeToString([]byte("\x01\x02"))) // padded, as most HTTP clients write it
	w := httptest.NewRecorder()
	done := make(chan struct{})
	go func() {
		defer close(done)
		defer func() {
			if p := recover(); p != nil {
				pv.Err = fmt.Sprint("panic: ", p)
			}
		}()
		mux.ServeHTTP(w, req)
	}()
	select {
	case <-done:
	case <-time.After(4 * time.Second):
		pv.Hang = true
		return pv
	}
	pv.MsgEqual, pv.DetEqual = true, true
	dec := json.NewDecoder(bytes.NewReader(w.Body.Bytes()))
	sawStatus := false
	for {
		var raw json.RawMessage
		if err := dec.Decode(&raw); err != nil {
			if err != io.EOF {
				pv.Err = "body: " + err.Error()
			}
			break
		}
		var probe map[string]json.RawMessage
		json.Unmarshal(raw, &probe)
		if _, isStatus := probe["code"]; isStatus && probe["id"] == nil {
			var st spb.Status
			if err := protojson.Unmarshal(raw, &st); err != nil {
				pv.Err = "status: " + err.Error()
				break
			}
			sawStatus = true
			pv.Code = int(st.Code)
			want := status.Convert(scriptStatus(s))
			pv.MsgEqual = st.Message == want.Message()
			_, pv.DetEqual = checkDetails(&st, s.Det)
			continue
		}
		m := dynamicpb.NewMessage(repDesc())
		j := 0
		if err := protojson.Unmarshal(raw, m); err == nil {
			var c int
			if _, err := fmt.Sscanf(m.Get(repDesc().Fields().ByName("id")).String(), "h%d-r%d", &c, &j); err != nil || !proto.Equal(m, pReply(s, j)) {
				j = 0
			}
		}
		pv.Replies = append(pv.Replies, j)
	}
	if !sawStatus && w.Code != 200 {
		pv.Code = -w.Code // an error status without a status body
	}
	return pv
}

func init() { drivers["proxy"] = proxyMain }

func proxyMain(args []string) error {
	c := newCommon("proxy")
	c.fs.Parse(args)
	tw, err := newTraceWriter(c.out)
	if err != nil {
		return err
	}
	var scripts []PScript
	err = readLines(c.cases, func(b []byte) error {
		var s PScript
		if err := json.Unmarshal(b, &s); err != nil {
			return err
		}
		scripts = append(scripts, s)
		return nil
	})
	if err != nil {
		return err
	}
	work := make(chan PScript, 64)
	var wg sync.WaitGroup
	var setupErr error
	var mu sync.Mutex
	for i := 0; i < 8; i++ {
		wg.Add(1)
		go func() {
			defer wg.Done()
			w, err := newProxyWorld()
			if err != nil {
				mu.Lock()
				setupErr = err
				mu.Unlock()
				for range work {
				}
				return
			}
			defer w.close()
			for s := range work {
				tw.Emit(w.run(s))
			}
		}()
	}
	for _, s := range scripts {
		work <- s
	}
	close(work)
	wg.Wait()
	if setupErr != nil {
		return setupErr
	}
	fmt.Printf("proxy: scripts=%d events=%d\n", len(scripts), tw.n)
	return tw.Close()
}
