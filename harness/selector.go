package main

// Selector driver (C19): service-config selectors against method names, and the
// healthz scenario (health.AddHealthz + the real grpc health server).

import (
	"bufio"
	"context"
	"encoding/json"
	"fmt"
	"io"
	"log"
	"net"
	"net/http"
	"net/http/httptest"
	"net/url"
	"runtime"
	"strings"
	"sync"
	"time"

	"google.golang.org/genproto/googleapis/api/annotations"
	"google.golang.org/genproto/googleapis/api/serviceconfig"
	"google.golang.org/grpc"
	"google.golang.org/grpc/credentials/insecure"
	ghealth "google.golang.org/grpc/health"
	healthpb "google.golang.org/grpc/health/grpc_health_v1"
	"google.golang.org/grpc/reflection"
	rpb "google.golang.org/grpc/reflection/grpc_reflection_v1alpha"
	"google.golang.org/grpc/test/bufconn"
	"google.golang.org/protobuf/encoding/protojson"
	"google.golang.org/protobuf/proto"
	"google.golang.org/protobuf/reflect/protoreflect"
	"google.golang.org/protobuf/reflect/protoregistry"
	"google.golang.org/protobuf/types/dynamicpb"
	"larking.io/health"
	"larking.io/larking"
)

type ASel struct {
	Path []string `json:"path"`
	Wild bool     `json:"wild"`
}
type SelCase struct {
	ID   int    `json:"id"`
	Sels []ASel `json:"sels"`
}
type SelEv struct {
	Ev     string   `json:"ev"`
	Case   int      `json:"case"`
	Target []string `json:"target"`
	Sels   []ASel   `json:"sels"`
	Bound  []bool   `json:"bound"`
	Out    string   `json:"out"`
	Err    string   `json:"err"`
	Orig   []ASel   `json:"orig"` // the case as given (for replay, with the case id)
	V      int      `json:"v"`    // how the method was registered (runSelCaseV)
}

var selTargets = [][]string{
	{"pa", "S", "Get"}, {"pa", "SX", "Get"}, {"pb", "S", "Get"},
	{"pa", "sub", "S", "Get"}, {"pa", "T", "GetX"}, {"pa", "T2", "Get"},
}

func selText(s ASel) string {
	t := strings.Join(s.Path, ".")
	if s.Wild {
		if t == "" {
			return "*"
		}
		return t + ".*"
	}
	return t
}

func runSelCase(c SelCase, target []string) (ev SelEv) { return runSelCaseV(c, target, 0) }

// runSelCaseV: v picks how the method gets there - annotated on the template of one of the configured rules (with
// another variable, so that whose binding answers can be told), options in the other order, or through a backend
// connection whose descriptors are known from its reflection service only.
func runSelCaseV(c SelCase, target []string, v int) (ev SelEv) {
	annot, mode := v%2 == 1, (v/2)%3
	// every other selector is configured a second time with another pattern: a selector may carry several rules
	// and each of them is bound on its own
	orig := c.Sels
	sels := append([]ASel{}, c.Sels...)
	for k, s := range c.Sels {
		if (c.ID+k)%2 == 0 {
			sels = append(sels, s)
		}
	}
	c.Sels = sels
	ev = SelEv{Ev: "Sel", Case: c.ID, Target: target, Sels: c.Sels, Bound: make([]bool, len(c.Sels)), Out: "ok", Orig: orig, V: v}
	for i := range ev.Sels {
		if ev.Sels[i].Path == nil {
			ev.Sels[i].Path = []string{}
		}
	}
	defer func() {
		if p := recover(); p != nil {
			ev.Out, ev.Err = "panic", fmt.Sprint(p)
		}
	}()
	cfg := &serviceconfig.Service{Http: &annotations.Http{}}
	for k, s := range c.Sels {
		r := httpRule("GET", fmt.Sprintf("/sel%d/{s}", k))
		r.Selector = selText(s)
		cfg.Http.Rules = append(cfg.Http.Rules, r)
	}
	n := len(target)
	svc := ServiceSpec{Pkg: strings.Join(target[:n-2], "."), Name: target[n-2], Methods: []MethodSpec{{Name: target[n-1]}}}
	if annot && len(c.Sels) > 0 {
		svc.Methods[0].Rule = httpRule("GET", fmt.Sprintf("/sel%d/{t}", c.ID%len(c.Sels)))
	}
	files, sds, err := BuildFiles([]ServiceSpec{svc})
	if err != nil {
		ev.Out, ev.Err = "schema", err.Error()
		return
	}
	var mux *larking.Mux
	switch mode {
	case 0:
		mux, err = larking.NewMux(larking.FilesOption(files), larking.ServiceConfigOption(cfg))
	case 1:
		mux, err = larking.NewMux(larking.ServiceConfigOption(cfg), larking.FilesOption(files))
	default:
		mux, err = larking.NewMux(larking.ServiceConfigOption(cfg)) // the descriptors come from the backend
	}
	if err != nil {
		ev.Out, ev.Err = "schema", err.Error()
		return
	}
	rm := &rmux{mux: mux}
	un := func(ctx context.Context, full string, req *dynamicpb.Message) (proto.Message, error) {
		o := &ROut{K: "dispatch", M: full, Caps: []Cap{}}
		leaves(req, nil, &o.Caps)
		rm.mu.Lock()
		rm.last = o
		rm.mu.Unlock()
		rep := dynamicpb.NewMessage(repDesc())
		rep.Set(repDesc().Fields().ByName("id"), protoreflect.ValueOfString(full))
		return rep, nil
	}
	if mode == 2 {
		lis := bufconn.Listen(1 << 16)
		gs := grpc.NewServer()
		gs.RegisterService(MakeServiceDesc(sds[0], un, nil), struct{}{})
		rpbRegister(gs, files)
		go gs.Serve(lis)
		defer gs.Stop()
		cc, err := grpc.NewClient("passthrough:///sel", grpc.WithContextDialer(func(ctx context.Context, _ string) (net.Conn, error) { return lis.DialContext(ctx) }),
			grpc.WithTransportCredentials(insecure.NewCredentials()))
		if err != nil {
			ev.Out, ev.Err = "schema", err.Error()
			return
		}
		defer cc.Close()
		ctx, cancel := context.WithTimeout(context.Background(), 10*time.Second)
		err = mux.RegisterConn(ctx, cc)
		cancel()
		if err != nil {
			ev.Out, ev.Err = "regerror", err.Error()
			return
		}
	} else if err := larking.VerifRegisterService(mux, MakeServiceDesc(sds[0], un, nil), struct{}{}); err != nil {
		ev.Out, ev.Err = "regerror", err.Error()
		return
	}
	full := "/" + svc.FullName() + "/" + target[n-1]
	for k := range c.Sels {
		o := rm.lookup("GET", fmt.Sprintf("/sel%d/x", k))
		// bound: the request reaches the method with the variable mapped as the configured rule says (field s; the
		// annotation on the same template would fill field t)
		ev.Bound[k] = o.K == "dispatch" && o.M == full && o.Status == 200 && len(o.Caps) == 1 && strings.Join(o.Caps[0].Fp, ".") == "s"
	}
	return
}

type HEv struct {
	Ev      string `json:"ev"`
	Case    int    `json:"case"`
	Service string `json:"service"`
	Status  string `json:"status"`
	HTTP    int    `json:"http"`
}

func runHealthz(id int, seed int64, steps int) []interface{} {
	r := newRng(seed, id, 991)
	// three ways the health service gets there: registered locally; locally next to a rule of the user's own for a health
	// method (AddHealthz must still add its rules); through two backend connections one of which is dropped half way
	variant := id % 3
	sc := &serviceconfig.Service{}
	ownPath := ""
	if variant == 1 {
		sc.Http = &annotations.Http{}
		if id%2 == 0 {
			own := httpRule("GET", "/livez")
			own.Selector = "grpc.health.v1.Health.Check"
			sc.Http.Rules = append(sc.Http.Rules, own)
			ownPath = "/livez"
		} else {
			own := httpRule("GET", "/v1/health:watch")
			own.Selector = "grpc.health.v1.Health.Watch"
			sc.Http.Rules = append(sc.Http.Rules, own)
		}
	}
	// the option may be built before the configuration is complete: what counts is the configuration NewMux is given
	var scOpt larking.MuxOption
	if id%4 >= 2 {
		scOpt = larking.ServiceConfigOption(sc)
		health.AddHealthz(sc)
	} else {
		health.AddHealthz(sc)
		scOpt = larking.ServiceConfigOption(sc)
	}
	mux, err := larking.NewMux(scOpt)
	if err != nil {
		panic(err)
	}
	hs := ghealth.NewServer()
	if id%2 == 1 {
		hs = health.NewServer() // larking's own constructor of the health server: nothing set but the overall status
	}
	var dropAt int = -1
	var conns []*grpc.ClientConn
	if variant == 2 {
		for k := 0; k < 2; k++ {
			lis := bufconn.Listen(1 << 16)
			gs := grpc.NewServer()
			healthpb.RegisterHealthServer(gs, hs) // both backends answer from the same health server
			reflection.Register(gs)
			go gs.Serve(lis)
			defer gs.Stop()
			cc, err := grpc.NewClient("passthrough:///h", grpc.WithContextDialer(func(ctx context.Context, _ string) (net.Conn, error) { return lis.DialContext(ctx) }),
				grpc.WithTransportCredentials(insecure.NewCredentials()))
			if err != nil {
				panic(err)
			}
			defer cc.Close()
			ctx, cancel := context.WithTimeout(context.Background(), 10*time.Second)
			err = mux.RegisterConn(ctx, cc)
			cancel()
			if err != nil {
				panic(err)
			}
			conns = append(conns, cc)
		}
		dropAt = steps / 3
	} else if err := larking.VerifRegisterService(mux, &healthpb.Health_ServiceDesc, hs); err != nil {
		panic(err)
	}
	evs := []interface{}{HEv{Ev: "HReset", Case: id}}
	services := []string{"", "svc.A", "svc.B", "a/b c", "grpc.health.v1.Health", "grpc.health.v1.Health.Check"}
	statuses := []healthpb.HealthCheckResponse_ServingStatus{
		healthpb.HealthCheckResponse_SERVING, healthpb.HealthCheckResponse_NOT_SERVING,
		healthpb.HealthCheckResponse_UNKNOWN, healthpb.HealthCheckResponse_SERVICE_UNKNOWN,
	}
	var srv *httptest.Server
	defer func() {
		if srv != nil {
			srv.Close()
		}
	}()
	watches := 0
	for i := 0; i < steps; i++ {
		if i == dropAt {
			mux.DropConn(context.Background(), conns[r.Intn(2)]) // the other backend keeps the routes alive
		}
		if r.Intn(6) == 0 && watches < 6 {
			// Watch over a WebSocket session: the first frame is the current status of the service named in the query
			watches++
			if srv == nil {
				srv = httptest.NewUnstartedServer(mux)
				srv.Config.ErrorLog = log.New(io.Discard, "", 0)
				srv.Start()
			}
			s := append(services[:3:3], "nope")[r.Intn(4)]
			ev := HEv{Ev: "HWatch", Case: id, Service: s}
			target := "/v1/healthz"
			if s != "" || r.Bool() {
				target += "?service=" + url.QueryEscape(s)
			}
			if conn, err := net.DialTimeout("tcp", srv.Listener.Addr().String(), 5*time.Second); err == nil {
				conn.SetDeadline(time.Now().Add(5 * time.Second))
				fmt.Fprintf(conn, "GET %s HTTP/1.1\r\nHost: verif.test\r\nUpgrade: websocket\r\nConnection: Upgrade\r\nSec-WebSocket-Key: dGhlIHNhbXBsZSBub25jZQ==\r\nSec-WebSocket-Version: 13\r\n\r\n", target)
				br := bufio.NewReader(conn)
				if res, err := http.ReadResponse(br, nil); err == nil {
					ev.HTTP = res.StatusCode
					if res.StatusCode == 101 {
						hd := make([]byte, 2)
						if _, err := io.ReadFull(br, hd); err == nil && hd[0]&0x0f == 1 && hd[1] < 126 {
							p := make([]byte, int(hd[1]))
							if _, err := io.ReadFull(br, p); err == nil {
								var rsp healthpb.HealthCheckResponse
								if err := protojson.Unmarshal(p, &rsp); err != nil {
									ev.Status = "undecodable: " + err.Error()
								} else {
									ev.Status = rsp.Status.String()
								}
							}
						} else {
							rest := make([]byte, int(hd[1]&0x7f))
							io.ReadFull(br, rest)
							ev.Status = fmt.Sprintf("no text frame (%v, % x) %q", err, hd, rest)
						}
					}
				}
				conn.Close()
			} else {
				ev.Status = "infra: " + err.Error()
			}
			evs = append(evs, ev)
			continue
		}
		if r.Intn(3) == 0 {
			s, st := services[r.Intn(len(services))], statuses[r.Intn(len(statuses))]
			hs.SetServingStatus(s, st)
			evs = append(evs, HEv{Ev: "HSet", Case: id, Service: s, Status: st.String()})
			continue
		}
		s := append(services, "nope")[r.Intn(len(services)+1)]
		hpath := "/v1/healthz"
		if ownPath != "" && r.Intn(3) == 0 {
			hpath = ownPath // the user's own binding of Check works next to healthz
		}
		req := httptest.NewRequest("GET", "http://verif.test"+hpath, nil)
		q := url.Values{}
		if s != "" || r.Bool() {
			q.Set("service", s)
		}
		req.URL.RawQuery = q.Encode()
		w := httptest.NewRecorder()
		mux.ServeHTTP(w, req)
		ev := HEv{Ev: "HCheck", Case: id, Service: s, HTTP: w.Code, Status: ""}
		if w.Code == 200 {
			var rsp healthpb.HealthCheckResponse
			if err := protojson.Unmarshal(w.Body.Bytes(), &rsp); err != nil {
				ev.Status = "undecodable: " + err.Error()
			} else {
				ev.Status = rsp.Status.String()
			}
		}
		evs = append(evs, ev)
	}
	return evs
}

func init() { drivers["selector"] = selectorMain }

func selectorMain(args []string) error {
	c := newCommon("selector")
	c.fs.Parse(args)
	tw, err := newTraceWriter(c.out)
	if err != nil {
		return err
	}
	var cases []SelCase
	err = readLines(c.cases, func(b []byte) error {
		var sc SelCase
		if err := json.Unmarshal(b, &sc); err != nil {
			return err
		}
		if sc.ID == 0 { // (a replayed case brings its id: the variants are drawn from it)
			sc.ID = len(cases) + 1
		}
		cases = append(cases, sc)
		return nil
	})
	if err != nil {
		return err
	}
	work := make(chan SelCase, 64)
	var wg sync.WaitGroup
	for i := 0; i < runtime.NumCPU(); i++ {
		wg.Add(1)
		go func() {
			defer wg.Done()
			for sc := range work {
				for ti, t := range selTargets {
					ev := runSelCaseV(sc, t, (sc.ID*5+ti)%6)
					if ev.Out != "schema" {
						tw.Emit(ev)
					}
				}
			}
		}()
	}
	for _, sc := range cases {
		work <- sc
	}
	close(work)
	wg.Wait()
	for i := 0; i < c.n; i++ {
		tw.EmitAll(runHealthz(1000000+i, c.seed, 40))
	}
	fmt.Printf("selector: cases=%d events=%d\n", len(cases), tw.n)
	return tw.Close()
}

// rpbRegister exposes the server's services through reflection, resolving descriptors in files (then globally).
func rpbRegister(gs *grpc.Server, files *protoregistry.Files) {
	rpb.RegisterServerReflectionServer(gs, reflection.NewServer(reflection.ServerOptions{Services: gs, DescriptorResolver: fallbackResolver{files}}))
}
