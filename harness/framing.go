package main

// Framing driver (C17): streams generated from Framing.tla are written with the
// real WriteNext (where the prefix is the canonical one) and read back with
// repeated real ReadNext calls from a scripted fragmenting reader, for every
// composition of the wire into reads (short streams) or sampled ones (long).

import (
	"bytes"
	"encoding/json"
	"fmt"
	"io"
	"runtime"
	"sync"

	"larking.io/larking"
)

type FFrame struct {
	Pre  []int `json:"pre"`
	Body []int `json:"body"`
}
type FStream struct {
	Codec  string   `json:"codec"`
	Limit  int      `json:"limit"`
	Frames []FFrame `json:"frames"`
	Cut    int      `json:"cut"`
}
type FStreamEv struct {
	Ev      string   `json:"ev"`
	Case    int      `json:"case"`
	Codec   string   `json:"codec"`
	Limit   int      `json:"limit"`
	Frames  []FFrame `json:"frames"`
	Cut     int      `json:"cut"`
	Wrote   []int    `json:"wrote"`
	Minimal bool     `json:"minimal"`
}
type FCallEv struct {
	Ev    string  `json:"ev"`
	Case  int     `json:"case"`
	Carry []int   `json:"carry"`
	Reads [][]int `json:"reads"` // [k, eof(0/1)]
	Res   string  `json:"res"`
	N     int     `json:"n"`
	Msg   []int   `json:"msg"`
	Rest  []int   `json:"rest"`
	Err   string  `json:"err"`
}

func ints(b []byte) []int {
	out := make([]int, len(b))
	for i, x := range b {
		out[i] = int(x)
	}
	return out
}
func bytesOf(xs []int) []byte {
	out := make([]byte, len(xs))
	for i, x := range xs {
		out[i] = byte(x)
	}
	return out
}

// schedReader hands out the wire in the scheduled chunk sizes; the last chunk
// may come together with io.EOF.
type schedReader struct {
	wire    []byte
	pos     int
	sched   []int
	si      int
	eofWith bool
	left    int // rest of the current scheduled chunk
	log     [][]int
}

func (r *schedReader) Read(p []byte) (int, error) {
	if r.pos >= len(r.wire) {
		r.log = append(r.log, []int{0, 1})
		return 0, io.EOF
	}
	if len(p) == 0 {
		return 0, nil
	}
	if r.left == 0 {
		if r.si < len(r.sched) {
			r.left = r.sched[r.si]
			r.si++
		} else {
			r.left = len(r.wire) - r.pos
		}
	}
	k := r.left
	if k > len(p) {
		k = len(p)
	}
	if k > len(r.wire)-r.pos {
		k = len(r.wire) - r.pos
	}
	copy(p, r.wire[r.pos:r.pos+k])
	r.pos += k
	r.left -= k
	if r.pos == len(r.wire) && r.eofWith {
		r.log = append(r.log, []int{k, 1})
		return k, io.EOF
	}
	r.log = append(r.log, []int{k, 0})
	return k, nil
}

func codecByName(name string) larking.StreamCodec {
	switch name {
	case "proto":
		return larking.CodecProto{}
	case "json":
		return larking.CodecJSON{}
	default:
		return larking.VerifHTTPBodyCodec()
	}
}

// runSchedule performs the repeated ReadNext calls for one schedule.
func runSchedule(id int, s FStream, wire []byte, sched []int, eofWith bool, spare int) []interface{} {
	codec := codecByName(s.Codec)
	rd := &schedReader{wire: wire, sched: sched, eofWith: eofWith}
	var evs []interface{}
	buf := make([]byte, 0, spare)
	for calls := 0; calls < len(s.Frames)+len(wire)+3; calls++ {
		ev := FCallEv{Ev: "Call", Case: id, Carry: ints(buf)}
		rd.log = nil
		var dst []byte
		var n int
		var err error
		func() {
			defer func() {
				if p := recover(); p != nil {
					ev.Res, ev.Err = "panic", fmt.Sprint(p)
				}
			}()
			dst, n, err = codec.ReadNext(buf, rd, s.Limit)
		}()
		ev.Reads = rd.log
		if ev.Reads == nil {
			ev.Reads = [][]int{}
		}
		ev.N = n
		ev.Msg, ev.Rest = []int{}, []int{}
		switch {
		case ev.Res == "panic":
		case n < 0 || n > len(dst):
			ev.Res = "badn"
			if err != nil {
				ev.Err = err.Error()
			}
		case err == nil:
			ev.Res = "msg"
		case err == io.EOF && n == 0:
			ev.Res = "eof"
		case err == io.EOF:
			ev.Res = "last"
		default:
			ev.Res, ev.Err = "error", err.Error()
		}
		if ev.Res == "msg" || ev.Res == "last" {
			ev.Msg = ints(dst[:n])
			ev.Rest = ints(dst[n:])
		}
		evs = append(evs, ev)
		if ev.Res != "msg" {
			break
		}
		// the caller keeps dst[n:] for the next call (as streamHTTP.readMsg does)
		nb := make([]byte, len(dst)-n, len(dst)-n+spare)
		copy(nb, dst[n:])
		buf = nb
	}
	return evs
}

func compositions(n int, fn func([]int)) {
	var cur []int
	var rec func(rem int)
	rec = func(rem int) {
		if rem == 0 {
			fn(cur)
			return
		}
		for k := 1; k <= rem; k++ {
			cur = append(cur, k)
			rec(rem - k)
			cur = cur[:len(cur)-1]
		}
	}
	rec(n)
}

func runFramingStream(id *int, idmu *sync.Mutex, s FStream, seed int64, exhaustiveMax int, samples int, tw *traceWriter) {
	var enc []byte
	minimal := true
	var wrote bytes.Buffer
	codec := codecByName(s.Codec)
	for _, f := range s.Frames {
		enc = append(enc, bytesOf(f.Pre)...)
		enc = append(enc, bytesOf(f.Body)...)
		if s.Codec == "proto" && !(len(f.Pre) == 1 || (len(f.Body) >= 128 && len(f.Pre) == 2 && f.Pre[0] >= 128)) {
			minimal = false
		}
	}
	if minimal {
		for _, f := range s.Frames {
			if _, err := codec.WriteNext(&wrote, bytesOf(f.Body)); err != nil {
				minimal = false
			}
		}
	}
	cut := s.Cut
	if cut > len(enc) {
		cut = len(enc)
	}
	wire := enc[:cut]
	emit := func(sched []int, eofWith bool, spare int) {
		idmu.Lock()
		*id++
		cid := *id
		idmu.Unlock()
		frames := s.Frames
		if frames == nil {
			frames = []FFrame{}
		}
		for i := range frames {
			if frames[i].Pre == nil {
				frames[i].Pre = []int{}
			}
			if frames[i].Body == nil {
				frames[i].Body = []int{}
			}
		}
		evs := []interface{}{FStreamEv{Ev: "Stream", Case: cid, Codec: s.Codec, Limit: s.Limit, Frames: frames, Cut: cut,
			Wrote: ints(wrote.Bytes()), Minimal: minimal}}
		evs = append(evs, runSchedule(cid, s, wire, sched, eofWith, spare)...)
		tw.EmitAll(evs)
	}
	r := newRng(seed, len(wire), s.Limit, len(s.Frames))
	// capacities of the buffer handed in: none, tiny, and those of recycled buffers (a pooled buffer that earlier, larger
	// messages have grown)
	spares := []int{0, 1, 3, 64, 1024, 1376, 4096}
	if len(wire) <= exhaustiveMax {
		compositions(len(wire), func(c []int) {
			sched := append([]int{}, c...)
			emit(sched, false, spares[r.Intn(len(spares))])
			emit(sched, true, spares[r.Intn(len(spares))])
		})
		if len(wire) == 0 {
			emit(nil, false, 0)
			emit(nil, false, 64)
		}
		return
	}
	for i := 0; i < samples; i++ {
		var sched []int
		rem := len(wire)
		for rem > 0 {
			k := 1 + r.Intn(rem)
			if r.Intn(3) == 0 {
				k = 1 + r.Intn(3)
				if k > rem {
					k = rem
				}
			}
			sched = append(sched, k)
			rem -= k
		}
		emit(sched, r.Bool(), spares[r.Intn(len(spares))])
	}
}

// bigStreams are boundary streams the exhaustive generator cannot reach:
// multi-byte prefixes, sizes around 127/128 and around the limit, hand-built
// 1..10-byte prefixes up to 2^64-1.
func bigStreams() []FStream {
	body := func(n int) []int {
		b := make([]int, n)
		for i := range b {
			b[i] = 33 + i%90
		}
		return b
	}
	varint := func(v uint64) []int {
		var out []int
		for v >= 0x80 {
			out = append(out, int(byte(v)|0x80))
			v >>= 7
		}
		return append(out, int(byte(v)))
	}
	var out []FStream
	for _, lim := range []int{127, 128, 200} {
		for _, n := range []int{126, 127, 128, 129, lim - 1, lim, lim + 1} {
			fr := []FFrame{{Pre: varint(uint64(n)), Body: body(n)}, {Pre: []int{2}, Body: []int{65, 66}}}
			enc := len(fr[0].Pre) + n + 3
			out = append(out, FStream{Codec: "proto", Limit: lim, Frames: fr, Cut: enc})
			out = append(out, FStream{Codec: "proto", Limit: lim, Frames: fr, Cut: enc - 4})
		}
	}
	for _, v := range []uint64{1 << 31, 1 << 32, 1<<63 - 1, 1 << 63, 1<<64 - 1, 1 << 28, 1 << 35} {
		p := varint(v)
		out = append(out, FStream{Codec: "proto", Limit: 64, Frames: []FFrame{{Pre: p, Body: []int{}}}, Cut: len(p)})
		out = append(out, FStream{Codec: "proto", Limit: 64, Frames: []FFrame{{Pre: p, Body: []int{1, 2, 3}}}, Cut: len(p) + 3})
	}
	// messages larger than the buffer they arrive in (a recycled buffer has to grow by more than a quarter, by more than
	// double, ...), not completely buffered when the call starts
	for _, pair := range [][2]int{{1100, 2000}, {600, 1500}, {2048, 5200}, {1025, 1300}} {
		fr := []FFrame{{Pre: varint(uint64(pair[0])), Body: body(pair[0])}, {Pre: varint(uint64(pair[1])), Body: body(pair[1])}}
		out = append(out, FStream{Codec: "proto", Limit: 8192, Frames: fr, Cut: len(fr[0].Pre) + pair[0] + len(fr[1].Pre) + pair[1]})
	}
	// non-minimal encodings of small sizes, 2..10 bytes
	for k := 2; k <= 10; k++ {
		p := []int{128 + 3}
		for j := 1; j < k-1; j++ {
			p = append(p, 128)
		}
		p = append(p, 0)
		out = append(out, FStream{Codec: "proto", Limit: 8, Frames: []FFrame{{Pre: p, Body: []int{7, 8, 9}}, {Pre: []int{1}, Body: []int{5}}}, Cut: k + 5})
	}
	// json: a long object around the limit, escapes at chunk boundaries
	long := func(n int) []int {
		b := []int{123, 34}
		for len(b) < n-2 {
			b = append(b, 120)
		}
		return append(b, 34, 125)
	}
	for _, lim := range []int{64, 100} {
		for _, n := range []int{lim - 1, lim, lim + 1, 2 * lim} {
			out = append(out, FStream{Codec: "json", Limit: lim, Frames: []FFrame{{Pre: []int{}, Body: long(n)}, {Pre: []int{}, Body: []int{123, 125}}}, Cut: n + 2})
		}
	}
	for _, lim := range []int{16, 64} {
		for _, n := range []int{0, 1, lim - 1, lim, lim + 1, 2 * lim, 2*lim + 1, 3*lim - 1, 4*lim + 1, 100} {
			out = append(out, FStream{Codec: "body", Limit: lim, Frames: []FFrame{{Pre: []int{}, Body: body(n)}}, Cut: n})
		}
	}
	return out
}

func init() { drivers["framing"] = framingMain }

func framingMain(args []string) error {
	c := newCommon("framing")
	exh := c.fs.Int("exhaustive", 9, "enumerate every composition for wires up to this many bytes")
	c.fs.Parse(args)
	tw, err := newTraceWriter(c.out)
	if err != nil {
		return err
	}
	var streams []FStream
	err = readLines(c.cases, func(b []byte) error {
		var s FStream
		if err := json.Unmarshal(b, &s); err != nil {
			return err
		}
		streams = append(streams, s)
		return nil
	})
	if err != nil {
		return err
	}
	streams = append(streams, bigStreams()...)
	var id int
	var idmu sync.Mutex
	work := make(chan FStream, 64)
	var wg sync.WaitGroup
	for i := 0; i < runtime.NumCPU(); i++ {
		wg.Add(1)
		go func() {
			defer wg.Done()
			for s := range work {
				runFramingStream(&id, &idmu, s, c.seed, *exh, c.n, tw)
			}
		}()
	}
	for _, s := range streams {
		work <- s
	}
	close(work)
	wg.Wait()
	fmt.Printf("framing: streams=%d cases=%d events=%d\n", len(streams), id, tw.n)
	return tw.Close()
}
