package main

// Router driver (C01, C02; reused by C16/C19/C20): rule sets and request paths
// come from the Router specification (TLC), are concretised with a seed,
// registered on real muxes in several orders and looked up through
// Mux.ServeHTTP.  Observations are projected lexically (split at '/' and ':')
// and written as Reset/Lookup events for RouterTrace.tla.

import (
	"context"
	"encoding/json"
	"fmt"
	"hash/crc32"
	"net/http"
	"net/http/httptest"
	"net/url"
	"runtime"
	"sort"
	"strconv"
	"strings"
	"sync"
	"unicode"

	"google.golang.org/genproto/googleapis/api/annotations"
	"google.golang.org/genproto/googleapis/api/serviceconfig"
	"google.golang.org/protobuf/proto"
	"google.golang.org/protobuf/reflect/protoreflect"
	"google.golang.org/protobuf/types/dynamicpb"
	"larking.io/larking"
)

type AElem struct {
	T   string   `json:"t"`
	V   string   `json:"v"`
	Fp  []string `json:"fp"`
	Pat []AElem  `json:"pat"`
}
type ATmpl struct {
	Segs []AElem `json:"segs"`
	Verb string  `json:"verb"`
}
type ARule struct {
	Kind string `json:"kind"`
	Tmpl ATmpl  `json:"tmpl"`
	M    string `json:"m"`
}
type ATok struct {
	Sep string `json:"sep"`
	Seg string `json:"seg"`
	Doc bool   `json:"doc"`
	Int bool   `json:"int"`
}
type BTok struct {
	Sep string `json:"sep"`
	Seg string `json:"seg"`
}
type RCase struct {
	ID    int      `json:"id"`
	Rules []ARule  `json:"rules"`
	Paths [][]ATok `json:"paths"`
	Kinds []string `json:"kinds"`
}

type Cap struct {
	Fp  []string `json:"fp"`
	Val []BTok   `json:"val"`
}
type ROut struct {
	K      string `json:"k"` // dispatch | reject | panic
	M      string `json:"m"`
	Caps   []Cap  `json:"caps"`
	Status int    `json:"status"`
	Why    string `json:"why"`
}
type ResetEv struct {
	Ev       string   `json:"ev"`
	Case     int      `json:"case"`
	Rules    []ARule  `json:"rules"`  // concrete, user rules then implicit rules
	NUser    int      `json:"nuser"`  // number of user rules
	Orders   [][]int  `json:"orders"` // permutations of the user rules
	Acc      []bool   `json:"acc"`    // per order: registration accepted
	Errs     []string `json:"errs"`
	Mode     string   `json:"mode"`
	Src      string   `json:"src"`
	Panicked bool     `json:"panicked"`
	AltAcc   bool     `json:"altacc"` // the other source accepted the rule set
}
type LookupEv struct {
	Ev   string `json:"ev"`
	Case int    `json:"case"`
	Kind string `json:"kind"`
	Path []ATok `json:"path"`
	Outs []ROut `json:"outs"`
	Alt  ROut   `json:"alt"` // same rules declared through the other source (config <-> annotation)
	// the same request once more with a query string that names every variable field of the rule set with another
	// value: same dispatch, and every path-bound field still holds the path text
	QSame bool   `json:"qsame"`
	QNote string `json:"qnote"`
}

func normElem(e *AElem) {
	if e.Fp == nil {
		e.Fp = []string{}
	}
	if e.Pat == nil {
		e.Pat = []AElem{}
	}
	for i := range e.Pat {
		normElem(&e.Pat[i])
	}
}
func normRule(r *ARule) {
	if r.Tmpl.Segs == nil {
		r.Tmpl.Segs = []AElem{}
	}
	for i := range r.Tmpl.Segs {
		normElem(&r.Tmpl.Segs[i])
	}
}

// ---- concretisation ---------------------------------------------------------

var litPool = []string{"v1", "books", "a-b.c_d", "größe", "書籍", "x", "shelves", "Zz9", "k_", "n.m"}
var freePool = []string{".", "..", "...", "p0", "x~!$", "123abc", "(p)", "a+b,c;d=e@f", "é", "00x", "4294967297", "2147483648", "-2147483649", "99999999999", "&'*", "q", "_-_", "5.5", "ünï"}
var intPool = []string{"7", "1", "-1", "2147483647", "-2147483648", "42", "-40", "1000000"}
var undocPool = []string{"a|b", "a b", "%7B", "{x}", "a\"b", "<>", "a\\b", "#", "?", "[1]", "^", "`"}

type concretiser struct {
	m    map[string]string
	used map[string]bool
	r    *rng
	// kinds other rules of the case use as they are; the image of GET stays clear of them
	avoid map[string]bool
}

func newConcretiser(r *rng) *concretiser {
	return &concretiser{m: map[string]string{}, used: map[string]bool{}, r: r}
}

func (c *concretiser) pick(pool []string) string {
	for tries := 0; tries < 50; tries++ {
		s := pool[c.r.Intn(len(pool))]
		if !c.used[s] {
			c.used[s] = true
			return s
		}
	}
	// exhausted: derive a fresh one
	s := pool[0] + strconv.Itoa(len(c.used))
	c.used[s] = true
	return s
}

// related derives a fresh segment from a literal the case already uses: the literal extended by a documented
// character and more, or a proper prefix of it.
func (c *concretiser) related(literal bool) string {
	var lits []string
	for _, a := range []string{"a", "b", "c", "v", "w"} {
		if v, ok := c.m[a]; ok && v != "" {
			lits = append(lits, v)
		}
	}
	if len(lits) == 0 {
		return ""
	}
	base := lits[c.r.Intn(len(lits))]
	var cand []string
	for _, suf := range []string{"-archived", ".v2", "_x", "0", "s", "-", ".", "~"} {
		if literal && suf == "~" {
			continue // '~' is a path character, not a character of a template literal
		}
		cand = append(cand, base+suf)
	}
	if rs := []rune(base); len(rs) > 1 {
		cand = append(cand, string(rs[:len(rs)-1]))
	}
	for tries := 0; tries < 10; tries++ {
		s := cand[c.r.Intn(len(cand))]
		if !c.used[s] {
			c.used[s] = true
			return s
		}
	}
	return ""
}

// drawn builds a free segment from the documented character set (letters, digits and -_.~!$&'()*+,;=@), 1..6 characters.
func (c *concretiser) drawn() string {
	alphabet := []rune("abzAZ09-_.~!$&'()*+,;=@éß書")
	for tries := 0; tries < 10; tries++ {
		n := 1 + c.r.Intn(6)
		rs := make([]rune, n)
		for i := range rs {
			rs[i] = alphabet[c.r.Intn(len(alphabet))]
		}
		s := string(rs)
		// (numerals are in the pools already; a drawn "0" bound to an integer field would be the field's default, which a
		// proto3 message does not show as set)
		if strings.Trim(s, ".") == "" || strings.Trim(s, "+-0123456789.") == "" || c.used[s] { // dot segments are in the pool already
			continue
		}
		c.used[s] = true
		return s
	}
	return ""
}

// seg maps an abstract segment to a concrete one, consistently within a case.
func (c *concretiser) seg(a string) string {
	if v, ok := c.m[a]; ok {
		return v
	}
	var v string
	switch a {
	case "":
		v = ""
	case "a", "b", "c", "v", "w":
		v = c.pick(litPool)
		// names that extend one another ("users", "users-archived", "users.v2"): '-' and '.' sort before the '/' that
		// follows a literal inside a pattern, '_' and letters after it
		if rel := c.related(true); rel != "" && c.r.Intn(3) == 0 {
			v = rel
		}
	case "p", "q":
		v = c.pick(freePool)
		if c.r.Intn(3) == 0 { // a segment drawn character by character from everything larking documents as valid
			if g := c.drawn(); g != "" {
				v = g
			}
		}
		if rel := c.related(false); rel != "" && c.r.Intn(5) == 0 {
			v = rel // a free value that extends (or is a prefix of) one of the case's literals
		}
	case "7":
		v = c.pick(intPool)
	case "u":
		v = c.pick(undocPool)
	default:
		v = a
	}
	c.m[a] = v
	return v
}

func (c *concretiser) elem(e AElem) AElem {
	out := AElem{T: e.T, V: e.V, Fp: append([]string{}, e.Fp...), Pat: []AElem{}}
	if e.T == "lit" {
		out.V = c.seg(e.V)
	}
	for _, p := range e.Pat {
		out.Pat = append(out.Pat, c.elem(p))
	}
	return out
}

// kind maps the abstract rule verb to a concrete one, consistently within a case: the model's "GET" stands for any
// concrete verb a rule can be registered under (standard ones and a custom kind).
func (c *concretiser) kind(k string) string {
	if k != "GET" {
		return k
	}
	if v, ok := c.m["kind:GET"]; ok {
		return v
	}
	// the image must stay distinct from the other kinds of the case: two rules the specification keeps apart by
	// kind would otherwise become a re-declaration or a conflict, which Router.tla deliberately does not explore
	v := []string{"GET", "GET", "PUT", "DELETE", "PATCH", "POST", "LIST"}[c.r.Intn(7)]
	if c.avoid[v] {
		v = "GET"
	}
	c.m["kind:GET"] = v
	return v
}

func (c *concretiser) rule(r ARule) ARule {
	out := ARule{Kind: c.kind(r.Kind), M: r.M, Tmpl: ATmpl{Segs: []AElem{}}}
	for _, e := range r.Tmpl.Segs {
		out.Tmpl.Segs = append(out.Tmpl.Segs, c.elem(e))
	}
	if r.Tmpl.Verb != "" {
		// a verb is a LITERAL like any other: it may begin with a digit, '_', '-' or '.'
		if _, ok := c.m[r.Tmpl.Verb]; !ok && c.r.Intn(5) == 0 {
			for _, v := range []string{"2fa", "_search", "-x", ".hidden", "9", "0day"} {
				if !c.used[v] && c.r.Intn(3) == 0 {
					c.used[v] = true
					c.m[r.Tmpl.Verb] = v
					break
				}
			}
		}
		out.Tmpl.Verb = c.seg(r.Tmpl.Verb)
	}
	return out
}

func isDocumented(s string) bool {
	if s == "" {
		return false
	}
	for _, r := range s {
		switch {
		case unicode.IsLetter(r) || unicode.IsNumber(r):
		case strings.ContainsRune("-_.~!$&'()*+,;=@", r):
		default:
			return false
		}
	}
	return true
}

func isCanonInt32(s string) bool {
	n, err := strconv.ParseInt(s, 10, 32)
	if err != nil {
		return false
	}
	return strconv.FormatInt(n, 10) == s
}

func (c *concretiser) path(p []ATok) []ATok {
	out := make([]ATok, len(p))
	for i, t := range p {
		s := c.seg(t.Seg)
		out[i] = ATok{Sep: t.Sep, Seg: s, Doc: isDocumented(s), Int: isCanonInt32(s)}
	}
	return out
}

func renderElem(e AElem, r *rng) string {
	switch e.T {
	case "lit":
		return e.V
	case "star":
		return "*"
	case "ss":
		return "**"
	case "var":
		fp := strings.Join(e.Fp, ".")
		if len(e.Pat) == 1 && e.Pat[0].T == "star" && r.Bool() {
			return "{" + fp + "}"
		}
		var ps []string
		for _, p := range e.Pat {
			ps = append(ps, renderElem(p, r))
		}
		return "{" + fp + "=" + strings.Join(ps, "/") + "}"
	}
	return "?"
}

func renderTmpl(t ATmpl, r *rng) string {
	var b strings.Builder
	for _, e := range t.Segs {
		b.WriteString("/")
		b.WriteString(renderElem(e, r))
	}
	if t.Verb != "" {
		b.WriteString(":" + t.Verb)
	}
	return b.String()
}

func renderPath(p []ATok) string {
	var b strings.Builder
	for _, t := range p {
		b.WriteString(t.Sep)
		b.WriteString(t.Seg)
	}
	return b.String()
}

func httpRule(kind, tmpl string) *annotations.HttpRule {
	r := &annotations.HttpRule{}
	switch kind {
	case "GET":
		r.Pattern = &annotations.HttpRule_Get{Get: tmpl}
	case "PUT":
		r.Pattern = &annotations.HttpRule_Put{Put: tmpl}
	case "POST":
		r.Pattern = &annotations.HttpRule_Post{Post: tmpl}
	case "DELETE":
		r.Pattern = &annotations.HttpRule_Delete{Delete: tmpl}
	case "PATCH":
		r.Pattern = &annotations.HttpRule_Patch{Patch: tmpl}
	default:
		r.Pattern = &annotations.HttpRule_Custom{Custom: &annotations.CustomHttpPattern{Kind: kind, Path: tmpl}}
	}
	return r
}

// ---- lexical projection of observations ------------------------------------

// cutText splits s at every '/' and ':' keeping the separators.
func cutText(s string) []BTok {
	out := []BTok{}
	sep := ""
	start := 0
	for i := 0; i < len(s); i++ {
		if s[i] == '/' || s[i] == ':' {
			out = append(out, BTok{Sep: sep, Seg: s[start:i]})
			sep = string(s[i])
			start = i + 1
		}
	}
	out = append(out, BTok{Sep: sep, Seg: s[start:]})
	return out
}

// leaves lists every populated leaf field of m with its text form.
func leaves(m protoreflect.Message, prefix []string, out *[]Cap) {
	m.Range(func(fd protoreflect.FieldDescriptor, v protoreflect.Value) bool {
		fp := append(append([]string{}, prefix...), string(fd.Name()))
		switch {
		case fd.IsList():
			l := v.List()
			for i := 0; i < l.Len(); i++ {
				*out = append(*out, Cap{Fp: append(fp, "[]"), Val: cutText(fmt.Sprint(l.Get(i).Interface()))})
			}
		case fd.IsMap():
			*out = append(*out, Cap{Fp: append(fp, "{}"), Val: []BTok{}})
		case fd.Message() != nil:
			n := len(*out)
			leaves(v.Message(), fp, out)
			if len(*out) == n { // present but empty sub-message
				*out = append(*out, Cap{Fp: append(fp, "<empty>"), Val: []BTok{}})
			}
		case fd.Kind() == protoreflect.StringKind:
			*out = append(*out, Cap{Fp: fp, Val: cutText(v.String())})
		case fd.Kind() == protoreflect.BytesKind:
			*out = append(*out, Cap{Fp: fp, Val: cutText(string(v.Bytes()))})
		default:
			*out = append(*out, Cap{Fp: fp, Val: cutText(fmt.Sprint(v.Interface()))})
		}
		return true
	})
	sort.SliceStable(*out, func(i, j int) bool {
		return strings.Join((*out)[i].Fp, ".") < strings.Join((*out)[j].Fp, ".")
	})
}

// ---- execution ---------------------------------------------------------------

type rmux struct {
	mux  *larking.Mux
	err  error
	mu   sync.Mutex
	last *ROut
}

type regPlan struct {
	mode    string // "one" service for all methods | "per" method service
	src     string // "annotation" | "config"
	methods []string
}

func svcOf(mode, m string) string {
	if mode == "one" {
		return "Svc"
	}
	return "Svc" + m
}

// buildMux registers the user rules in the given order.
func buildMux(rules []ARule, order []int, plan regPlan, tr *rng) (rm *rmux) {
	rm = &rmux{}
	defer func() {
		if p := recover(); p != nil {
			rm.err = fmt.Errorf("PANIC: %v", p)
		}
	}()
	// group rules by method in order of first appearance
	var methods []string
	byM := map[string][]*annotations.HttpRule{}
	for _, k := range order {
		r := rules[k]
		if _, ok := byM[r.M]; !ok {
			methods = append(methods, r.M)
		}
		byM[r.M] = append(byM[r.M], httpRule(r.Kind, renderTmpl(r.Tmpl, tr)))
	}
	for _, m := range plan.methods { // methods without user rules keep their implicit rule
		if _, ok := byM[m]; !ok {
			methods = append(methods, m)
			byM[m] = nil
		}
	}
	primary := func(m string) *annotations.HttpRule {
		rs := byM[m]
		if len(rs) == 0 {
			return nil
		}
		p := proto.Clone(rs[0]).(*annotations.HttpRule)
		for _, ab := range rs[1:] {
			p.AdditionalBindings = append(p.AdditionalBindings, ab)
		}
		return p
	}
	var svcs []ServiceSpec
	cfg := &serviceconfig.Service{Http: &annotations.Http{}}
	addMethod := func(svc *ServiceSpec, m string) {
		ms := MethodSpec{Name: m}
		if p := primary(m); p != nil {
			if plan.src == "config" {
				p.Selector = "vs." + svc.Name + "." + m
				cfg.Http.Rules = append(cfg.Http.Rules, p)
			} else {
				ms.Rule = p
			}
		}
		svc.Methods = append(svc.Methods, ms)
	}
	if plan.mode == "one" {
		svc := ServiceSpec{Name: "Svc"}
		for _, m := range methods {
			addMethod(&svc, m)
		}
		svcs = append(svcs, svc)
	} else {
		for _, m := range methods {
			svc := ServiceSpec{Name: "Svc" + m}
			addMethod(&svc, m)
			svcs = append(svcs, svc)
		}
	}
	files, sds, err := BuildFiles(svcs)
	if err != nil {
		rm.err = fmt.Errorf("schema: %w", err)
		return rm
	}
	muxFiles := files
	if tr != nil && tr.Intn(4) == 0 {
		// a rolling upgrade: the mux knows a newer revision of the messages (a field added in front, every index moved)
		// than the handlers were built against
		if fr, _, err := BuildFilesRev(svcs); err == nil {
			muxFiles = fr
		}
	}
	opts := []larking.MuxOption{larking.FilesOption(muxFiles)}
	if plan.src == "config" {
		opts = append(opts, larking.ServiceConfigOption(cfg))
	}
	mux, err := larking.NewMux(opts...)
	if err != nil {
		rm.err = err
		return rm
	}
	for _, sd := range sds {
		un := func(ctx context.Context, full string, req *dynamicpb.Message) (proto.Message, error) {
			o := &ROut{K: "dispatch", M: full[strings.LastIndex(full, "/")+1:], Caps: []Cap{}}
			leaves(req, nil, &o.Caps)
			rm.mu.Lock()
			rm.last = o
			rm.mu.Unlock()
			rep := dynamicpb.NewMessage(repDesc())
			rep.Set(repDesc().Fields().ByName("id"), protoreflect.ValueOfString(full))
			return rep, nil
		}
		gsd := MakeServiceDesc(sd, un, nil)
		if err := larking.VerifRegisterService(mux, gsd, struct{}{}); err != nil {
			rm.err = err
			return rm
		}
	}
	rm.mux = mux
	return rm
}

func (rm *rmux) lookup(kind, path string) (out ROut) { return rm.lookupQ(kind, path, "") }

func (rm *rmux) lookupQ(kind, path, rawQuery string) (out ROut) {
	defer func() {
		if p := recover(); p != nil {
			out = ROut{K: "panic", Caps: []Cap{}, Why: fmt.Sprint(p)}
		}
	}()
	rm.mu.Lock()
	rm.last = nil
	rm.mu.Unlock()
	req := httptest.NewRequest(kind, "http://verif.test/", nil)
	req.URL = &url.URL{Scheme: "http", Host: "verif.test", Path: path, RawQuery: rawQuery}
	req.RequestURI = path
	// a third of the lookups offer a protocol upgrade that is not WebSocket (what `curl --http2` sends on a clear-text
	// connection): the request is still the plain request of its verb
	if h := crc32.ChecksumIEEE([]byte(kind + " " + path)); h%3 == 0 {
		req.Header.Set("Connection", "Upgrade, HTTP2-Settings")
		req.Header.Set("Upgrade", "h2c")
		req.Header.Set("HTTP2-Settings", "AAMAAABkAAQAoAAAAAIAAAAA")
	}
	w := httptest.NewRecorder()
	rm.mux.ServeHTTP(w, req)
	rm.mu.Lock()
	last := rm.last
	rm.mu.Unlock()
	if last != nil {
		last.Status = w.Code
		if w.Code != http.StatusOK {
			last.Why = "handler ran but status " + strconv.Itoa(w.Code)
		}
		return *last
	}
	return ROut{K: "reject", Caps: []Cap{}, Status: w.Code}
}

func perms(n, max int) [][]int {
	var out [][]int
	var rec func(cur []int, used []bool)
	rec = func(cur []int, used []bool) {
		if len(out) >= max {
			return
		}
		if len(cur) == n {
			out = append(out, append([]int{}, cur...))
			return
		}
		for i := 0; i < n; i++ {
			if !used[i] {
				used[i] = true
				rec(append(cur, i), used)
				used[i] = false
			}
		}
	}
	rec(nil, make([]bool, n))
	return out
}

func methodsOf(rules []ARule) []string {
	seen := map[string]bool{}
	var ms []string
	for _, r := range rules {
		if !seen[r.M] {
			seen[r.M] = true
			ms = append(ms, r.M)
		}
	}
	sort.Strings(ms)
	return ms
}

func implicitRules(mode string, methods []string) []ARule {
	var out []ARule
	for _, m := range methods {
		out = append(out, ARule{Kind: "*", M: m, Tmpl: ATmpl{Segs: []AElem{
			{T: "lit", V: "vs." + svcOf(mode, m), Fp: []string{}, Pat: []AElem{}},
			{T: "lit", V: m, Fp: []string{}, Pat: []AElem{}},
		}}})
	}
	return out
}

func mkTok(sep, seg string) ATok {
	return ATok{Sep: sep, Seg: seg, Doc: isDocumented(seg), Int: isCanonInt32(seg)}
}

// runRouterCase executes one case and returns its events plus the concrete side record.
func runRouterCase(c RCase, seed int64) ([]interface{}, map[string]interface{}) {
	r := newRng(seed, c.ID)
	cz := newConcretiser(r)
	cz.avoid = map[string]bool{}
	for i := range c.Rules {
		if c.Rules[i].Kind != "GET" {
			cz.avoid[c.Rules[i].Kind] = true
		}
	}
	rules := make([]ARule, len(c.Rules))
	for i := range c.Rules {
		rules[i] = cz.rule(c.Rules[i])
	}
	plan := regPlan{mode: "one", src: "annotation", methods: methodsOf(rules)}
	if r.Bool() {
		plan.mode = "per"
	}
	if r.Intn(3) == 0 {
		plan.src = "config"
	}
	orders := perms(len(rules), 6)
	tseed := r.next()
	muxes := make([]*rmux, len(orders))
	ev := ResetEv{Ev: "Reset", Case: c.ID, NUser: len(rules), Orders: orders, Mode: plan.mode, Src: plan.src, Errs: []string{}}
	allOK := true
	for k, o := range orders {
		// the same template rendering choices for every order
		muxes[k] = buildMux(rules, o, plan, &rng{s: tseed})
		ev.Acc = append(ev.Acc, muxes[k].err == nil)
		if muxes[k].err != nil {
			allOK = false
			ev.Errs = append(ev.Errs, muxes[k].err.Error())
			if strings.HasPrefix(muxes[k].err.Error(), "PANIC") {
				ev.Panicked = true
			}
		}
	}
	altPlan := plan
	if plan.src == "config" {
		altPlan.src = "annotation"
	} else {
		altPlan.src = "config"
	}
	alt := buildMux(rules, orders[0], altPlan, &rng{s: tseed})
	ev.AltAcc = alt.err == nil
	ev.Rules = append(append([]ARule{}, rules...), implicitRules(plan.mode, plan.methods)...)
	for i := range ev.Rules {
		normRule(&ev.Rules[i])
	}
	evs := []interface{}{ev}
	side := map[string]interface{}{"case": c.ID, "seed": seed, "mode": plan.mode, "src": plan.src}
	var tmpls []string
	for _, rl := range rules {
		tmpls = append(tmpls, rl.Kind+" "+renderTmpl(rl.Tmpl, &rng{s: tseed})+" -> "+rl.M)
	}
	side["rules"] = tmpls
	if !allOK {
		return evs, side
	}
	kinds := c.Kinds
	if len(kinds) == 0 {
		// the verb is part of the rule: HEAD is not GET, and a seeded further verb (other standard ones, a custom
		// one, a lower-case spelling) must only reach rules of its own kind or '*'
		extra := []string{"PUT", "DELETE", "PATCH", "OPTIONS", "get", "LIST", "TRACE", "Get"}
		own := cz.kind("GET") // the verb this case's rules are registered under
		kinds = []string{own, "HEAD", extra[r.Intn(len(extra))]}
		for _, k := range []string{"GET", "POST"} {
			if k != own {
				kinds = append(kinds, k)
			}
		}
	}
	paths := make([][]ATok, 0, len(c.Paths)+8)
	for _, p := range c.Paths {
		paths = append(paths, cz.path(p))
	}
	// implicit bindings and a few near misses of them
	for _, m := range plan.methods {
		s := "vs." + svcOf(plan.mode, m)
		paths = append(paths,
			[]ATok{mkTok("/", s), mkTok("/", m)},
			[]ATok{mkTok("/", s), mkTok(":", m)},
			[]ATok{mkTok("/", s)},
			[]ATok{mkTok("/", s), mkTok("/", m), mkTok("/", cz.seg("p"))},
			[]ATok{mkTok("/", s), mkTok("/", m), mkTok(":", cz.seg("v"))},
		)
	}
	// competing query: every variable field path of the rule set, with a value of its kind that no path carries
	qv := url.Values{}
	var collect func(es []AElem)
	collect = func(es []AElem) {
		for _, e := range es {
			if e.T == "var" && len(e.Fp) > 0 {
				val := "qcmp"
				if last := e.Fp[len(e.Fp)-1]; last == "i" || last == "j" {
					val = "987654"
				}
				qv.Set(strings.Join(e.Fp, "."), val)
			}
			collect(e.Pat)
		}
	}
	for _, ru := range rules {
		collect(ru.Tmpl.Segs)
	}
	rawQuery := qv.Encode()
	var reqs []string
	for _, p := range paths {
		text := renderPath(p)
		for _, kind := range kinds {
			le := LookupEv{Ev: "Lookup", Case: c.ID, Kind: kind, Path: p, QSame: true}
			for _, rm := range muxes {
				le.Outs = append(le.Outs, rm.lookup(kind, text))
			}
			if rawQuery != "" && len(le.Outs) > 0 && le.Outs[0].K == "dispatch" && le.Outs[0].Status == 200 {
				plain, q := le.Outs[0], muxes[0].lookupQ(kind, text, rawQuery)
				if q.K != plain.K || q.M != plain.M {
					le.QSame, le.QNote = false, fmt.Sprintf("?%s: %s %s (status %d) instead of %s %s", rawQuery, q.K, q.M, q.Status, plain.K, plain.M)
				}
				for _, pc := range plain.Caps {
					found := false
					for _, qc := range q.Caps {
						if strings.Join(qc.Fp, ".") == strings.Join(pc.Fp, ".") && fmt.Sprint(qc.Val) == fmt.Sprint(pc.Val) {
							found = true
						}
					}
					if !found && le.QSame {
						le.QSame, le.QNote = false, fmt.Sprintf("?%s: field %s no longer holds %v", rawQuery, strings.Join(pc.Fp, "."), pc.Val)
					}
				}
			}
			if alt.err == nil {
				le.Alt = alt.lookup(kind, text)
			} else {
				le.Alt = ROut{K: "noalt", Caps: []Cap{}}
			}
			evs = append(evs, le)
			reqs = append(reqs, kind+" "+text)
		}
	}
	side["reqs"] = reqs
	return evs, side
}

func init() { drivers["router"] = routerMain }

func routerMain(args []string) error {
	c := newCommon("router")
	c.fs.Parse(args)
	tw, err := newTraceWriter(c.out)
	if err != nil {
		return err
	}
	var sw *traceWriter
	if c.side != "" {
		if sw, err = newTraceWriter(c.side); err != nil {
			return err
		}
	}
	var cases []RCase
	err = readLines(c.cases, func(b []byte) error {
		var rc RCase
		if err := json.Unmarshal(b, &rc); err != nil {
			return fmt.Errorf("case: %w", err)
		}
		if rc.ID == 0 {
			rc.ID = len(cases) + 1
		}
		cases = append(cases, rc)
		return nil
	})
	if err != nil {
		return err
	}
	work := make(chan RCase)
	var wg sync.WaitGroup
	for i := 0; i < runtime.NumCPU(); i++ {
		wg.Add(1)
		go func() {
			defer wg.Done()
			for rc := range work {
				evs, side := runRouterCase(rc, c.seed)
				tw.EmitAll(evs)
				if sw != nil {
					sw.Emit(side)
				}
			}
		}()
	}
	for _, rc := range cases {
		work <- rc
	}
	close(work)
	wg.Wait()
	if sw != nil {
		sw.Close()
	}
	fmt.Printf("router: cases=%d events=%d\n", len(cases), tw.n)
	return tw.Close()
}
