package main

// Concurrent driver (C13): the per-RPC cases of Rpc.tla run as a concurrent mix
// on many goroutines (the buffer pools and the gzip compressor are shared by
// all muxes of the process), together with HttpBody uploads whose handlers
// retain every chunk.  Every RPC's own event is validated by RpcTrace with its
// own payload identities; retained data is re-digested after the mix.

import (
	"bytes"
	"context"
	"crypto/sha256"
	"encoding/json"
	"fmt"
	"io"
	"net/http/httptest"
	"net/url"
	"sync"
	"testing/iotest"

	"google.golang.org/genproto/googleapis/api/annotations"
	"google.golang.org/genproto/googleapis/api/httpbody"
	"google.golang.org/grpc"
	"google.golang.org/grpc/stats"
	"google.golang.org/protobuf/proto"
	"google.golang.org/protobuf/reflect/protoreflect"
	"google.golang.org/protobuf/types/dynamicpb"
	"larking.io/larking"
)

type UploadCase struct {
	ID    int    `json:"id"`
	Fam   string `json:"fam"`
	Len   int    `json:"len"`
	Limit int    `json:"limit"` // maxReceiveMessageSize = chunk size
	Mode  string `json:"mode"`  // plain | dataerr | gzip | onebyte | broken (the body breaks off inside a chunk with an error) | brokendata (... reported together with the last bytes)
}
type RetainEv struct {
	Ev        string `json:"ev"`
	Case      int    `json:"case"`
	Chunks    int    `json:"chunks"`
	Bytes     int    `json:"bytes"`
	Stable    bool   `json:"stable"`
	Concat    bool   `json:"concat"`
	OverLimit bool   `json:"overlimit"`
	Crash     string `json:"crash"`
	Len       int    `json:"len"`
	Limit     int    `json:"limit"`
	End       string `json:"end"` // how the handler's receive loop ended: eof | error
	Mode      string `json:"mode"`
	// what a stats handler installed on the mux saw of the call (uploads): one in-payload event per message the
	// handler received, one out-payload event per reply
	InPayloads  int `json:"inpayloads"`
	OutPayloads int `json:"outpayloads"`
	Begins      int `json:"begins"`
	Ends        int `json:"ends"`
}

// uploadStats counts the stats events of one upload.
type uploadStats struct {
	mu                  sync.Mutex
	in, out, begin, end int
}

func (u *uploadStats) TagRPC(ctx context.Context, _ *stats.RPCTagInfo) context.Context   { return ctx }
func (u *uploadStats) TagConn(ctx context.Context, _ *stats.ConnTagInfo) context.Context { return ctx }
func (u *uploadStats) HandleConn(context.Context, stats.ConnStats)                       {}
func (u *uploadStats) HandleRPC(_ context.Context, s stats.RPCStats) {
	u.mu.Lock()
	defer u.mu.Unlock()
	switch s.(type) {
	case *stats.InPayload:
		u.in++
	case *stats.OutPayload:
		u.out++
	case *stats.Begin:
		u.begin++
	case *stats.End:
		u.end++
	}
}

// A download serves a handler-owned asset (a cached file) as an HttpBody reply: the asset belongs to the application
// and must neither change nor turn up in anybody else's buffers.
type downloadRun struct {
	c      UploadCase
	asset  []byte
	digest [32]byte
	intact bool // the client received exactly the asset
	crash  string
	status int
}

func runDownload(c UploadCase) *downloadRun {
	d := &downloadRun{c: c}
	d.asset = make([]byte, c.Len, c.Len+64) // spare capacity, like a slice of a larger cache
	for i := range d.asset {
		d.asset[i] = byte((i*17 + c.ID*5) % 249)
	}
	d.digest = sha256.Sum256(d.asset)
	svc := ServiceSpec{Name: "Dl", Methods: []MethodSpec{{Name: "Download", Out: ".google.api.HttpBody", Rule: httpRule("GET", "/t/download/{s}")}}}
	files, sds, err := BuildFiles([]ServiceSpec{svc})
	if err != nil {
		d.crash = "setup: " + err.Error()
		return d
	}
	mux, err := larking.NewMux(larking.FilesOption(files))
	if err != nil {
		d.crash = "setup: " + err.Error()
		return d
	}
	un := func(ctx context.Context, full string, req *dynamicpb.Message) (proto.Message, error) {
		return &httpbody.HttpBody{ContentType: "application/x-asset", Data: d.asset}, nil
	}
	if err := larking.VerifRegisterService(mux, MakeServiceDesc(sds[0], un, nil), struct{}{}); err != nil {
		d.crash = "setup: " + err.Error()
		return d
	}
	for k := 0; k < 3; k++ { // the same asset is served repeatedly
		req := httptest.NewRequest("GET", "http://verif.test/t/download/x", nil)
		w := httptest.NewRecorder()
		func() {
			defer func() {
				if p := recover(); p != nil {
					d.crash = fmt.Sprint(p)
				}
			}()
			mux.ServeHTTP(w, req)
		}()
		d.status = w.Code
		d.intact = w.Code == 200 && sha256.Sum256(w.Body.Bytes()) == d.digest
		if !d.intact {
			break
		}
	}
	return d
}

func (d *downloadRun) event() RetainEv {
	// (after the whole mix) the asset is still what it was, and every client got it whole
	return RetainEv{Ev: "Retain", Case: d.c.ID, Chunks: 1, Bytes: len(d.asset), Stable: sha256.Sum256(d.asset) == d.digest, Concat: d.intact,
		Crash: d.crash, Len: d.c.Len, Limit: d.c.Limit, Mode: "download"}
}

type retained struct {
	data   []byte   // the slice the handler was given (not copied)
	digest [32]byte // at receipt
}

type uploadRun struct {
	c      UploadCase
	chunks []retained
	want   []byte
	crash  string
	status int
	end    string
	stats  uploadStats
}

// brokenReader delivers the first n bytes and then fails: the connection broke in the middle of the upload.
type brokenReader struct {
	b        []byte
	n        int
	withData bool // the error comes together with the last bytes delivered
}

func (r *brokenReader) Read(p []byte) (int, error) {
	if r.n <= 0 {
		return 0, io.ErrUnexpectedEOF
	}
	k := len(p)
	if k > r.n {
		k = r.n
	}
	if k > 7 {
		k = 7 // small reads: the break falls inside a chunk the codec is still collecting
	}
	copy(p, r.b[:k])
	r.b, r.n = r.b[k:], r.n-k
	if r.n == 0 && r.withData {
		return k, io.ErrUnexpectedEOF
	}
	return k, nil
}

func runUpload(c UploadCase) *uploadRun {
	u := &uploadRun{c: c}
	u.want = make([]byte, c.Len)
	for i := range u.want {
		u.want[i] = byte((i*31 + c.ID*7) % 251)
	}
	svc := ServiceSpec{Name: "Up", Methods: []MethodSpec{{Name: "Upload", ClientStream: true, In: ".google.api.HttpBody",
		Rule: func() *annotationsHTTPRule { r := httpRule("POST", "/t/upload"); r.Body = "*"; return r }()}}}
	files, sds, err := BuildFiles([]ServiceSpec{svc})
	if err != nil {
		u.crash = "setup: " + err.Error()
		return u
	}
	mux, err := larking.NewMux(larking.FilesOption(files), larking.MaxReceiveMessageSizeOption(c.Limit), larking.StatsOption(&u.stats))
	if err != nil {
		u.crash = "setup: " + err.Error()
		return u
	}
	st := func(full string, md protoreflect.MethodDescriptor, ss grpc.ServerStream) error {
		for {
			m := dynamicpb.NewMessage(md.Input())
			if err := ss.RecvMsg(m); err != nil {
				if err == io.EOF {
					u.end = "eof"
					break
				}
				u.end = "error"
				return err
			}
			d := m.Get(md.Input().Fields().ByName("data")).Bytes()
			u.chunks = append(u.chunks, retained{data: d, digest: sha256.Sum256(d)})
		}
		return ss.SendMsg(repMsg(c.ID, 1, 0))
	}
	if err := larking.VerifRegisterService(mux, MakeServiceDesc(sds[0], nil, st), struct{}{}); err != nil {
		u.crash = "setup: " + err.Error()
		return u
	}
	body := u.want
	req := httptest.NewRequest("POST", "http://verif.test/", nil)
	req.URL = &url.URL{Scheme: "http", Host: "verif.test", Path: "/t/upload"}
	req.Header.Set("Content-Type", "application/x-raw")
	req.Header.Set("Accept", "application/json") // the reply is an ordinary message: it needs a codec the mux has
	var rd io.Reader = bytes.NewReader(body)
	switch c.Mode {
	case "dataerr":
		rd = iotest.DataErrReader(bytes.NewReader(body)) // last bytes together with io.EOF, like net/http's HTTP/1 body
	case "onebyte":
		rd = iotest.OneByteReader(bytes.NewReader(body))
	case "broken", "brokendata":
		rd = &brokenReader{b: body, n: len(body) - 1 - len(body)/3, withData: c.Mode == "brokendata"}
	case "gzip":
		rd = bytes.NewReader(gz(body))
		req.Header.Set("Content-Encoding", "gzip")
	}
	req.Body = io.NopCloser(rd)
	req.ContentLength = -1
	w := httptest.NewRecorder()
	func() {
		defer func() {
			if p := recover(); p != nil {
				u.crash = fmt.Sprint(p)
			}
		}()
		mux.ServeHTTP(w, req)
	}()
	u.status = w.Code
	return u
}

func (u *uploadRun) event() RetainEv {
	ev := RetainEv{Ev: "Retain", Case: u.c.ID, Chunks: len(u.chunks), Stable: true, Crash: u.crash, Len: u.c.Len, Limit: u.c.Limit, Mode: u.c.Mode, End: u.end,
		InPayloads: u.stats.in, OutPayloads: u.stats.out, Begins: u.stats.begin, Ends: u.stats.end}
	var all []byte
	for _, ch := range u.chunks {
		if sha256.Sum256(ch.data) != ch.digest {
			ev.Stable = false
		}
		if len(ch.data) > u.c.Limit {
			ev.OverLimit = true
		}
		all = append(all, ch.data...)
	}
	ev.Bytes = len(all)
	ev.Concat = bytes.Equal(all, u.want) && u.status == 200
	return ev
}

type annotationsHTTPRule = annotations.HttpRule

func init() { drivers["conc"] = concMain }

func concMain(args []string) error {
	c := newCommon("conc")
	workers := c.fs.Int("workers", 48, "concurrent goroutines")
	c.fs.Parse(args)
	tw, err := newTraceWriter(c.out)
	if err != nil {
		return err
	}
	type item struct {
		rc *RpcCase
		uc *UploadCase
	}
	var items []item
	err = readLines(c.cases, func(b []byte) error {
		var probe struct {
			Fam string `json:"fam"`
		}
		json.Unmarshal(b, &probe)
		if probe.Fam == "upload" {
			var uc UploadCase
			if err := json.Unmarshal(b, &uc); err != nil {
				return err
			}
			items = append(items, item{uc: &uc})
		} else {
			var rc RpcCase
			if err := json.Unmarshal(b, &rc); err != nil {
				return err
			}
			items = append(items, item{rc: &rc})
		}
		return nil
	})
	if err != nil {
		return err
	}
	work := make(chan item, 256)
	var wg sync.WaitGroup
	var mu sync.Mutex
	var uploads []*uploadRun
	var downloads []*downloadRun
	var keep []RpcEv
	for i := 0; i < *workers; i++ {
		wg.Add(1)
		go func() {
			defer wg.Done()
			for it := range work {
				if it.uc != nil && it.uc.Mode == "download" {
					d := runDownload(*it.uc)
					mu.Lock()
					downloads = append(downloads, d)
					mu.Unlock()
				} else if it.uc != nil {
					u := runUpload(*it.uc)
					mu.Lock()
					uploads = append(uploads, u)
					mu.Unlock()
				} else {
					ev := runRpcCase(*it.rc)
					mu.Lock()
					keep = append(keep, ev)
					mu.Unlock()
				}
			}
		}()
	}
	for _, it := range items {
		work <- it
	}
	close(work)
	wg.Wait()
	// everything has cycled the pools: now look at what the handlers retained
	for _, ev := range keep {
		tw.Emit(ev)
	}
	for _, u := range uploads {
		tw.Emit(u.event())
	}
	for _, d := range downloads {
		tw.Emit(d.event())
	}
	fmt.Printf("conc: rpcs=%d uploads=%d events=%d\n", len(keep), len(uploads), tw.n)
	return tw.Close()
}

var _ = proto.Equal
var _ = httpbody.File_google_api_httpbody_proto
